#!/usr/bin/env python3
"""Record, for every per-site entry of tables/justified_sites.json, the description (symbolic operands) of the site it
was reviewed for on the current tree.  The description lets the entry follow its site when the ordinal in the key
shifts (a sibling site added or removed) or when the site moves into a helper that is evaluated in this function's
context.  Run after reviewing a new entry."""
import json, os, sys
sys.path.insert(0, os.path.dirname(os.path.dirname(os.path.abspath(__file__))))
from rules.lib import facts, panics as P

F = facts.load()
A = P.Audit(F)
A.record_inlined = True
for p in sorted(F.fns):
    if not F.fns[p].get("mir"):
        continue
    for s in A.sites_of(p):
        A.discharge(s)
path = os.path.join(os.path.dirname(P.__file__), "..", "..", "tables", "justified_sites.json")
j = json.load(open(path))
n = 0
for k, v in j["sites"].items():
    d = getattr(A, "descs", {}).get(k)
    if d is not None:
        v["desc"] = d
        di = getattr(A, "descs_inl", {}).get(k)
        if di is not None and di != d:
            v["desc_inl"] = di
        else:
            v.pop("desc_inl", None)
        n += 1
json.dump(j, open(path, "w"), indent=1, ensure_ascii=False)
print("descriptions recorded for %d of %d entries" % (n, len(j["sites"])))
