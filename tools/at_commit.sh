#!/bin/sh
# usage: tools/at_commit.sh <commit-ish> <check args...> : run a check against a scratch worktree of /repo at that commit
set -e
C=$1; shift
D=$(mktemp -d /tmp/p2wt.XXXXXX)
git -C /repo worktree add -q --detach "$D" "$C"
cd /verif
P2SH_REPO="$D" ./check "$@" || true
git -C /repo worktree remove --force "$D"
