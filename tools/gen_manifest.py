#!/usr/bin/env python3
"""Regenerates /verif/MANIFEST.json from the table below (single source)."""
import json
import os

HERE = os.path.dirname(os.path.dirname(os.path.abspath(__file__)))

TRUST = ("rustc's HIR/MIR construction and Instance resolution; the p2facts dumper; the Python rule code; "
         "frozen reference tables under /verif/tables (each row cites its source)")

# property → (technique, level text, level note, design ref)
CLAIMED = {
    "C03": ("table agreement + skeleton-parameter extraction on typed HIR",
            "Decides completely (given the Pratt skeleton) that the binding relation of the parser — token→precedence, "
            "associativity, operand precedence of every prefix/infix parser, loop comparator — equals the documented "
            "table, exhaustively over the property's operator set. Evaluation results are not decided.",
            "Assumes the parser is a Pratt loop driven by PARSE_RULES (its loop shape is checked, not proved); " + TRUST,
            "DESIGN.md §3 C03"),
    "C13": ("def-use provenance of line arguments on MIR (fixpoint over call sites) + sibling-field congruence",
            "Decides where every reported line comes from: each RTError::new reachable at run time takes its line from "
            "Instructions.lines[current ip] (through parameters, closures) or the filter's own line; each emit / "
            "CompileError line from the node's token; code and lines vectors are edited congruently. It does not decide "
            "the scanner's own line counting.",
            "Provenance is may-information over resolved call sites; indirect calls through builtin fn pointers carry no "
            "line; " + TRUST,
            "DESIGN.md §3 C13"),
    "C14": ("exhaustive table agreement (opcode numbering, widths, decoder reads, ip advance, operand counts) + guard rule "
            "on the narrowing casts of make()",
            "Decides completely the codec tables: From<u8> vs discriminants for all 256 bytes, DEFINITIONS widths, what "
            "each VM::run arm decodes and how far it advances, operand counts at all emit sites; and decides that every "
            "non-constant operand passes a range test against exactly its width's maximum whose failure compile() returns.",
            "Operand values themselves are not enumerated; the guard's limits are compared with the widths, not executed; " + TRUST,
            "DESIGN.md §3 C14"),
    "C06": ("table agreement on is_falsey's match arms vs docs + routing and template rules on typed HIR",
            "Decides completely the truthiness table (23 variants, against the documented table and the property's list), "
            "that the three truthiness opcodes decide through is_falsey with the documented polarity and that nothing "
            "else in the VM decides on a Bool payload; decides the shape (emission sequence) of && / || templates, not "
            "operand values.",
            "Operator results follow from the templates only under the VM's per-opcode semantics; " + TRUST,
            "DESIGN.md §3 C06"),
    "C09": ("partial evaluation of dispatch arms per operator class + primitive classification of every operator-impl arm",
            "Decides, exhaustively over 23x23 operand-kind pairs x 6 operator classes, which combinations reach a result "
            "and which a runtime error, and per arm the result kind and primitive (wrapping_* for i64/u8, IEEE for f64), "
            "zero-divisor and negative-count guards, and Eq/Ord/Ne sibling agreement. Numeric values follow from Rust's "
            "semantics of the primitive and are not enumerated.",
            "IEEE-754 and wrapping_* semantics are std's; " + TRUST,
            "DESIGN.md §3 C09"),
    "C10": ("exhaustive Eq=>Hash contract check between PartialEq and Hash match arms + routing through std HashMap",
            "Decides completely, given std::collections::HashMap, that every pair of valid-key variants that can compare "
            "equal feeds the hasher identically (frozen compatibility table for primitive pairs, structural inspection of "
            "the local Array/BuiltinFunction impls — which fields they read and what a container's Hash hands the hasher — and of the canonical-bits helper), and that every map access goes "
            "through HashMap with the key unchanged.",
            "std's Hash/Eq agreement for primitives and String is trusted; " + TRUST,
            "DESIGN.md §3 C10"),
    "C08": ("panic-site audit over the run-time call graph: MIR asserts and panicking callees discharged by dominating "
            "linear guard facts, type rule, RefCell live-range rule, linked rule instances, or a reviewed justification",
            "Decides the absence of panic paths in everything reachable at run time (VM, 47 builtins, packet code, "
            "Display/Eq/Hash/serialisation impls, the stream loop): every one of ~770 panic-capable sites is enumerated and "
            "must be discharged or justified; a new unguarded index, unwrap, expect, division or borrow is a violation.",
            "Justified sites rest on stated invariants (stack discipline of compiler-emitted code, sp <= STACK_SIZE) "
            "reviewed by reading and tied to guard fragments that must still be present; Rust-stack exhaustion by data "
            "nesting and allocation failure are not decided; " + TRUST,
            "DESIGN.md §2.1, §3 C08"),
    "C01": ("panic-site audit of the front end + loop-progress / no-left-recursion rules on MIR CFGs + must-pass-through "
            "rule for error recording",
            "Decides the absence of panic paths in scanner, parser and compiler (181 sites over 217 functions, incl. the "
            "parse functions reached through PARSE_RULES), that every cursor loop consumes input on every cycle and the "
            "parser has no advance-free recursion, and that an Invalid AST node is never produced without a recorded "
            "error while execution is dominated by error-free parsing and compiling.",
            "End-of-input exits of loops are read, not derived; Rust-stack exhaustion by nesting beyond the property's "
            "bound is not decided; justified sites rest on who-writes invariants that are themselves rule instances; " + TRUST,
            "DESIGN.md §3 C01"),
    "C15": ("codec bit-provenance (abstract interpretation of decoders/encoders over per-bit origins) + who-may-write and "
            "routing rules",
            "Decides structurally, for every frame, that serialising a parsed-but-unmodified layer reproduces the captured "
            "bytes: every output bit of every header serialiser is the field bit decoded from the same input position "
            "(976 bits over 7 layers and 3 address types), lengths agree at the header/payload seam, cached inner objects "
            "are byte-complete, getters write nothing, and pcap_write / write / filter output share one serialiser.",
            "The domain is exact only for straight-line bit selections (anything else is '?' and fails closed); rawdata is "
            "assumed to be the captured buffer (C19); " + TRUST,
            "DESIGN.md §2.4, §3 C15"),
    "C16": ("bit-provenance of the getter chain compared with a frozen RFC/IEEE/pcap layout table + exhaustive dispatch "
            "and name-table agreement",
            "Decides completely, for the fixed-position fields, that each readable property returns exactly the reference "
            "bit range (53 properties), that $n / named layer properties dispatch on the EtherType, protocol and "
            "next-header constants of the reference table with selector guards, that payloads start at the recorded "
            "offset, and that truncated layers are rejected by a length prologue covering every byte read.",
            "tables/rfc_layouts.json is a transcription (each layer cites its source); address text forms are not decided; " + TRUST,
            "DESIGN.md §3 C16"),
    "C17": ("per-property chain check: set/get sibling pair, single-field store, width discipline against the wire width, "
            "guard-before-store, encode/decode positions of the field",
            "Decides for each of the 50 writable properties that assignment stores into exactly the field the getter reads, "
            "that the value is range-checked or reduced to exactly the field's wire width, that a rejected value precedes "
            "any store, and that the field is encoded at and decoded from the reference bit range.",
            "Coupling between fields (ihl / data offset vs cached payload offset) is not modelled; " + TRUST,
            "DESIGN.md §3 C17"),
    "C19": ("codec bit-provenance of the pcap headers + panic-site audit of the pcap I/O path + sibling-agreement rules",
            "Decides the structural necessary conditions of lossless pcap I/O: global and record header codecs are mutually "
            "inverse and match the pcap-savefile layout, a record is written whole, truncated/corrupt input cannot panic "
            "(length prologues, read_exact results propagated, caplen bounded before allocation), the three EOF consumers "
            "agree, and the file/stdin reader branches are clones. Record order over call histories is not decided.",
            "Order and counts depend on the OS file position and call history; " + TRUST,
            "DESIGN.md §3 C19"),
    "C20": ("typestate rules decided path by path over the normal form of run_filters (helpers, closures and Result combinators read in place) + provenance of the output header",
            "Decides the shape of the filter-mode driver: main program once before the loop, per-packet typestate and "
            "counter, write iff Ok(true) through the output pcap only, -s suppresses the output pcap, PL/WL/TSS/TSU "
            "wiring, end filter once after the loop, output global header = input header. Which packets a program "
            "selects (values) is not decided.",
            "A restructuring the normal form cannot read fails closed; " + TRUST,
            "DESIGN.md §3 C20"),
    "C21": ("loop-exit rule for read loops + mode table read per mode value and compared with the documentation + who-constructs rule + unformatted file writes",
            "Decides the structural necessary conditions of chunk-independent reads: no read loop exits on a short read, "
            "unbounded reads go to end of input and copy exactly what was read, the open() mode table equals the "
            "documented one (extracted from docs/language/builtins.md), each handle has one buffered reader/writer, and "
            "write() hands a file the bytes it was given (no text formatting on the file path). "
            "Chunk schedules themselves are not decided.",
            "std's BufReader/BufWriter semantics are trusted; flush-at-exit depends on drop order (not decided); " + TRUST,
            "DESIGN.md §3 C21"),
    "C22": ("error-discipline rule: every io::Result in the named builtins must be consumed by an accepted idiom",
            "Decides at every one of the io::Result-producing sites reachable from the 11 named builtins that the error "
            "becomes an error object (not expect/unwrap, not dropped, not a runtime error string), that pcap.rs propagates "
            "with `?`, that error objects pass through builtin-to-builtin calls, that none of them prints with "
            "panicking macros, that only reading the next record may end quietly at the end of the input, and (panic-site "
            "audit over the named builtins, RefCell live ranges included) that no failure path aborts.",
            "The accepted idioms are a frozen list confirmed by reading; " + TRUST,
            "DESIGN.md §3 C22"),
    "C23": ("value-provenance analysis of the REPL loop over its MIR: per state slot (a local or a field of a state struct), what it holds at the back edge of every rejected and every accepted path",
            "Decides the 'rejected lines have no effect' clause: at the back edge of every path through a parse or compile "
            "rejection each state slot holds the value it had when the iteration began (or a copy of it); after an accepted "
            "line (also one ending in a runtime error) the slots hold the tables of that line's compiler and the store of "
            "that line's VM, each built from this session's state; the constructor that continues a session stores its "
            "arguments unchanged. History equivalence with a script is not decided.",
            "Both the save-and-restore and the hand-out-copies design are accepted; " + TRUST,
            "DESIGN.md §3 C23"),
    "C24": ("provenance and dominating-condition rules on the MIR of main (command-line accessors read in place, stated over the fields of the parsed command line) + non-interference of the mode flag + argv provenance",
            "Decides that script and command mode share one run path, that the mode flag influences only the guarded "
            "print of the last value (itself only after a successful run and outside filter mode), that argv is [script] ++ args in order through to the Argv variable, and that a "
            "'#' line is a comment at any position. Program outputs are not decided.",
            "clap's argument parsing is trusted; " + TRUST,
            "DESIGN.md §3 C24"),
    "C04": ("must-pass-through on the MIR of SymbolTable::resolve + pairing rules + closure-plumbing provenance",
            "Decides structural necessary conditions of name resolution and capture: the enclosing table is consulted on "
            "every path to 'undefined'; block depth and function/filter scopes are bracketed unconditionally; free symbols "
            "are captured before the scope is left, loaded in order and counted into the Closure operand; the VM copies "
            "exactly that many slots and GetFree/SetFree index them. Captured values, visibility across sibling blocks and "
            "the depth passed to the outer table are not decided.",
            "The lookup parameters (newest-first, depth <= current) are reported, not armed; " + TRUST,
            "DESIGN.md §3 C04"),
    "C11": ("partial evaluation of each builtin under every arity and argument-kind vector, compared both ways with the "
            "documented acceptance table; registry agreement; arity-guard dominance (E1)",
            "Decides, for the 23 named builtins x arities 0..4 x 23 kinds per position (805 cells), which calls can succeed "
            "and which can only fail, against docs/language/builtins.md; that every args[k] is behind an arity test; that "
            "errors are prefixed with the builtin's name; that the registry binds each name to its own function. The "
            "round-trip and sortedness laws are value-level and not decided.",
            "tables/doc_kinds.json is a transcription of the documentation (each row quotes its sentence); " + TRUST,
            "DESIGN.md §3 C11"),
}

CLAIMED.update({
    "C07": ("abstract interpretation of the compiler's emitting functions over typed HIR (height / last-instruction / "
            "pending-jump state, induction over the AST) against per-opcode stack effects computed from VM::run",
            "Decides, for every program shape, the stack bookkeeping of the emitted code: each statement arm ends at the "
            "height it began with, each expression arm adds exactly its class effect and never reaches below the operands "
            "it is given, every jump lands at an equal height, peephole removals act on the block's own trailing Pop, "
            "filter and function scopes end as the VM expects; and reports at which operand depth a break/continue jump "
            "can be emitted. It does not execute programs: no iteration count is involved.",
            "Relies on the parser contract about assignment targets and properties where the compiler does not test it "
            "itself (stated as A-access, partly checked); the VM effect table assumes builtin indices issued by the "
            "compiler; run-time failures inside builtins are out of scope; " + TRUST,
            "DESIGN.md §3 C07"),
    "C05": ("emission verifier paths (jump pairing, landing heights, loop positions) + table rules over the match-pattern "
            "code, matches_type (partial evaluation over all kind pairs), parser default arm, VM jump arms",
            "Decides the structure of the emitted control flow for if/else, match and loops on every program shape, and "
            "the pattern-kind → comparison table including the `..`/`..=` bound tests; the type test over all pattern "
            "pairs. Which branch a concrete value selects (truthiness, comparison results) is left to C06/C09; program "
            "outputs are not decided.",
            "Reference tables for pattern code are transcribed from the property statement; " + TRUST,
            "DESIGN.md §3 C05"),
    "C02": ("emission verifier paths (operand order, class effects) + table agreement (operator→opcode, opcode→closure, "
            "literal→constant, VM operand order) + rejection paths + classification of all CompileError sites",
            "Decides the structural half of compile/evaluate agreement for every program shape: evaluation order of "
            "operands, arguments and elements; the operator tables on both sides; slot provenance of Define/Get/Set "
            "operands; stack bookkeeping; that the named faults are rejected before anything is emitted and that no "
            "unclassified rejection exists. Equality of observed values with a reference evaluator is not decided.",
            "No reference interpreter is involved; values are the business of C09/C10/C11; " + TRUST,
            "DESIGN.md §3 C02"),
})

CLAIMED["C18"] = (
    "table agreement between Display::fmt (decoded format_args! template) and from_str (split separator, per-group parse "
    "primitive, group-count test, construction order) of the three address types and with the reference forms + error "
    "discipline of the six address setters",
    "PARTIAL — decides the structural necessary conditions of C18 only: for MacAddress / Ipv4Address / Ipv6Address the "
    "separator, radix, number of groups, group width and group order of what a property read displays and of what an "
    "assignment parses are the same and equal the standard forms (6x8-bit hex ':', 4x8-bit decimal '.', 8x16-bit hex ':'), "
    "and a text from_str rejects is an Err before anything is stored. It does NOT decide which IPv6 texts are accepted "
    "(leading / trailing / repeated '::', empty text): that is a value-level fact about the compression loop — the pinned "
    "tree is known to reject '::1' and '1::' and this check does not report it (DESIGN.md §4).",
    "u8/u16::from_str_radix and str::parse::<u8> accept exactly the numerals of their radix that fit (std); acceptance of "
    "zero-compression forms is outside what is decided; " + TRUST,
    "DESIGN.md §3 C18")

CLAIMED["C12"] = (
    "table agreement on the renderer's finite tables (specifier letter → number format → formatting trait, escapes, "
    "argument-selection arithmetic and bounds tests) + sibling agreement of the four printing builtins by path "
    "enumeration over typed HIR with helpers inlined and format_args! templates decoded",
    "PARTIAL — decides necessary conditions of C12 only: b/o/x/X select Binary/Octal/LowerHex/UpperHex and no letter "
    "selects Display; '{{' and '}}' write one brace; an unindexed specifier takes args[cursor] (cursor starts behind "
    "the format string, +1 per use), an indexed one args[n+1], both behind a bounds test whose failure is an Err; "
    "print/println write to stdout, eprint/eprintln to stderr, the ln variants add exactly one counted newline, all "
    "return a byte count. It does NOT decide what the character state machine of format_buf produces for a given "
    "format string (fill / width / alignment interplay): that is the behaviour of a loop over runtime characters.",
    "core::fmt renders as documented; the state machine's output is not decided; " + TRUST,
    "DESIGN.md §3 C12")

NOT_APPLICABLE = {
}

PENDING_REASON = "check not built yet in this round (see DESIGN.md §8 build order); not claimed until it exists"


def main():
    props = [json.loads(l)["id"] for l in open(os.path.join(HERE, "properties.jsonl"))]
    checks = []
    for pid in props:
        if pid not in CLAIMED:
            continue
        tech, text, note, ref = CLAIMED[pid]
        checks.append({
            "property_id": pid,
            "quick_cmd": "./check %s --tier quick" % pid,
            "thorough_cmd": "./check %s --tier thorough" % pid,
            "evidence_file": "/verif/evidence/%s.json" % pid,
            "replay_cmd_template": "./check %s --replay {path}" % pid,
            "engine": "p2facts+rules",
            "level_claimed": {"category": "other", "text": text, "design_ref": ref},
            "level_note": note,
            "technique": "static analysis: " + tech,
        })
    na = []
    for pid in props:
        if pid in CLAIMED:
            continue
        na.append({"property_id": pid, "reason": NOT_APPLICABLE.get(pid, PENDING_REASON)})
    m = {
        "version": 1,
        "setup_cmd": "./setup.sh",
        "hooks": {
            "guard": "p2sh_verif",
            "enable": "none needed: the checks read the type-checked program through a rustc wrapper; no hook code exists in /repo",
            "baseline_off_cmd": "cd /repo && cargo test --workspace --no-fail-fast --offline",
            "source_commits": [],
            "add_only": True,
        },
        "engines": [
            {"name": "p2facts", "path": "driver/", "serves_properties": sorted(CLAIMED),
             "kind_free_text": "rustc_private driver (RUSTC_WORKSPACE_WRAPPER) dumping typed HIR, MIR with resolved "
                               "callees, ADT layouts and constants of /repo's working tree as JSON facts"},
            {"name": "rules", "path": "rules/", "serves_properties": sorted(CLAIMED),
             "kind_free_text": "Python rule engines over the facts: table agreement, provenance/path rules, panic-site "
                               "audit, codec bit-provenance, emission verifier"},
        ],
        "checks": checks,
        "not_applicable": na,
        "notes": "All checks are static analyses of /repo's current working tree; nothing of p2sh is executed. "
                 "Known findings: /verif/known_findings.jsonl.",
    }
    with open(os.path.join(HERE, "MANIFEST.json"), "w") as fh:
        json.dump(m, fh, indent=1)
    print("wrote MANIFEST.json: %d checks, %d not_applicable" % (len(checks), len(na)))


if __name__ == "__main__":
    main()
