#!/usr/bin/env python3
import json, sys
a, b = json.load(open(sys.argv[1])), json.load(open(sys.argv[2]))
for p in sorted(set(a) | set(b)):
    A = {(o[0], o[1]): o for o in a.get(p, {}).get("obls", [])}
    B = {(o[0], o[1]): o for o in b.get(p, {}).get("obls", [])}
    for k in sorted(set(A) - set(B)): print(p, "GONE ", k, A[k][2])
    for k in sorted(set(B) - set(A)): print(p, "NEW  ", k, B[k][2], B[k][3][:120])
    for k in sorted(set(A) & set(B)):
        if A[k][2] != B[k][2]: print(p, "FLIP ", k, A[k][2], "->", B[k][2], B[k][3][:160])
        elif "-d" in sys.argv and A[k][3] != B[k][3]: print(p, "DETAIL", k, "\n    ", A[k][3][:200], "\n    ", B[k][3][:200])
