#!/usr/bin/env python3
"""tools/import_seed.py <dir under /tmp/seedout> [name]

Confirms a sub-agent's change independently and files it under /verif/seeded/<name>/:
 - the patch applies to a scratch copy of /repo's HEAD, the copy builds and its full test suite passes;
 - the demonstration is run with the changed and with the unchanged binary and the outputs differ;
then copies patch.diff, demo/ and meta.json (with the confirmation results added).  Nothing is written to /repo."""
import json, os, re, shutil, subprocess, sys, tempfile

def sh(cmd, cwd=None, env=None, timeout=600):
    p = subprocess.run(cmd, cwd=cwd, env=env, shell=isinstance(cmd, str), stdout=subprocess.PIPE, stderr=subprocess.STDOUT, text=True, timeout=timeout)
    return p.returncode, p.stdout

def main():
    src = sys.argv[1].rstrip("/")
    name = sys.argv[2] if len(sys.argv) > 2 else os.path.basename(src)
    meta = json.load(open(os.path.join(src, "meta.json")))
    pid = meta["property"]
    work = tempfile.mkdtemp(prefix="p2seed-")
    env = dict(os.environ, CARGO_NET_OFFLINE="true", CARGO_TARGET_DIR=os.environ.get("SEED_TARGET", "/tmp/p2seed-target"))
    res = {"applies": False, "builds": False, "tests_pass": False, "demo_differs": None}
    try:
        tree = os.path.join(work, "t")
        sh(["git", "-C", "/repo", "worktree", "add", "-q", "--detach", tree, "HEAD"])
        try:
            rc, out = sh(["git", "-C", tree, "apply", "--check", os.path.join(src, "patch.diff")])
            res["applies"] = rc == 0
            if rc != 0:
                print("patch does not apply:", out[-300:])
            else:
                # unchanged binary first, then the patch (no `git stash`: the stash is shared by all worktrees)
                rc, out = sh("cargo build --offline 2>&1 | tail -2", cwd=tree, env=env)
                orig_bin = os.path.join(work, "p2sh-orig")
                shutil.copy2(os.path.join(env["CARGO_TARGET_DIR"], "debug", "p2sh"), orig_bin)
                rc, out = sh(["git", "-C", tree, "apply", os.path.join(src, "patch.diff")])
                rc, out = sh("timeout -k 5 300 cargo test --offline 2>&1 | tail -5", cwd=tree, env=env)
                res["builds"] = "could not compile" not in out
                m = re.search(r"test result: (\w+)\. (\d+) passed; (\d+) failed", out)
                res["tests_pass"] = bool(m and m.group(1) == "ok" and int(m.group(3)) == 0)
                res["tests"] = m.group(0) if m else out[-200:]
                rc, out = sh("cargo build --offline 2>&1 | tail -2", cwd=tree, env=env)
                new_bin = os.path.join(work, "p2sh-new")
                shutil.copy2(os.path.join(env["CARGO_TARGET_DIR"], "debug", "p2sh"), new_bin)
                demo = os.path.join(src, "demo")
                if os.path.isdir(demo):
                    outs = {}
                    for tag, binp in (("original", orig_bin), ("changed", new_bin)):
                        d2 = os.path.join(work, "demo-" + tag)
                        shutil.copytree(demo, d2)
                        bd = os.path.join(work, "bin-" + tag)
                        os.makedirs(bd)
                        shutil.copy2(binp, os.path.join(bd, "p2sh"))
                        for root, _, fs in os.walk(d2):
                            for f in fs:
                                fp = os.path.join(root, f)
                                try:
                                    t = open(fp, encoding="utf-8").read()
                                except (UnicodeDecodeError, OSError):
                                    continue
                                t2 = re.sub(r"/tmp/seed[2345]?-C\d\d(-\d+)?/target/debug/p2sh", os.path.join(bd, "p2sh"), t)
                                t2 = re.sub(r"/tmp/seedout[23]?/%s/demo" % re.escape(os.path.basename(src)), d2, t2)
                                t2 = re.sub(r"/tmp/seed[2345]?-C\d\d(-\d+)?", tree, t2)
                                if t2 != t:
                                    open(fp, "w", encoding="utf-8").write(t2)
                        run = os.path.join(d2, "run.sh")
                        if os.path.exists(run):
                            e2 = dict(env, P2SH=os.path.join(bd, "p2sh"), PATH=bd + ":" + env.get("PATH", ""))
                            try:
                                rc, o = sh(["timeout", "-k", "5", "120", "bash", run], cwd=d2, env=e2, timeout=200)
                            except subprocess.TimeoutExpired:
                                rc, o = 124, "<timeout>"
                            outs[tag] = "exit=%s\n%s" % (rc, o[-1500:])
                    res["demo_original"] = outs.get("original")
                    res["demo_changed"] = outs.get("changed")
                    norm = lambda s: re.sub(r"/tmp/p2seed-[^/ ]+/(demo|bin)-(original|changed)", "<dir>", s or "")
                    res["demo_differs"] = norm(outs.get("original")) != norm(outs.get("changed")) if outs else None
        finally:
            sh(["git", "-C", "/repo", "worktree", "remove", "--force", tree])
        print(json.dumps({k: v for k, v in res.items() if not k.startswith("demo_") or k == "demo_differs"}, indent=1))
        if res.get("demo_differs") is not None:
            print("--- original:\n%s\n--- changed:\n%s" % ((res.get("demo_original") or "")[-600:], (res.get("demo_changed") or "")[-600:]))
        ok = res["applies"] and res["builds"] and res["tests_pass"]
        if ok and "--dry" not in sys.argv:
            dst = os.path.join("/verif/seeded", name)
            if os.path.exists(dst):
                shutil.rmtree(dst)
            os.makedirs(dst)
            shutil.copy2(os.path.join(src, "patch.diff"), dst)
            if os.path.isdir(os.path.join(src, "demo")):
                shutil.copytree(os.path.join(src, "demo"), os.path.join(dst, "demo"))
            meta.update({"origin": "sub-agent given only the property text", "confirmed": res, "checks": [pid], "expect": "caught"})
            json.dump(meta, open(os.path.join(dst, "meta.json"), "w"), indent=1)
            print("filed as", dst)
        elif not ok:
            print("NOT filed: conditions not met")
    finally:
        shutil.rmtree(work, ignore_errors=True)

main()
