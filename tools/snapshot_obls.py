#!/usr/bin/env python3
"""tools/snapshot_obls.py <out.json> [Cxx ...]: run the checks (quick rules, current /repo) and dump every rule instance
(rule, key, verdict) — used to compare the machinery before/after a change of the rule engines."""
import importlib, json, os, sys
HERE = os.path.dirname(os.path.dirname(os.path.abspath(__file__)))
sys.path.insert(0, HERE)
sys.setrecursionlimit(10000)
from rules.lib import core, facts
ALL = [f[:-3].upper() for f in sorted(os.listdir(os.path.join(HERE, "rules"))) if f.startswith("c") and f.endswith(".py")]
out = {}
F = facts.load("default")
for pid in (sys.argv[2:] or ALL):
    R = core.Report(pid)
    try:
        importlib.import_module("rules.%s" % pid.lower()).run(F, R, "quick")
    except Exception as e:
        out[pid] = {"error": repr(e)}
        continue
    out[pid] = {"obls": sorted([o.rule, o.key, o.ok, o.detail] for o in R.obls), "analysed": R.analysed}
json.dump(out, open(sys.argv[1], "w"), indent=0)
print({p: (len(v.get("obls", [])), sum(1 for o in v.get("obls", []) if not o[2])) if "obls" in v else v for p, v in out.items()})
