#!/usr/bin/env python3
"""tools/import_benign.py <dir with patch.diff + meta.json> [name]
Confirms a behaviour-preserving refactoring (applies to /repo's HEAD, builds, full test suite passes) and files it under
/verif/benign/<name>/ with "expect": "silent".  Nothing is written to /repo."""
import json, os, re, shutil, subprocess, sys, tempfile

def sh(cmd, cwd=None, env=None, timeout=900):
    p = subprocess.run(cmd, cwd=cwd, env=env, shell=isinstance(cmd, str), stdout=subprocess.PIPE, stderr=subprocess.STDOUT, text=True, timeout=timeout)
    return p.returncode, p.stdout

def main():
    src = sys.argv[1].rstrip("/")
    name = sys.argv[2] if len(sys.argv) > 2 else os.path.basename(src)
    meta = json.load(open(os.path.join(src, "meta.json")))
    work = tempfile.mkdtemp(prefix="p2ben-")
    env = dict(os.environ, CARGO_NET_OFFLINE="true", CARGO_TARGET_DIR=os.environ.get("SEED_TARGET", "/tmp/p2seed-target"))
    res = {"applies": False, "builds": False, "tests_pass": False}
    try:
        tree = os.path.join(work, "t")
        sh(["git", "-C", "/repo", "worktree", "add", "-q", "--detach", tree, "HEAD"])
        try:
            rc, out = sh(["git", "-C", tree, "apply", os.path.join(src, "patch.diff")])
            res["applies"] = rc == 0
            if rc == 0:
                rc, out = sh("timeout -k 5 600 cargo test --offline 2>&1 | tail -5", cwd=tree, env=env)
                res["builds"] = "could not compile" not in out
                m = re.search(r"test result: (\w+)\. (\d+) passed; (\d+) failed", out)
                res["tests_pass"] = bool(m and m.group(1) == "ok" and int(m.group(3)) == 0)
                res["tests"] = m.group(0) if m else out[-200:]
        finally:
            sh(["git", "-C", "/repo", "worktree", "remove", "--force", tree])
        print(json.dumps(res))
        if res["applies"] and res["builds"] and res["tests_pass"]:
            dst = os.path.join("/verif/benign", name)
            shutil.rmtree(dst, ignore_errors=True)
            os.makedirs(dst)
            shutil.copy2(os.path.join(src, "patch.diff"), dst)
            meta.update({"origin": "sub-agent asked for a behaviour-preserving refactoring of the property's anchored code", "confirmed": res, "expect": "silent"})
            json.dump(meta, open(os.path.join(dst, "meta.json"), "w"), indent=1)
            print("filed as", dst)
        else:
            print("NOT filed")
    finally:
        shutil.rmtree(work, ignore_errors=True)
main()
