"""quick operator-mutation sweep: python3 /tmp/mut_sweep.py <file rel> <lo> <hi>  → prints survivors of all 24 checks"""
import importlib, os, re, shutil, sys, json
from concurrent.futures import ProcessPoolExecutor
sys.path.insert(0, '/verif'); sys.setrecursionlimit(10000)
from rules.lib import mutants, facts as FM, core

SWAPS = [(" <= ", " < "), (" < ", " <= "), (" >= ", " > "), (" > ", " >= "), (" == ", " != "), (" != ", " == "), (" && ", " || "), (" || ", " && "),
         (" + 1", " + 2"), (" - 1", " - 0"), ("true", "false"), ("false", "true"), (".rev()", ""), ("!self.", "self."), ("!", "")]

def gen(rel, lo, hi):
    lines = open(os.path.join(FM.repo_root(), rel)).read().split("\n")
    out = []
    for i in range(lo - 1, min(hi, len(lines))):
        ln = lines[i]
        if ln.strip().startswith("//"):
            continue
        for a, b in SWAPS:
            for m in re.finditer(re.escape(a), ln):
                new = ln[:m.start()] + b + ln[m.end():]
                if new != ln:
                    out.append((i + 1, a.strip(), b.strip(), new))
    return out

def run_one(args):
    rel, lineno, a, b, new = args
    lines = open(os.path.join(FM.repo_root(), rel)).read().split("\n")
    lines[lineno - 1] = new
    tree = mutants.scratch_copy(FM.repo_root())
    hits = []
    try:
        open(os.path.join(tree, rel), "w").write("\n".join(lines))
        try:
            FM.load("default", repo=tree)
        except Exception as e:
            return (lineno, a, b, "nobuild", "")
        for c in ["C%02d" % k for k in range(1, 25)]:
            try:
                if mutants.run_on(c, tree):
                    hits.append(c)
            except Exception as e:
                hits.append(c + "!")
    finally:
        shutil.rmtree(tree, ignore_errors=True)
    return (lineno, a, b, "caught" if hits else "SURVIVED", ",".join(hits))

if __name__ == "__main__":
    rel, lo, hi = sys.argv[1], int(sys.argv[2]), int(sys.argv[3])
    ms = gen(rel, lo, hi)
    print(len(ms), "mutants")
    with ProcessPoolExecutor(max_workers=int(os.environ.get("JOBS", "6"))) as ex:
        for r in ex.map(run_one, [(rel,) + m for m in ms]):
            print(r, flush=True)
