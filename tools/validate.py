#!/opt/veriftools/pyvenv/bin/python
import json,jsonschema,glob,sys
m=json.load(open('/verif/MANIFEST.json'));s=json.load(open('/root/.vp/MANIFEST.schema.json'))
jsonschema.validate(m,s);print('manifest ok', len(m['checks']))
s=json.load(open('/root/.vp/EVIDENCE.schema.json'))
for f in sorted(glob.glob('/verif/evidence/*.json')):
    e=json.load(open(f)); jsonschema.validate(e,s)
print('evidence ok')
