#!/usr/bin/env python3
"""tools/try_change.py <seeded/NAME | mutants/NAME | path/to/patch.diff> [Cxx ...]
Applies the change to a scratch copy of /repo's working tree, re-extracts the facts and runs the named checks
(default: the change's own property; ALL = every check).  Prints which rule instances report it."""
import json, os, sys, tempfile, shutil, subprocess
HERE = os.path.dirname(os.path.dirname(os.path.abspath(__file__)))
sys.path.insert(0, HERE)
sys.setrecursionlimit(10000)
from rules.lib import mutants, facts as factsmod

ALL = ["C01","C02","C03","C04","C05","C06","C07","C08","C09","C10","C11","C12","C13","C14","C15","C16","C17","C18","C19","C20","C21","C22","C23","C24"]

def main():
    arg = sys.argv[1]
    if os.path.isdir(os.path.join(HERE, arg)) and os.path.exists(os.path.join(HERE, arg, "meta.json")):
        patch = os.path.join(HERE, arg, "patch.diff")
        meta = json.load(open(os.path.join(HERE, arg, "meta.json")))
        pids = meta.get("checks") or [meta["property"]]
        if meta.get("expect") == "silent":
            pids = ALL
    else:
        patch, pids = arg, []
    if len(sys.argv) > 2:
        pids = ALL if sys.argv[2] == "ALL" else sys.argv[2:]
    pids = [p for p in pids if os.path.exists(os.path.join(HERE, "rules", p.lower() + ".py"))]
    tree = mutants.scratch_copy(factsmod.repo_root())
    try:
        p = subprocess.run(["git", "apply", "--unsafe-paths", "--directory=" + tree, patch], cwd="/", stdout=subprocess.PIPE, stderr=subprocess.STDOUT, text=True)
        if p.returncode != 0:
            p = subprocess.run(["patch", "-p1", "-s", "-f", "-i", patch], cwd=tree, stdout=subprocess.PIPE, stderr=subprocess.STDOUT, text=True)
        if p.returncode != 0:
            print("patch does not apply:", p.stdout[-400:]); return 2
        anyc = False
        for pid in pids:
            try:
                fails = mutants.run_on(pid, tree)
            except Exception as e:
                print("%s: ERROR %s" % (pid, str(e)[:300])); continue
            if fails: anyc = True
            print("%s: %s" % (pid, "CAUGHT (%d)" % len(fails) if fails else "silent"))
            for r, k, d in fails[:5]:
                print("     %s | %s | %s" % (r, k, d[:200]))
        return 0 if anyc else 1
    finally:
        shutil.rmtree(tree, ignore_errors=True)
sys.exit(main())
