#!/usr/bin/env python3
"""tools/benign_report.py [name-substring]: run every check on every behaviour-preserving refactoring under /verif/benign
(scratch copies; facts re-extracted) and list the false alarms: change, check, rule, instance."""
import json, os, sys, subprocess, shutil
from concurrent.futures import ProcessPoolExecutor
HERE = os.path.dirname(os.path.dirname(os.path.abspath(__file__)))
sys.path.insert(0, HERE)
sys.setrecursionlimit(10000)
ALL = [f[:-3].upper() for f in sorted(os.listdir(os.path.join(HERE, "rules"))) if f.startswith("c") and f.endswith(".py")]

def one(name):
    from rules.lib import mutants, facts as factsmod
    patch = os.path.join(HERE, "benign", name, "patch.diff")
    tree = mutants.scratch_copy(factsmod.repo_root())
    out = []
    try:
        p = subprocess.run(["git", "apply", "--unsafe-paths", "--directory=" + tree, patch], cwd="/", stdout=subprocess.PIPE, stderr=subprocess.STDOUT, text=True)
        if p.returncode != 0:
            return name, [("-", "patch", "does not apply", "")]
        for pid in ALL:
            try:
                fails = mutants.run_on(pid, tree)
            except Exception as e:
                out.append((pid, "ERROR", str(e)[:200], ""))
                continue
            for r, k, d in fails:
                out.append((pid, r, k, d))
    finally:
        shutil.rmtree(tree, ignore_errors=True)
    return name, out

def main():
    sub = sys.argv[1] if len(sys.argv) > 1 else ""
    names = sorted(n for n in os.listdir(os.path.join(HERE, "benign")) if sub in n and os.path.exists(os.path.join(HERE, "benign", n, "patch.diff")))
    res = {}
    with ProcessPoolExecutor(max_workers=int(os.environ.get("JOBS", "8"))) as ex:
        for name, out in ex.map(one, names):
            res[name] = out
    tot = 0
    byrule = {}
    for name in names:
        out = res[name]
        print("== benign/%s: %s" % (name, "silent" if not out else "%d alarms" % len(out)))
        seen = set()
        for pid, r, k, d in out:
            byrule[(pid, r)] = byrule.get((pid, r), 0) + 1
            if (pid, r) in seen:
                continue
            seen.add((pid, r))
            print("     %s %s | %s | %s" % (pid, r, k[:110], d[:140]))
        tot += bool(out)
    print("\n%d of %d refactorings raise at least one alarm" % (tot, len(names)))
    for (pid, r), n in sorted(byrule.items(), key=lambda x: -x[1]):
        print("   %4d  %s %s" % (n, pid, r))
    json.dump(res, open("/tmp/benign_report.json", "w"), indent=0)
main()
