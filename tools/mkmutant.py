#!/usr/bin/env python3
"""tools/mkmutant.py <name> <property[,property]> <repo-relative file> <old> <new> [--what text]

Creates /verif/mutants/<name>/{patch.diff,meta.json}: applies the textual replacement (exactly one occurrence) to a scratch
copy of /repo, builds it and runs the repository's test suite there, records whether the tests still pass."""
import json, os, shutil, subprocess, sys, tempfile

def main():
    a = sys.argv[1:]
    what = ""
    if "--what" in a:
        i = a.index("--what"); what = a[i + 1]; del a[i:i + 2]
    name, props, rel = a[:3]
    pairs = a[3:]
    if len(pairs) % 2 or not pairs:
        sys.exit("need old/new pairs")
    src = open(os.path.join("/repo", rel), encoding="utf-8").read()
    newsrc = src
    for i in range(0, len(pairs), 2):
        old, new = pairs[i], pairs[i + 1]
        if newsrc.count(old) != 1:
            sys.exit("old text #%d occurs %d times in %s" % (i // 2, newsrc.count(old), rel))
        newsrc = newsrc.replace(old, new)
    d = tempfile.mkdtemp(prefix="p2mk-")
    try:
        for item in ("src", "docs", "Cargo.toml", "Cargo.lock", "examples"):
            s = os.path.join("/repo", item)
            if os.path.isdir(s): shutil.copytree(s, os.path.join(d, "a", item))
            elif os.path.exists(s):
                os.makedirs(os.path.join(d, "a"), exist_ok=True); shutil.copy2(s, os.path.join(d, "a", item))
        shutil.copytree(os.path.join(d, "a"), os.path.join(d, "b"))
        open(os.path.join(d, "b", rel), "w", encoding="utf-8").write(newsrc)
        p = subprocess.run(["diff", "-u", os.path.join("a", rel), os.path.join("b", rel)], cwd=d, stdout=subprocess.PIPE, text=True)
        env = dict(os.environ, CARGO_NET_OFFLINE="true", CARGO_TARGET_DIR=os.environ.get("MK_TARGET", "/tmp/p2mk-target"))
        t = subprocess.run(["timeout", "-k", "5", "240", "cargo", "test", "--offline"], cwd=os.path.join(d, "b"), env=env, stdout=subprocess.PIPE, stderr=subprocess.STDOUT, text=True)
        out_txt = t.stdout
        subprocess.run("for p in $(pgrep -f %s/debug/deps/p2sh-); do kill -9 $p; done" % os.environ.get("MK_TARGET", "/tmp/p2mk-target"), shell=True)
        builds = "error: could not compile" not in out_txt
        passed = "test result: ok" in out_txt and "FAILED" not in out_txt and t.returncode == 0
        out = os.path.join("/verif/mutants", name)
        os.makedirs(out, exist_ok=True)
        open(os.path.join(out, "patch.diff"), "w").write(p.stdout)
        plist = props.split(",")
        json.dump({"property": plist[0], "checks": plist, "origin": os.environ.get("MK_ORIGIN", "hand-written"), "what": what, "builds": builds, "tests_pass": passed, "expect": "caught"},
                  open(os.path.join(out, "meta.json"), "w"), indent=1)
        print(name, "builds" if builds else "DOES NOT BUILD", "tests pass" if passed else "tests FAIL")
    finally:
        shutil.rmtree(d, ignore_errors=True)

main()
