"""C09 — operators implement a consistent numeric and typing model.

Decided at the level of operand kinds and primitive operations (numeric
results then follow from Rust's semantics of the primitive)."""
import re

from .lib import hir as H
from .lib import objtables as T
from .lib.vmarms import vm_arms, operator_dispatchers

OPTYPE = "optype"     # name of binary_op's operator-class parameter (found by role at run time)
_F = None

EXPL = ("Table agreement (E2) over match arms, exhaustive over operator classes × variant pairs: (a) the dispatch table "
        "of VM::binary_op / bitwise_op — which (left kind, right kind, operator class) reach a result and which a "
        "runtime error — by partial evaluation of each arm under each operator class; (b) result kind and primitive of "
        "every arm of the ops::* impls and Neg (wrapping_* for i64/u8, plain IEEE ops for f64, mixes widened with "
        "`as i64`/`as f64`); (c) zero-divisor guard on Div and Mod; (d) PartialOrd has an arm for every numeric pair "
        "PartialEq has, and Equal/NotEqual compare through the same function; (e) string repetition rejects n < 0. "
        "IEEE behaviour of f64 and String ordering are Rust's (trusted).")

OPTYPES = ["Add", "Sub", "Mul", "Div", "Mod", "Relational"]
NUM = ["Integer", "Float", "Byte"]

# (trait fn, rust operator, wrapping primitive)
OPS = [("Add>::add", "+", "wrapping_add"), ("Sub>::sub", "-", "wrapping_sub"), ("Mul>::mul", "*", "wrapping_mul"),
       ("Div>::div", "/", "wrapping_div"), ("Rem>::rem", "%", "wrapping_rem")]
SHIFTS = [("Shl<&object::Object>>::shl", "<<", "wrapping_shl"), ("Shr<&object::Object>>::shr", ">>", "wrapping_shr")]
BITS = [("BitAnd>::bitand", "&"), ("BitOr>::bitor", "|"), ("BitXor>::bitxor", "^")]


def peval(n, optype, out, pair=None):
    """Partial evaluation of (an arm of, or the whole body of) binary_op / bitwise_op under optype == `optype` and, with `pair`,
    under (left kind, right kind) == pair: a `match (left, right)` / `if let (..) = (left, right)` takes the arm of that pair.
    Collects outcomes into out: ('ok', [guards]) | ('err', [guards]).  A result is produced by `self.push(..)`, by a
    `return` of something that is not an Err, or — when the dispatch yields the result object first and pushes it once
    afterwards — by a value of the `let` whose local is handed to `self.push`."""
    lets = {}
    pushed_locals = set()
    for x_ in H.walk(n):
        if x_.get("k") == "mcall" and x_["m"] == "push" and H.render(x_["recv"]) == "self":
            for y_ in H.walk(x_.get("args", [])):
                if isinstance(y_, dict) and H.local_id(y_) is not None:
                    pushed_locals.add(H.local_id(y_))
    for x_ in H.walk(n):
        if x_.get("k") == "let" and x_.get("pat", {}).get("k") == "bind" and x_.get("init") is not None:
            lets[x_["pat"]["id"]] = x_["init"]

    def unlet(c, d=0):
        """a local bound by `let x = <expr>` in this arm stands for its initialiser (named temporaries)"""
        c = H.strip(c)
        while H.is_local(c) and H.local_id(c) in lets and d < 6:
            c = H.strip(lets[H.local_id(c)])
            d += 1
        return c

    def cond_value(c):
        c = unlet(c)
        if c.get("k") == "match" and not H.is_try(c) and H.render(c["scrut"]) == OPTYPE:
            for a in c["arms"]:
                vs = {H.last(v) for v in H.pat_variants(a["pat"])}
                if optype in vs or "*" in vs:
                    b = H.strip(a["body"])
                    return b["v"] if b.get("k") == "lit" else None
            return None
        if c.get("k") == "un" and c.get("op") == "!":
            v = cond_value(c["e"])
            return None if v is None else (not v)
        if c.get("k") == "bin" and c["op"] == "&&":
            l, r = cond_value(c["l"]), cond_value(c["r"])
            if l is False or r is False:
                return False
            if l is True and r is True:
                return True
            return None
        if c.get("k") == "bin" and c["op"] == "||":
            l, r = cond_value(c["l"]), cond_value(c["r"])
            if l is True or r is True:
                return True
            if l is False and r is False:
                return False
            return None
        return None

    def kind_guard(c, binds):
        """truth of a guard that asks kind predicates (`x.is_arithmetic()`) of operands whose kinds are known, else None"""
        c = H.strip(c)
        if c.get("k") == "un" and c.get("op") == "!":
            v = kind_guard(c["e"], binds)
            return None if v is None else (not v)
        if c.get("k") == "bin" and c["op"] in ("&&", "||"):
            l, r = kind_guard(c["l"], binds), kind_guard(c["r"], binds)
            if c["op"] == "&&":
                return False if (l is False or r is False) else (True if (l is True and r is True) else None)
            return True if (l is True or r is True) else (False if (l is False and r is False) else None)
        if c.get("k") == "mcall" and not c.get("args") and H.local_id(H.strip(c["recv"])) in binds and _F is not None and (c.get("callee") or "") in _F.fns:
            from .c06 import predicate_table
            tab = predicate_table(_F, c["callee"]) or {}
            d = tab.get(binds[H.local_id(H.strip(c["recv"]))])
            return True if d == "always" else (False if d == "never" else None)
        return None

    def residual(c):
        """the non-optype part of a condition, as text"""
        c = unlet(c)
        if c.get("k") == "bin" and c["op"] in ("&&", "||"):
            parts = [residual(x) for x in (c["l"], c["r"]) if cond_value(x) is None]
            return " && ".join(p for p in parts if p)
        return H.render(c) if cond_value(c) is None else ""

    def go(n, guards, val=False):
        """returns True if control may continue past n; val: n's value is the result object (a value leaf is an `ok`)"""
        n0 = n
        if n is None:
            return True
        k = n.get("k")
        if k == "block":
            for s in n.get("stmts", []):
                e = s.get("init") if s["k"] == "let" else s.get("e")
                e1 = H.strip(e) if e is not None else None
                if s["k"] == "let" and s.get("pat", {}).get("k") == "bind" and s["pat"]["id"] in pushed_locals and e is not None and \
                        H.strip(e).get("k") in ("match", "if", "block") and not H.is_try(H.strip(e)):
                    # `let result = match .. { .. => value, .. => return Err(..) }; self.push(Rc::new(result), line)`
                    if not go(H.strip(e), guards, True):
                        return False
                    value_locals.add(s["pat"]["id"])
                    continue
                is_pair_test = e1 is not None and e1.get("k") == "if" and pair is not None and H.strip(e1["c"]).get("k") == "let" and \
                    H.strip(H.strip(e1["c"])["init"]).get("k") == "tup"
                if e1 is not None and e1.get("k") == "if" and "e" not in e1 and cond_value(e1["c"]) is None and not is_pair_test:
                    # `if g { return .. }` — what follows runs under !g
                    g = residual(e1["c"])
                    if not go(e1["t"], guards + [g]):
                        guards = guards + ["!(" + g + ")"]
                    continue
                if e is not None and not go(e, guards):
                    return False
            if n.get("expr") is not None:
                return go(n["expr"], guards, val)
            return True
        if k == "if" and pair is not None and H.strip(n["c"]).get("k") == "let" and H.strip(H.strip(n["c"])["init"]).get("k") == "tup":
            # `if let (Integer(_), Integer(_)) = (&*left, &*right) { .. }`
            c_ = H.strip(n["c"])
            hit = T.pair_lookup(T.pair_arms({"arms": [{"pat": c_["pat"], "body": n["t"]}]}), pair[0], pair[1])
            if hit is not None:
                return go(n["t"], guards, val)
            return go(n.get("e"), guards, val) if "e" in n else True
        if k == "if":
            v = cond_value(n["c"])
            if v is True:
                return go(n["t"], guards, val)
            if v is False:
                return go(n.get("e"), guards, val) if "e" in n else True
            g = residual(n["c"])
            a = go(n["t"], guards + [g], val)
            b = go(n.get("e"), guards + ["!(" + g + ")"], val) if "e" in n else True
            return a or b
        if k == "match" and not H.is_try(n):
            if pair is not None and H.strip(n["scrut"]).get("k") == "tup":
                cont = False
                for key, a in T.pair_arms(n):
                    if key == "?":
                        continue
                    if key != "*":
                        sa, sb = key
                        if not ((pair[0] in sa or "*" in sa) and (pair[1] in sb or "*" in sb)):
                            continue
                    if a.get("guard") is None:
                        return go(a["body"], guards, val) or cont
                    # a guard over the operands (`(l, r) if l.is_arithmetic() && r.is_arithmetic()`): decided for this pair
                    # when it only asks kind predicates of the bound operands
                    binds = {}
                    pt = a["pat"]
                    if pt.get("k") == "tuple" and len(pt["pats"]) == 2:
                        for i_, sp in enumerate(pt["pats"]):
                            while sp.get("k") in ("ref", "deref"):
                                sp = sp["pat"]
                            if sp.get("k") == "bind":
                                binds[sp["id"]] = pair[i_]
                    gv = kind_guard(a["guard"], binds)
                    if gv is True:
                        return go(a["body"], guards, val) or cont
                    if gv is False:
                        continue
                    g = residual(a["guard"])
                    cont = go(a["body"], guards + [g], val) or cont
                    guards = guards + ["!(" + g + ")"]
                return True
            if H.render(n["scrut"]) == OPTYPE:
                cont = False
                for a in n["arms"]:
                    vs = {H.last(v) for v in H.pat_variants(a["pat"])}
                    if optype in vs or "*" in vs or a["pat"].get("k") in ("wild", "bind"):
                        if a.get("guard") is None:
                            return go(a["body"], guards, val) or cont
                        v = cond_value(a["guard"])
                        if v is True:
                            return go(a["body"], guards, val) or cont
                        if v is False:
                            continue
                        g = residual(a["guard"])
                        cont = go(a["body"], guards + [g], val) or cont
                        guards = guards + ["!(" + g + ")"]
                return True
            cont = False
            for a in n["arms"]:
                cont = go(a["body"], guards + ["%s is %s" % (H.render(n["scrut"]), H.render_pat(a["pat"]))], val) or cont
            return cont
        if k == "ret":
            e = H.strip(n.get("e")) if n.get("e") else None
            if e is not None and H.last(H.ctor_of(e) or "") == "Err":
                out.append(("err", list(guards)))
            else:
                out.append(("ok", list(guards)))
            return False
        if H.is_try(n):
            return go(H.untry(n), guards)
        if k == "mcall" and n["m"] == "push" and H.render(n["recv"]) == "self":
            if any(isinstance(y_, dict) and H.local_id(y_) in value_locals for y_ in H.walk(n.get("args", []))):
                return True   # the result object was counted where it was produced
            out.append(("ok", list(guards)))
            return True
        if k == "call" and H.last(n.get("ctor", "")) == "Err":
            out.append(("err", list(guards)))
            return True
        if val:
            # a value leaf of the dispatch: the result object
            out.append(("ok", list(guards)))
            return True
        # other expressions: look inside for pushes (e.g. let bindings)
        for key in ("e", "recv", "args", "init", "l", "r"):
            v = n.get(key)
            if isinstance(v, dict):
                go(v, guards)
            elif isinstance(v, list):
                for x in v:
                    go(x, guards)
        return True
    value_locals = set()
    go(n, [])


def run(F, R, tier):
    R.explanation = EXPL
    R.assumptions += ["IEEE-754 behaviour of f64 operators and the ordering of String/char are Rust's",
                      "wrapping_* primitives of i64/u8 compute modulo 2^64 / 2^8 and mask shift amounts (std)"]
    vs = T.variants(F)
    if not R.anchor("enum object::Object", vs):
        return
    # ---- (a) dispatch table of binary_op ----------------------------------------
    global OPTYPE, _F
    _F = F
    disp = operator_dispatchers(F, R)
    OPTYPE = disp["optype"] or "optype"
    f = F.fn(disp["binary"]) if disp["binary"] else None
    if R.anchor("vm::interpreter::VM::binary_op", f):
        ms = H.matches_in(H.body_of(f), lambda x: H.strip(x["scrut"]).get("k") == "tup")
        if R.anchor("binary_op: match (left, right)", ms):
            arms = T.pair_arms(ms[0])

            def want(va, vb, ot):
                if va in NUM and vb in NUM:
                    return "ok+zero" if ot in ("Div", "Mod") else "ok"
                if (va, vb) in (("Str", "Str"), ("Char", "Char")):
                    return "ok" if ot in ("Add", "Relational") else "err"
                if (va, vb) in (("Str", "Integer"), ("Integer", "Str")):
                    return "ok+neg" if ot == "Mul" else "err"
                if (va, vb) == ("Arr", "Arr"):
                    return "ok" if ot == "Add" else "err"
                return "err"
            n_cells = 0
            n_err = 0
            cache = {}
            fbody = H.body_of(f)
            for va in vs:
                for vb in vs:
                    a = T.pair_lookup(arms, va, vb)
                    for ot in OPTYPES:
                        n_cells += 1
                        # the arms this pair can reach by pattern; a guard may look at the operands, so a guarded arm makes
                        # the result specific to the pair
                        cand = [x for k_, x in arms if k_ == "*" or (k_ != "?" and (va in k_[0] or "*" in k_[0]) and (vb in k_[1] or "*" in k_[1]))]
                        key = (tuple(id(x) for x in cand), ot) + ((va, vb) if any(x.get("guard") is not None for x in cand) else ())
                        if key not in cache:
                            out = []
                            peval(fbody, ot, out, (va, vb))
                            cache[key] = out
                        out = cache[key]
                        kinds = {o for o, _ in out}
                        guards = " | ".join(sorted({g for o, gs in out if o == "err" for g in gs}))
                        if kinds == {"ok"}:
                            got = "ok"
                        elif kinds == {"err"}:
                            got = "err"
                        elif kinds == {"ok", "err"}:
                            # the rejecting test must dominate every accepting path: each `ok` outcome carries the
                            # negation of a guard that leads to the error
                            errg = {gs[-1] for o, gs in out if o == "err" and gs}

                            def neg(g):
                                g = g.strip()
                                if g.startswith("!(") and g.endswith(")"):
                                    inner = g[2:-1]
                                    return {inner, "(" + inner + ")", inner[1:-1] if inner.startswith("(") and inner.endswith(")") else inner}
                                return {"!(" + g + ")", "!((" + g + "))"}
                            unguarded = [gs for o, gs in out if o == "ok" and not any(neg(g) & set(gs) for g in errg)]
                            if unguarded:
                                got = "ok+unguarded(a result is produced without passing the test %s: path %s)" % (sorted(errg), unguarded[0])
                            elif "is_zero" in guards:
                                got = "ok+zero"
                            elif "< 0" in guards or re.search(r"!\(+\*?\w+ >= 0\)+", guards):
                                got = "ok+neg"
                            else:
                                got = "ok+?(%s)" % guards
                        else:
                            got = "?"
                        w = want(va, vb, ot)
                        if got == "err" and w == "err":
                            n_err += 1
                            continue
                        R.ob("binary-dispatch", "(%s, %s) %s" % (va, vb, ot), got == w,
                             "binary_op yields %s, property requires %s%s" % (got, w, (" [guards: %s]" % guards) if guards else ""),
                             F.loc(f, a.get("line")))
            R.ob("binary-dispatch", "all other (pair, operator class) cells are runtime errors", True,
                 "%d cells yield Err on every path" % n_err, F.loc(f), nontrivial=False)
            R.count("binary_op cells (pair × operator class) evaluated", n_cells)
            R.floor("binary_op cells", n_cells, 23 * 23 * 6)
    # bitwise_op: integers only
    f = F.fn(disp["bitwise"]) if disp["bitwise"] else None
    if R.anchor("vm::interpreter::VM::bitwise_op", f):
        ms = H.matches_in(H.body_of(f), lambda x: H.strip(x["scrut"]).get("k") == "tup")
        if R.anchor("bitwise_op: match (left, right)", ms):
            arms = T.pair_arms(ms[0])
            for va in vs:
                for vb in vs:
                    a = T.pair_lookup(arms, va, vb)
                    out = []
                    peval(H.body_of(f), "Add", out, (va, vb))
                    kinds = {o for o, _ in out}
                    w = {"ok"} if (va, vb) == ("Integer", "Integer") else {"err"}
                    if kinds != {"err"} or w != {"err"}:
                        R.ob("bitwise-dispatch", "(%s, %s)" % (va, vb), kinds == w, "bitwise_op yields %s" % sorted(kinds),
                             F.loc(f, a.get("line")))
            R.count("bitwise_op pairs evaluated", len(vs) ** 2)
    # closures handed to binary_op / bitwise_op: opcode → operator
    arms = vm_arms(F, R)
    want_ops = {"Add": ("Add", "+"), "Sub": ("Sub", "-"), "Mul": ("Mul", "*"), "Div": ("Div", "/"), "Mod": ("Mod", "%"),
                "Greater": ("Relational", ">"), "GreaterEq": ("Relational", ">="),
                "And": (None, "&"), "Or": (None, "|"), "Xor": (None, "^"), "ShiftLeft": (None, "<<"), "ShiftRight": (None, ">>")}
    if arms:
        for op, (cls, sym) in want_ops.items():
            a = arms.get(op)
            if not R.anchor("VM::run arm " + op, a):
                continue
            cs = [c for c in H.walk(H.unlet(a["body"])) if c.get("k") in ("call", "mcall") and c.get("callee") in (disp["binary"], disp["bitwise"]) and c.get("callee")]
            ok = len(cs) == 1
            det = "no binary_op/bitwise_op call"
            if ok:
                c = cs[0]
                args = c["args"]
                clo = [H.strip(x) for x in args if H.strip(x).get("k") == "closure"]
                is_bin = c.get("callee") == disp["binary"]
                gotcls = H.last(H.ctor_of(H.strip(args[0])) or "") if is_bin else None
                b = H.strip(clo[0]["body"]) if clo else {}
                if b.get("k") == "call" and b.get("ctor"):
                    b = H.strip(b["args"][0])
                gotsym = b.get("op") if b.get("k") == "bin" else None
                cps = tuple(p_.get("name") for p_ in clo[0].get("params", [])) if clo else ()
                order = (H.render(b.get("l")), H.render(b.get("r"))) if b.get("k") == "bin" else None
                ok = gotcls == cls and gotsym == sym and len(cps) == 2 and order == cps and is_bin == (cls is not None)
                det = "%s(%s, |%s| %s %s %s) operand order %s" % (H.last(c.get("callee") or "?"), gotcls, ",".join(map(str, cps)), cps[0] if cps else "?", gotsym, cps[1] if len(cps) > 1 else "?", order)
            R.ob("opcode-operator", op, ok, det, "src/vm/interpreter.rs:%s" % a["line"])

    # ---- (b) primitives of the operator impls -----------------------------------------------
    def check_impl(suffix, sym, wrap, shift=False, bit=False):
        g = F.fn("<&object::Object as std::ops::" + suffix)
        if not R.anchor("ops impl " + suffix, g):
            return
        m = T.top_match(g)
        if m is None:
            # the dispatch lives in a helper the impl hands its operations to as function values: read the impl with the
            # helper inlined, the named values substituted and the function values applied
            m = T.top_match(g, body=H.beta(H.unlet(H.inline_helpers(F, H.body_of(g), max_size=600))))
        if not R.anchor("ops impl %s: a match on the operand pair" % suffix, m):
            return
        n = 0
        for key, a in T.pair_arms(m):
            if key in ("*", "?"):
                continue
            sa, sb = key
            va, vb = sorted(sa)[0], sorted(sb)[0]
            n += 1
            b = H.strip(a["body"])
            res = H.last(b.get("ctor", "")) if b.get("k") == "call" else "?"
            inner = H.strip(b["args"][0]) if b.get("k") == "call" and b.get("args") else {}
            if "Float" in (va, vb):
                wres = "Float"
                ok = res == wres and inner.get("k") == "bin" and inner["op"] == sym and not inner.get("callee", "").startswith("<")
                # mixed operands are widened with `as f64`
                det = "%s %s %s → %s via %s" % (va, sym, vb, res, H.render(inner))
                if ok:
                    for side, vv in (("l", va), ("r", vb)):
                        x = H.strip(inner[side])
                        if vv != "Float":
                            ok = ok and x.get("k") == "cast" and x.get("ty") == "f64"
                R.ob("operator-primitive", "%s (%s, %s)" % (suffix.split(">")[0], va, vb), ok, det, F.loc(g, a.get("line")))
                continue
            wres = "Byte" if (va, vb) == ("Byte", "Byte") else "Integer"
            if bit:
                ok = res == wres and inner.get("k") == "bin" and inner["op"] == sym and va == vb
                R.ob("operator-primitive", "%s (%s, %s)" % (suffix.split(">")[0], va, vb), ok,
                     "%s → %s via %s" % ((va, vb), res, H.render(inner)), F.loc(g, a.get("line")))
                continue
            ok = res == wres and inner.get("k") == "mcall" and inner["m"] == wrap
            det = "%s %s %s → %s via %s" % (va, sym, vb, res, H.render(inner))
            if ok:
                rty = (inner.get("recv_ty") or "").lstrip("&")
                ok = rty == ("u8" if wres == "Byte" else "i64")
                if shift:
                    arg = H.strip(inner["args"][0])
                    ok = ok and arg.get("k") == "cast" and arg.get("ty") == "u32"
                else:
                    # the narrower operand is widened with `as i64`, never the result narrowed
                    for x, vv in ((H.strip(inner["recv"]), va), (H.strip(inner["args"][0]), vb)):
                        if wres == "Integer" and vv == "Byte":
                            ok = ok and x.get("k") == "cast" and x.get("ty") == "i64"
                        else:
                            ok = ok and x.get("k") != "cast"
            elif inner.get("k") == "bin":
                det += " — plain `%s` is overflow-checked (panics) / masks nothing: not the modular result" % inner["op"]
            R.ob("operator-primitive", "%s (%s, %s)" % (suffix.split(">")[0], va, vb), ok, det, F.loc(g, a.get("line")))
        R.count("operator impl arms checked", n)

    for suffix, sym, wrap in OPS:
        check_impl(suffix, sym, wrap)
    for suffix, sym, wrap in SHIFTS:
        check_impl(suffix, sym, wrap, shift=True)
    for suffix, sym in BITS:
        check_impl(suffix, sym, None, bit=True)
    g = F.fn("<&object::Object as std::ops::Neg>::neg")
    if R.anchor("ops impl Neg", g):
        m = T.top_match(g)
        for vset, a in T.single_arms(m):
            for v in vset:
                if v == "*":
                    continue
                b = H.strip(a["body"])
                inner = H.strip(b["args"][0]) if b.get("k") == "call" and b.get("args") else {}
                if v == "Integer":
                    ok = H.last(b.get("ctor", "")) == "Integer" and inner.get("k") == "mcall" and inner["m"] == "wrapping_neg"
                elif v == "Float":
                    ok = H.last(b.get("ctor", "")) == "Float" and inner.get("k") == "un" and inner["op"] == "-"
                else:
                    ok = False
                R.ob("operator-primitive", "Neg (%s)" % v, ok, "-%s via %s" % (v, H.render(inner)), F.loc(g, a.get("line")))
    # Minus accepts numbers only; Not accepts integers only
    if arms and arms.get("Minus"):
        txt = H.render(arms["Minus"]["body"])
        # every path that negates passed the is_number test; the other side of that test is the runtime error
        outm = []
        VMK = ("pop", "push", "top", "peek", "current_frame", "is_number", "is_falsey")
        # (the arm may hand the work to a helper of its own)
        mb = arms["Minus"]["body"]
        for c_ in H.walk(mb):
            if c_.get("k") == "mcall" and (c_.get("callee") or "").startswith("vm::interpreter::VM::") and H.last(c_["callee"]) not in VMK and F.fn(c_["callee"]) is not None \
                    and not any(x_.get("k") == "mcall" and x_["m"] in ("push",) for x_ in H.walk(mb)):
                mb = H.body_of(F.fn(c_["callee"]))
                break
        peval(mb, "Add", outm)
        def polarity(g_):
            posv = True
            g_ = g_.strip()
            while True:
                if g_.startswith("!"):
                    posv, g_ = not posv, g_[1:].strip()
                elif g_.startswith("(") and g_.endswith(")"):
                    g_ = g_[1:-1].strip()
                else:
                    return g_, posv
        pol = [(k_, [polarity(g_) for g_ in gs if "is_number" in g_]) for k_, gs in outm]
        okm = any(k_ == "ok" for k_, _ in pol) and any(k_ == "err" for k_, _ in pol) and \
            all(ps and all(pv for _, pv in ps) for k_, ps in pol if k_ == "ok") and all(k_ == "err" for k_, ps in pol if any(not pv for _, pv in ps))
        R.ob("unary-dispatch", "Minus", okm, "outcomes %s" % [(k_, gs) for k_, gs in outm][:4], "src/vm/interpreter.rs:%s" % arms["Minus"]["line"])
        isn = F.fn("object::Object::is_number")
        if R.anchor("object::Object::is_number", isn):
            m = T.top_match(isn)
            acc = set()
            for vset, a in T.single_arms(m):
                if T.body_kind(a) == ("const", True):
                    acc |= vset
            R.ob("unary-dispatch", "is_number = {Integer, Float}", acc == {"Integer", "Float"}, str(sorted(acc)), F.loc(isn))

    # ---- (c) is_zero covers the numeric kinds ---------------------------------------------------
    iz = F.fn("object::Object::is_zero")
    if R.anchor("object::Object::is_zero", iz):
        m = T.top_match(iz)
        cov = {}
        for vset, a in T.single_arms(m):
            for v in vset:
                cov[v] = H.render(H.strip(a["body"]))
        ok = all(v in cov for v in NUM) and cov.get("Integer") == "(*n == 0)" and cov.get("Byte") == "(*n == 0)" and \
            cov.get("Float") in ("(*n == 0.)", "(*n == 0.0)")
        R.ob("zero-test", "is_zero covers Integer, Float, Byte", ok, str(cov), F.loc(iz))

    # ---- (d) relational siblings -----------------------------------------------------------------------
    feq = F.fn("<object::Object as std::cmp::PartialEq>::eq")
    fpo = F.fn("<object::Object as std::cmp::PartialOrd>::partial_cmp")
    if R.anchor("PartialEq for Object", feq) and R.anchor("PartialOrd for Object", fpo):
        eqa, poa = T.pair_arms(T.top_match(feq)), T.pair_arms(T.top_match(fpo))
        for va in NUM + ["Str", "Char", "Bool"]:
            for vb in NUM + ["Str", "Char", "Bool"]:
                ae, ap = T.pair_lookup(eqa, va, vb), T.pair_lookup(poa, va, vb)
                ke, kp = T.body_kind(ae), T.body_kind(ap)
                can_eq = ke != ("const", False)
                can_ord = kp != ("const", "None")
                if not can_eq and not can_ord:
                    continue
                ok = can_eq == can_ord
                det = "== via %s, ordering via %s" % (ke[3] if ke[0] == "call" else ke, kp[3] if kp[0] == "call" else kp)
                if ok and ke[0] == "call" and kp[0] == "call":
                    # same operand conversion on both sides
                    conv = lambda a: [("cast" if (H.strip(x).get("k") == "cast") else "raw") for x in
                                      (H.strip(H.strip(a["body"])["recv"]), H.strip(H.strip(a["body"])["args"][0]))]
                    ok = conv(ae) == conv(ap) and ke[2] == kp[2]
                R.ob("eq-ord-siblings", "(%s, %s)" % (va, vb), ok, det, F.loc(fpo, ap.get("line")))
    if arms and arms.get("Equal") and arms.get("NotEqual"):
        objty = ("&object::Object", "object::Object")
        fwd = "std::cmp::impls::<impl std::cmp::PartialEq<&B> for &A>::"
        EQS = (fwd + "eq", "<object::Object as std::cmp::PartialEq>::eq", fwd + "ne", "<object::Object as std::cmp::PartialEq>::ne", "std::cmp::PartialEq::ne")

        def cmp_of(a):
            """(the value pushed is true exactly when the operands are equal?, through Object's PartialEq?, rendering) — the
            pushed boolean is normalised: `!e`, `e == true`, `e == false`, `a != b` all fold into a polarity over one
            comparison of the two popped values"""
            body = H.unlet(a["body"])
            pushes = [c for c in H.walk(body) if c.get("k") == "mcall" and c["m"] == "push" and c.get("args")]
            if len(pushes) != 1:
                return None
            bools = [c for c in H.walk(pushes[0]["args"][0]) if c.get("k") == "call" and H.last(c.get("ctor") or "") == "Bool"]
            if len(bools) != 1:
                return None
            e = H.strip(bools[0]["args"][0])
            pol = True
            for _ in range(6):
                if e.get("k") == "un" and e.get("op") == "!":
                    pol, e = not pol, H.strip(e["e"])
                    continue
                if e.get("k") == "bin" and e["op"] in ("==", "!="):
                    l, r = H.strip(e["l"]), H.strip(e["r"])
                    lit = l if (l.get("k") == "lit" and l.get("lk") == "bool") else (r if (r.get("k") == "lit" and r.get("lk") == "bool") else None)
                    if lit is not None:
                        other = r if lit is l else l
                        if (lit["v"] is True) != (e["op"] == "=="):
                            pol = not pol
                        e = other
                        continue
                break
            if not (e.get("k") == "bin" and e["op"] in ("==", "!=")):
                return None
            if e["op"] == "!=":
                pol = not pol
            through = e.get("callee") in EQS and e["l"].get("ty") in objty and e["r"].get("ty") in objty
            pops = len([c for c in H.walk(H.inline_helpers(F, a["body"], skip=lambda c_: H.last(c_) in ("pop", "push", "top", "peek"))) if c.get("k") == "mcall" and c["m"] == "pop"])
            return (pol, through and pops == 2, "%s%s" % ("" if pol == (e["op"] == "==") else "!", H.render(e)[:90]))
        e, n = cmp_of(arms["Equal"]), cmp_of(arms["NotEqual"])
        # both sides must be `&Object` (or `Object`) values, so that == / != dispatch to Object::eq — comparing the
        # Rc handles instead goes through Rc's pointer-identity shortcut
        ok = e is not None and n is not None and e[0] is True and n[0] is False and e[1] and n[1]
        R.ob("eq-ne-siblings", "Equal / NotEqual compare through Object::eq", ok, "Equal: %s; NotEqual: %s" % (e, n),
             "src/vm/interpreter.rs:%s" % arms["NotEqual"]["line"])
