"""C05 — conditionals, match and loops follow their documented control flow
(structure of the emitted control flow; run-time values are not decided)."""
from .lib import hir as H
from .lib import decide as DT
from .lib import e5run
from .lib.e5 import Engine, St, Unsupported
from .lib.vmarms import vm_arms
from .lib.vmeffects import Lin

EXPL = ("Control-flow clauses decided on the compiler's code by the emission verifier (E5, abstract interpretation of the "
        "compile_* functions over every block shape and every undecidable test) plus table rules: (a) every jump "
        "placeholder is patched exactly once and lands where fall-through has the same operand height; back jumps go to "
        "the position recorded before the loop's first instruction (for `while`: before the condition); a loop's breaks "
        "are patched after its back jump; (b) if/else: the only value-producing opcode the construct itself emits is "
        "Null, emitted exactly when the branch's block does not end in an expression statement, otherwise the block's "
        "own trailing Pop (and no other) is removed; a missing else yields Null; (c) match: the scrutinee is compiled "
        "once, before all patterns; every pattern kind emits Dup, its constant, the documented comparison (NotEqual for "
        "literals; GreaterEq on the lower bound, then GreaterEq for `..` / Greater for `..=` on the upper bound) and a "
        "JumpIfFalse into the arm body; the scrutinee is popped once on entry to a body; arms are tried in source order; "
        "the type test MatchPattern::matches_type, evaluated over all pairs of pattern kinds, equals 'same type or "
        "default' and precedes any emission for the pattern; the parser appends a default arm yielding null and "
        "demands that a written default arm is last; (d) break/continue: rejected when loop_stack is empty; the "
        "labelled forms search loop_stack innermost-first for an equal label, the plain forms use the innermost "
        "loop; (e) the VM's Jump/JumpIfFalse/JumpIfFalseNoPop arms test is_falsey and transfer to the decoded "
        "operand. Which branch a concrete value selects (the truthiness table itself) is C06's rule; values are not decided.")

C = "compiler::Compiler::"
CF_RULES = {"jump-landing-height", "jump-patched-once", "back-jump-height", "loop-exit-height", "jump-operand", "join-height", "join-scope",
            "peephole-remove", "peephole-state", "loop-stack-balance", "loop-fixpoint", "loop-height", "break-bookkeeping", "compile-error-dropped"}
LIT_KINDS = {"Integer": "Object::Integer(num.value)", "Str": "Object::Str(s.value.clone())", "Char": "Object::Char(ch.value)", "Byte": "Object::Byte(b.value)"}


def find_bind(body, name):
    for x in H.walk(body):
        pass
    out = []

    def go(n):
        if isinstance(n, dict):
            if n.get("k") == "bind" and n.get("name") == name:
                out.append(n["id"])
            for v in n.values():
                go(v)
        elif isinstance(n, list):
            for v in n:
                go(v)
    go(body)
    return out


def pattern_arms(F, R, eng):
    """emitted sequence per MatchPattern kind (the inner `match pattern_variant` of compile_match_expression)"""
    f = F.fn(C + "compile_match_expression")
    if not R.anchor(C + "compile_match_expression", f):
        return None
    b = H.body_of(f)
    ms = [m for m in H.walk(b) if m.get("k") == "match" and not H.is_try(m) and H.is_local(H.strip(m["scrut"])) and
          any((v or "").startswith("parser::ast::expr::MatchPattern::") for a in m["arms"] for v in H.pat_variants(a["pat"]))]
    if not R.anchor("compile_match_expression: match on the pattern variant", len(ms) == 1):
        return None
    m = ms[0]
    res = {}
    ty = "parser::ast::expr::MatchPattern"
    pid = H.local_id(H.strip(m["scrut"]))
    # by role, not by name: the vector the pattern arms push their jump positions on, and the loop variable whose
    # `.patterns` the pattern loop iterates
    # (the pushes may sit in the arms of the match on the pattern or right behind it: anywhere in the loop over the patterns)
    ploops = [x for x in H.walk(b) if x.get("k") == "match" and x.get("src", "").startswith("ForLoop") and any(y is m for y in H.walk(x))]
    pscope = min(ploops, key=H._size) if ploops else m
    pushed = sorted({H.local_id(H.strip(c["recv"])) for c in H.walk(pscope) if c.get("k") == "mcall" and c["m"] == "push" and H.local_id(H.strip(c["recv"])) is not None})
    # ... and of those, the one whose positions are patched right before the arm's body is compiled (jumps *to the body*):
    # the `for p in V { patch_jump(p) }` statement that directly precedes the statement compiling `<arm>.body`
    vec_ids = []
    for blk in H.walk(b):
        if blk.get("k") != "block":
            continue
        st = blk.get("stmts", [])
        for i, s_ in enumerate(st):
            e_ = s_.get("e") or s_.get("init")
            if e_ is None or i == 0:
                continue
            is_body = any(c.get("k") in ("call", "mcall") and (H.last(c.get("callee") or "") == "compile_block_statement" or
                                                                (c.get("callee") in F.fns and any(y.get("k") in ("call", "mcall") and H.last(y.get("callee") or "") == "compile_block_statement"
                                                                                                  for y in H.walk(H.body_of(F.fns[c["callee"]]) or {}))))
                          for c in H.walk(e_)) and \
                not any(x.get("k") in ("loop",) for x in H.walk(e_))
            if not is_body:
                continue
            for k_ in range(i - 1, -1, -1):
                prev = st[k_].get("e") or st[k_].get("init") or {}
                pm = H.strip(prev)
                if pm.get("k") == "match" and pm.get("src", "").startswith("ForLoop") and pm["scrut"].get("k") == "call" and pm["scrut"].get("args"):
                    if any(c.get("k") == "mcall" and c["m"] == "patch_jump" for c in H.walk(pm)):
                        v_ = H.local_id(H.strip(pm["scrut"]["args"][0]))
                        if v_ in pushed:
                            vec_ids.append(v_)
                    break
    if not R.anchor("compile_match_expression: the jumps into the arm body are patched right before the body", len(set(vec_ids)) == 1):
        return None
    vec_ids = sorted(set(vec_ids))
    arm_ids = []
    for x in H.walk(b):
        if x.get("k") == "match" and x.get("src", "").startswith("ForLoop") and x["scrut"].get("k") == "call" and x["scrut"].get("args"):
            it = H.strip(x["scrut"]["args"][0])
            if it.get("k") == "field" and it.get("name") == "patterns" and H.local_id(H.strip(it["e"])) is not None:
                arm_ids.append(H.local_id(H.strip(it["e"])))
    for var, _ in F.enum_variants(ty):
        st = St()
        st.h = Lin(1)
        st.kind = "fn"
        st.env[pid] = ("ast", "pattern_variant")
        for i in vec_ids:
            st.env[i] = ("phvec", frozenset())
        for i in arm_ids:
            st.env[i] = ("ast", "arm")
        st.facts["v:pattern_variant"] = var
        eng.cur = "match pattern %s" % var
        eng.top = "compile_match_expression"
        ends = []
        # evaluate what is done for one pattern: the statements of the pattern loop from the match on the pattern's kind to
        # the end of the iteration (the jump may be recorded in the arms or once behind the match)
        node = m
        if pscope is not m:
            for blk in H.walk(pscope):
                if blk.get("k") == "block":
                    sts = blk.get("stmts", [])
                    hit = [i_ for i_, s_ in enumerate(sts) if any(y is m for y in H.walk(s_))]
                    if hit:
                        node = {"k": "block", "stmts": sts[hit[0]:], "expr": blk.get("expr")}
                    elif blk.get("expr") is not None and any(y is m for y in H.walk(blk["expr"])) and blk["expr"] is m:
                        node = m
        for ctl, s, v in eng.ev(node, st):
            ends.append(("err" if (v and v[0] == "res_err") or ctl == "ret" else "ok", s))
        res[var] = (ends, vec_ids)
    return res, f


def matches_type_table(F, R):
    # matches_type table
    mt = F.fn("parser::ast::expr::MatchPattern::matches_type")
    if R.anchor("MatchPattern::matches_type", mt):
        e2 = Engine(F, {})
        ps = mt["hir"]["params"]
        st = St()
        st.env[ps[0]["id"]] = ("ast", "self")
        st.env[ps[1]["id"]] = ("ast", "other")
        n = 0
        bad = []
        LITS = ("Integer", "Str", "Char", "Byte")

        def ty_of(s, who, rname):
            v = s.facts.get("v:" + who)
            if v == "Default":
                return "*"
            if v != "Range":
                return v
            # range payload names differ per arm (r, r1, r2): find the payload bound for this side
            best = "?"
            for fk, fv in s.facts.items():
                if fk.startswith("payload:") and fv == (who, "Range"):
                    p = fk[len("payload:"):]
                    bt, et = s.facts.get("v:" + p + ".begin"), s.facts.get("v:" + p + ".end")
                    if bt is None and et is None:
                        continue
                    best = bt if bt == et and bt in LITS else ("?" if bt is None or et is None else None)
            return best
            return "?"
        try:
            for ctl, s, v in e2.ev(H.body_of(mt), st):
                if not (v and v[0] == "bool"):
                    bad.append(("not a boolean result", dict(s.facts)))
                    continue
                a, b_ = ty_of(s, "self", None), ty_of(s, "other", None)
                if "?" in (a, b_):
                    # a bound's kind was not inspected on this path: the answer must not depend on it
                    if a == "*" or b_ == "*":
                        want = True
                    elif v[1] is False:
                        n += 1
                        continue
                    else:
                        bad.append(("accepts without inspecting both range bounds", {k: x for k, x in s.facts.items() if k.startswith("v:")}))
                        continue
                else:
                    want = (a == "*" or b_ == "*") or (a is not None and a == b_)
                n += 1
                if v[1] != want:
                    bad.append((a, b_, v[1]))
        except Unsupported as e:
            bad.append(("unsupported", str(e)))
        R.ob("match-type-table", "matches_type(a, b) ⇔ a or b is the default pattern, or both have the same literal type (a range counts as the type of its two equal-typed bounds)",
             not bad and n >= 40, "%d cases evaluated; mismatches %s" % (n, bad[:3]), F.loc(mt))
        R.count("matches_type cases evaluated", n)


def run(F, R, tier):
    R.explanation = EXPL
    R.assumptions += ["which value is falsey is C06's rule (is_falsey is the only truthiness test on these paths)",
                      "the comparison operators applied by NotEqual / Greater / GreaterEq are C09's rule"]
    res = e5run.analyse(F, R)
    if not res["ok"]:
        R.ob("emission-verifier", "the compiler's code is inside the fragment the verifier interprets", False,
             "unsupported construct: %s" % res.get("unsupported"))
        return
    eng = res["engine"]
    g = F.fn(C + "compile_statement")
    # ---- (a) jump discipline: violations the verifier met -------------------------------------------------------------------------
    seen = set()
    n_cf = 0
    for v in res["viol"]:
        rule, key, detail, line, facts = v
        if rule in CF_RULES and (rule, key) not in seen:
            seen.add((rule, key))
            R.ob(rule, key, False, detail, "src/compiler/mod.rs:%s" % line if line else "")
    # positive instances: every placeholder site patched on every path
    sites = {}
    for table in (res["expr"], res["stmt"]):
        for (var, ctx), r in table.items():
            for t, s in r["ends"]:
                if t != "ok":
                    continue
                for pid in s.ph:
                    sites.setdefault(pid, [0, 0])
                    sites[pid][0] += 1
                    if pid in s.pend:
                        sites[pid][1] += 1
    for pid, (n, bad) in sorted(sites.items()):
        R.ob("placeholder-patched", pid, bad == 0, "%d paths carry this jump placeholder; unpatched at the end of %d" % (n, bad), F.loc(g))
    R.floor("jump placeholder sites", len(sites), 12)
    # ---- loops: begin label, back jump, breaks -------------------------------------------------------------------------------------
    for var in ("Loop", "While"):
        r = res["stmt"].get((var, "fn"))
        if not R.anchor("Statement::%s arm" % var, r):
            continue
        oks = [s for t, s in r["ends"] if t == "ok"]
        ok_begin = all(any(e[0] == "loop-begin" and e[1] == 0 for e in s.events) for s in oks)
        R.ob("loop-begin-position", "%s: the position pushed on loop_stack is the one before the loop's first instruction%s" % (var, " (before the condition)" if var == "While" else ""),
             ok_begin and bool(oks), str(sorted({e for s in oks for e in s.events if e[0] in ("loop-begin", "backjump")})), F.loc(g))
        ok_back = all(any(e[0] == "backjump" and e[1] == 0 for e in s.events) for s in oks)
        R.ob("loop-back-jump", "%s: the closing Jump targets that same position" % var, ok_back and bool(oks), "", F.loc(g))
        # order: back jump emitted before the breaks are patched; while: condition placeholder patched after the back jump
        def order_ok(s):
            ev = [e[0] for e in s.events]
            return "patch-breaks" in ev and "backjump" in ev and ev.index("backjump") < ev.index("patch-breaks")
        R.ob("loop-breaks-after-back-jump", "%s: breaks are patched behind the closing Jump" % var, all(order_ok(s) for s in oks) and bool(oks), "", F.loc(g))
        kinds = [tuple(o[1] for o in s.order if o[1] in ("G", "block")) for s in oks]
        want = ("block",) if var == "Loop" else ("G", "block")
        R.ob("loop-shape", "%s compiles %s, in that order, once" % (var, "its body" if var == "Loop" else "its condition and then its body"),
             all(k == want for k in kinds) and bool(kinds), str(sorted(set(kinds))), F.loc(g))
        if var == "While":
            ems = {tuple(e[0] for e in s.emits) for s in oks}
            R.ob("loop-shape", "While emits JumpIfFalse (exit) after the condition and Jump (repeat) after the body", ems == {("JumpIfFalse", "Jump")}, str(sorted(ems)), F.loc(g))
    # ---- break / continue resolution ------------------------------------------------------------------------------------------------
    for var in ("Break", "Continue"):
        r = res["stmt"].get((var, "fn"))
        if not R.anchor("Statement::%s arm" % var, r):
            continue
        for t, s in r["ends"]:
            pass
        empty_ok = [s for t, s in r["ends"] if t == "ok" and s.facts.get("ls_empty") is True]
        R.ob("loop-exit-rejected-outside-loop", "%s with an empty loop_stack is a compile error" % var, not empty_ok and any(t == "err" and s.facts.get("ls_empty") is True for t, s in r["ends"]),
             "%d accepting paths with an empty loop_stack" % len(empty_ok), F.loc(g))
        errs = [s for t, s in r["ends"] if t == "err" and s.facts.get("ls_empty") is False]
        R.ob("loop-exit-unknown-label", "%s naming a label no enclosing loop carries is a compile error" % var, bool(errs), "%d rejecting paths inside a loop" % len(errs), F.loc(g))
        oks = [s for t, s in r["ends"] if t == "ok"]
        evs = {e[0] for s in oks for e in s.events}
        R.ob("loop-exit-jump", "%s emits one Jump (%s)" % (var, "placeholder handed to the chosen loop's break_positions" if var == "Break" else "to the chosen loop's begin"),
             all([e[0] for e in s.emits if e != ("…",)][-1:] == ["Jump"] and all(e[0] in ("Pop", "Jump") for e in s.emits if e != ("…",)) and
                 sum(1 for e in s.emits if e[0] == "Jump") == 1 for s in oks) and (("break" if var == "Break" else "continue") in evs), str(sorted(evs)), F.loc(g))
    cs = F.fn(C + "compile_statement")
    if cs is not None:
        b = H.body_of(cs)
        # searches of loop_stack for a label: `for l in loop_stack.iter().rev() { if .. == label {..; return} }` or
        # `loop_stack.iter().rev().find(|l| .. == label)` (also rfind / position on the reversed iterator), in
        # compile_statement or a helper it calls
        bodies = [("compile_statement", b)]
        for c in H.walk(b):
            if c.get("k") in ("call", "mcall") and (c.get("callee") or "").startswith(C) and H.last(c["callee"]) not in ("compile_statement", "compile_expression", "compile_block_statement", "emit"):
                hb = H.body_of(F.fn(c["callee"]))
                if hb is not None and any("loop_stack" in H.render(x.get("recv") or x.get("scrut") or {}) for x in H.walk(hb) if x.get("k") in ("mcall", "match")):
                    bodies.append((H.last(c["callee"]), hb))
        searches = []   # (where, reversed?, compares the loop's label with the statement's label?, exits)
        seen_nodes = set()
        for where, bd in bodies:
            for x in H.walk(bd):
                if id(x) in seen_nodes:
                    continue
                if x.get("k") == "match" and x.get("src", "").startswith("ForLoopDesugar") and "loop_stack" in H.render(x["scrut"]):
                    seen_nodes.add(id(x))
                    chain = H.render(x["scrut"]["args"][0])
                    inner = x["arms"][0]["body"]
                    cmps = [y for y in H.walk(inner) if y.get("k") == "bin" and y["op"] == "=="]
                    label_cmp = any(("label" in H.render(y["l"]) and ".literal" in H.render(y["r"])) or ("label" in H.render(y["r"]) and ".literal" in H.render(y["l"])) for y in cmps)
                    if not label_cmp:
                        continue     # a loop over loop_stack that is not a label search (e.g. patching)
                    bad = []
                    for m2 in H.walk(inner):
                        if m2.get("k") == "match" and m2.get("src", "").startswith("ForLoopDesugar"):
                            for a2 in m2["arms"]:
                                if "Some" in H.render_pat(a2["pat"]):
                                    for y in H.walk(a2["body"]):
                                        if y.get("k") == "let" and y.get("els") is not None and any(z.get("k") == "break" for z in H.walk(y["els"])):
                                            bad.append("let-else break")
                    searches.append((where, chain.count(".rev()") % 2 == 1, True, bad))
                elif x.get("k") == "mcall" and x["m"] in ("find", "rfind", "position", "rposition", "find_map") and "loop_stack" in H.render(x["recv"]):
                    seen_nodes.add(id(x))
                    chain = H.render(x["recv"])
                    rev = (chain.count(".rev()") % 2 == 1) != (x["m"] in ("rfind", "rposition"))
                    clo = [a2 for a2 in x.get("args", []) if a2.get("k") == "closure"]
                    cmps = [y for a2 in clo for y in H.walk(a2["body"]) if y.get("k") == "bin" and y["op"] == "=="]
                    label_cmp = any(("label" in H.render(y["l"]) and ".literal" in H.render(y["r"])) or ("label" in H.render(y["r"]) and ".literal" in H.render(y["l"])) for y in cmps)
                    searches.append((where, rev, label_cmp, []))
        R.ob("label-search-order", "labelled break/continue search loop_stack from the innermost loop outwards", bool(searches) and all(sr[1] for sr in searches),
             str([(w, "innermost first" if r_ else "OUTERMOST FIRST") for w, r_, _, _ in searches]), F.loc(cs))
        R.ob("label-search-order", "a loop is chosen when its label equals the statement's label", bool(searches) and all(sr[2] for sr in searches), str([(w, c_) for w, _, c_, _ in searches]), F.loc(cs))
        # the search skips loops that do not carry the label: it is left only by a hit
        bad_exits = [e for sr in searches for e in sr[3]]
        for x in H.walk(b):
            if x.get("k") == "match" and x.get("src", "").startswith("ForLoopDesugar") and "loop_stack" in H.render(x["scrut"]):
                some = [a for m2 in H.walk(x["arms"][0]["body"]) if m2.get("k") == "match" and m2.get("src", "").startswith("ForLoopDesugar") for a in m2["arms"]
                        if "Some" in H.render_pat(a["pat"])]
                for a in some:
                    for y in H.walk(a["body"]):
                        if y.get("k") == "break" or (y.get("k") == "ret" and H.render(y.get("e")) != "v1::Ok(())"):
                            bad_exits.append(H.render(y)[:60])
        R.ob("label-search-order", "a loop that does not carry the label is skipped; only a hit ends the search", not bad_exits, str(bad_exits), F.loc(cs))
        R.floor("label searches over loop_stack", len(searches), 1)
        plain = [H.render(x) for x in H.walk(b) if x.get("k") == "mcall" and x["m"] in ("last", "last_mut") and "loop_stack" in H.render(x["recv"])]
        R.ob("label-search-order", "plain break/continue use the innermost loop (loop_stack.last)", len(plain) >= 1, str(plain), F.loc(cs))
    # ---- (b) if / else ---------------------------------------------------------------------------------------------------------------
    f = F.fn(C + "compile_if_expression")
    r = res["expr"].get(("If", "fn"))
    if R.anchor("Expression::If arm", r) and f is not None:
        oks = [s for t, s in r["ends"] if t == "ok"]
        allowed = {"JumpIfFalse", "Jump", "Null", "-Pop"}
        ems = {e[0] for s in oks for e in s.emits}
        R.ob("if-emits", "the only opcodes an if-expression itself emits are JumpIfFalse, Jump and Null", ems <= allowed, str(sorted(ems)), F.loc(f))
        n = 0
        bad = []
        for s in oks:
            for key, sh in s.facts.items():
                if not key.startswith("shape:"):
                    continue
                n += 1
            # per path: number of Nulls + removed Pops equals number of value slots (then + else/empty)
            nulls = sum(1 for e in s.emits if e[0] == "Null")
            rem = sum(1 for e in s.emits if e[0] == "-Pop")
            shapes = [sh for k, sh in s.facts.items() if k.startswith("shape:")]
            want_rem = sum(1 for sh in shapes if sh[1])
            want_null = sum(1 for sh in shapes if not sh[1]) + (1 if e5run.cfact(s, r["pname"], "v", "$:If.else_if") == "Empty" else 0)
            if (nulls, rem) != (want_null, want_rem):
                bad.append((sorted(shapes), e5run.cfact(s, r["pname"], "v", "$:If.else_if"), nulls, rem))
        R.ob("if-branch-value", "per branch: the block's own trailing Pop is removed when it ends in an expression statement, otherwise Null is emitted; no else → Null",
             not bad and bool(oks), "%d paths; mismatches: %s" % (len(oks), bad[:3]), F.loc(f))
        kinds = {tuple(o[0] for o in e5run.corder(s, r["pname"])) for s in oks}
        R.ob("if-shape", "condition first, then-block next, else part last", all(k[0] == "$:If.condition" and k[1] == "$:If.then_stmt" for k in kinds), str(sorted(kinds)), F.loc(f))
        R.count("if-expression paths", len(oks))
    # ---- (c) match -------------------------------------------------------------------------------------------------------------------
    pa = pattern_arms(F, R, eng)
    if pa is not None:
        arms, mf = pa
        for var, (ends, vec_ids) in sorted(arms.items()):
            oks = [s for t, s in ends if t == "ok"]
            seqs = {tuple((e[0],) + tuple(e[1]) for e in s.emits) for s in oks}
            loc = F.loc(mf)
            if var == "Default":
                R.ob("match-pattern-code", "Default: an unconditional Jump into the arm body", seqs == {(("Jump", "+65535"),)}, str(sorted(seqs)), loc)
            elif var == "Boolean":
                want = {(("Dup", "+0"), ("True", "+0"), ("NotEqual", "+0"), ("JumpIfFalse", "+65535")), (("Dup", "+0"), ("False", "+0"), ("NotEqual", "+0"), ("JumpIfFalse", "+65535"))}
                R.ob("match-pattern-code", "Boolean: Dup, True/False, NotEqual, JumpIfFalse into the body", seqs == want, str(sorted(seqs)), loc)
                # the decision on the pattern's boolean payload (whatever the payload binding is called)
                def bool_decision(st_):
                    vs = [v for k, v in st_.facts.items() if k.startswith("cond:") and k.endswith(".value") and st_.facts.get("payload:" + k[5:-6], (None, None))[1] == "Boolean"]
                    return vs[0] if len(vs) == 1 else None
                tf = {(bool_decision(s), s.emits[1][0]) for s in oks if len(s.emits) > 1}
                R.ob("match-pattern-code", "Boolean: the pushed constant is the pattern's value", tf == {(True, "True"), (False, "False")}, str(sorted(tf, key=repr)), loc)
            elif var in LIT_KINDS:
                want = {(("Dup", "+0"), ("Constant", "const:" + LIT_KINDS[var]), ("NotEqual", "+0"), ("JumpIfFalse", "+65535"))}
                ok = len(seqs) == 1 and all(len(q) == 4 and [x[0] for x in q] == ["Dup", "Constant", "NotEqual", "JumpIfFalse"] and
                                            q[1][1].startswith("const:Object::%s(" % var) and ".value" in q[1][1] for q in seqs)
                R.ob("match-pattern-code", "%s: Dup, Constant(Object::%s(pattern value)), NotEqual, JumpIfFalse into the body" % (var, var), ok, str(sorted(seqs)), loc)
            elif var == "Range":
                good = True
                det = []
                for s in oks:
                    q = [(e[0],) + tuple(e[1]) for e in s.emits]
                    ops = [x[0] for x in q]
                    excl = s.facts.get("streq:r.operator:..")
                    want_ops = ["Dup", "Constant", "GreaterEq", "JumpIfFalse", "Dup", "Constant", "GreaterEq" if excl else "Greater", "JumpIfFalse"]
                    c1 = q[1][1] if len(q) > 1 and len(q[1]) > 1 else ""
                    c2 = q[5][1] if len(q) > 5 and len(q[5]) > 1 else ""
                    this = ops == want_ops and "begin.value" in c1 and "end.value" in c2 and "end.value" not in c1 and "begin.value" not in c2 and excl is not None
                    good = good and this
                    if not this:
                        det.append((excl, q))
                R.ob("match-pattern-code", "Range: value >= begin (else next pattern), then value >= end for `..` / value > end for `..=` must be false to enter the body",
                     good and bool(oks), str(det[:2]) if det else "%d paths" % len(oks), loc)
                # the lower-bound jump skips to the next pattern (patched in this arm), the upper-bound jump goes to the body vector
                vec_ok = all(any(v and v[0] == "phvec" and len(v[1]) == 1 for i, v in s.env.items() if i in vec_ids) and not s.pend - {p for i, v in s.env.items() if i in vec_ids and v and v[0] == "phvec" for p in v[1]}
                             for s in oks)
                R.ob("match-pattern-code", "Range: the lower-bound miss continues with the next pattern; only the final test jumps into the body", vec_ok and bool(oks), "", loc)
                kinds = {tuple(sorted((k, v) for k, v in s.facts.items() if k in ("v:r.begin", "v:r.end"))) for s in oks}
                okk = all(dict(k).get("v:r.begin") == dict(k).get("v:r.end") and dict(k).get("v:r.begin") in ("Integer", "Str", "Char", "Byte") for k in kinds)
                R.ob("match-pattern-code", "Range: only bounds of one literal type (integer, string, char, byte) are compiled; others are a compile error", okk and bool(kinds), str(sorted(kinds)), loc)
            if var != "Default":
                vec_ok = all(any(v and v[0] == "phvec" and len(v[1]) == 1 for i, v in s.env.items() if i in vec_ids) for s in oks)
                R.ob("match-pattern-code", "%s: the jump taken on a match is recorded in the arm's body-jump vector" % var, vec_ok and bool(oks), "", loc)
        R.floor("match pattern kinds analysed", len(arms), 7)
    r = res["expr"].get(("Match", "fn"))
    mf = F.fn(C + "compile_match_expression")
    if R.anchor("Expression::Match arm", r) and mf is not None:
        oks = [s for t, s in r["ends"] if t == "ok"]
        firsts = {e5run.corder(s, r["pname"])[0] for s in oks if s.order}
        R.ob("match-scrutinee-once", "the scrutinee is compiled first", bool(firsts) and all(k == "$:Match.expr" and c == "G" for k, c in firsts), str(sorted(firsts)), F.loc(mf))
        b = H.body_of(mf)
        calls = [c for c in H.walk(b) if c.get("k") == "mcall" and c["m"] == "compile_expression"]
        in_loops = []
        for lp in H.walk(b):
            if lp.get("k") == "loop":
                in_loops += [c for c in H.walk(lp) if c.get("k") == "mcall" and c["m"] == "compile_expression"]
        R.ob("match-scrutinee-once", "compile_expression is called once in compile_match_expression, outside the arm and pattern loops", len(calls) == 1 and not in_loops,
             "%d calls, %d inside loops" % (len(calls), len(in_loops)), F.loc(mf))
        # the type test precedes the emission for the pattern, inside the pattern loop
        loops = [x for x in H.walk(b) if x.get("k") == "match" and x.get("src", "").startswith("ForLoopDesugar") and "arm.patterns" in H.render(x["scrut"])]
        ok = False
        det = "pattern loop not found"
        if loops:
            lp = loops[0]["arms"][0]["body"]
            some = [a for m in H.walk(lp) if m.get("k") == "match" and m.get("src", "").startswith("ForLoopDesugar") for a in m["arms"] if "Some" in H.render_pat(a["pat"])]
            body = some[0]["body"] if some else None
            if body is not None and body.get("k") == "block" and body.get("stmts"):
                first = body["stmts"][0].get("e")
                det = H.render(first)[:160] if first else "?"
                loop_var = [y["id"] for a2 in some for y in H.walk(a2["pat"]) if y.get("k") == "bind"]
                ref_txt = ""
                ok = False
                if first and first.get("k") == "if":
                    c0 = H.strip(first["c"])
                    if c0.get("k") == "un" and c0.get("op") == "!" and H.strip(c0["e"]).get("k") == "mcall" and H.strip(c0["e"])["m"] == "matches_type":
                        mc = H.strip(c0["e"])
                        arg_is_loop_var = H.local_id(H.strip(mc["args"][0])) in loop_var
                        rid = H.local_id(H.strip(mc["recv"]))
                        inits = [x["init"] for x in H.walk(b) if x.get("k") == "let" and x.get("pat", {}).get("id") == rid and x.get("init") is not None]
                        ref_txt = H.render(inits[0]) if len(inits) == 1 else H.render(mc["recv"])
                        ok = arg_is_loop_var and H.diverges(first["t"]) and "v1::Err" in H.render(first["t"])
        R.ob("match-type-check", "each pattern is tested against the first pattern's type before anything is emitted for it; a mismatch is a compile error", ok, det, F.loc(mf))
        R.ob("match-type-check", "the reference pattern is the first pattern of the first arm", ref_txt == "match_expr.arms.first().unwrap().patterns.first().unwrap()", ref_txt or "?", F.loc(mf))
        # arms in source order, scrutinee popped once per body
        al = [H.render(x["scrut"]["args"][0]) for x in H.walk(b) if x.get("k") == "match" and x.get("src", "").startswith("ForLoopDesugar")]
        R.ob("match-arm-order", "arms and patterns are compiled in source order", "match_expr.arms.iter().enumerate()" in al and "&arm.patterns" in al, str(al), F.loc(mf))
    matches_type_table(F, R)
    # parser: default arm
    pm = F.fn("parser::rules::<impl parser::Parser>::parse_match_expr")
    if R.anchor("Parser::parse_match_expr", pm):
        b = H.body_of(pm)
        txt = H.render(b)
        # the flag that records a written default arm: a bool local tested by an `if` whose else-branch appends an arm
        ifs = [x for x in H.walk(b) if x.get("k") == "if" and H.is_local(H.strip(x["c"])) and "e" in x and
               any(c.get("k") == "mcall" and c["m"] == "push" for c in H.walk(x["e"]))]
        ok = False
        det = ""
        if ifs and "e" in ifs[-1]:
            els = H.inline_helpers(F, ifs[-1]["e"], max_size=400)   # the arm may be built by a constructor helper of the AST
            pushes = [c for c in H.walk(els) if c.get("k") == "mcall" and c["m"] == "push" and H.is_local(H.strip(c["recv"]))]
            structs = [x for x in H.walk(els) if x.get("k") == "struct"]
            names = [H.last(x["res"].get("path")) for x in structs]
            ctors = [H.last(c.get("ctor")) for c in H.walk(els) if c.get("k") == "call" and c.get("ctor")]
            ok = len(pushes) == 1 and "MatchArm" in names and "Default" in ctors and "Null" in ctors and "Expr" in ctors
            det = "else-branch builds %s / %s" % (names, ctors)
            thn = ifs[-1]["t"]
            ok2 = "is_default()" in H.render(thn) and "Expression::Invalid" in H.render(thn)
            R.ob("match-default-arm", "a written default arm must be the last arm (otherwise a parse error)", ok2, H.render(thn)[:160], F.loc(pm))
        R.ob("match-default-arm", "without a written default arm the parser appends `_ => null`", ok, det, F.loc(pm))
    # ---- (e) VM jump arms ---------------------------------------------------------------------------------------------------------------
    arms = vm_arms(F, R)
    if arms:
        # conditional jumps: decided by C06's routing rule (path enumeration of the arm with helpers inlined, for both
        # answers of is_falsey); evaluated here as well because "exactly one branch" depends on it
        from . import c06 as _c06
        from .lib import core as _core
        R6 = _core.Report("C06")
        try:
            _c06.run(F, R6, tier)
            for o in R6.obls:
                if o.rule == "truthiness-routing" and o.key in ("JumpIfFalse", "JumpIfFalseNoPop"):
                    R.ob("vm-conditional-jump", "%s: %s the condition, jumps to the operand iff it is falsey" % (o.key, "pops" if o.key == "JumpIfFalse" else "keeps"), o.ok, o.detail, o.loc)
        except Exception as e:  # fail closed
            R.ob("vm-conditional-jump", "routing rule evaluated", False, "C06's routing rule could not be evaluated: %s" % e)
        a = arms.get("Jump")
        if R.anchor("VM arm Jump", a):
            t = H.render(a["body"])
            R.ob("vm-conditional-jump", "Jump: ip = operand, then continue", "self.current_frame().ip = (u16::from_be_bytes([bytes[0], bytes[1]]) as usize)" in t and H.diverges(a["body"]) or
                 ("self.current_frame().ip =" in t and t.rstrip().endswith("continue")), t[:160], "src/vm/interpreter.rs:%s" % a["line"])
        a = arms.get("Dup")
        if R.anchor("VM arm Dup", a):
            t = H.render(a["body"])
            R.ob("vm-dup", "Dup pushes a copy of the top of the stack", "let obj = self.peek(0); self.push(obj, line)?" in t, t[:100], "src/vm/interpreter.rs:%s" % a["line"])
        for op, sym in (("Greater", ">"), ("GreaterEq", ">=")):
            a = arms.get(op)
            if R.anchor("VM arm " + op, a):
                cl = [x for x in H.walk(a["body"]) if x.get("k") == "closure"]
                t = H.render(cl[0]["body"]) if cl else ""
                R.ob("vm-range-compare", "%s computes left %s right" % (op, sym), len(cl) == 1 and ("(a %s b)" % sym) in t, t[:80], "src/vm/interpreter.rs:%s" % a["line"])
