"""Shared driver for the panic-site audits (C01, C08, C11b, C19c, C22 use it with
different roots / function filters)."""
import re

from . import core
from . import hir as H
from . import mir as M
from . import panics as P

OPS_IMPL = re.compile(r"^<&object::Object as std::ops::(Add|Sub|Mul|Div|Rem|Neg|BitAnd|BitOr|BitXor|Shl<&object::Object>|Shr<&object::Object>)>::")


def linked_ops(F, A):
    """Linked discharge for the operator impls: their panic arms and zero divisors are
    excluded by the dispatch in VM::binary_op / bitwise_op / the Minus arm, which C09's
    rules establish.  Returns (ok, detail)."""
    from .. import c09
    R2 = core.Report("C09")
    c09.run(F, R2, "quick")
    need = ("binary-dispatch", "bitwise-dispatch", "opcode-operator", "zero-test", "unary-dispatch", "operator-primitive")
    bad = [o for o in R2.obls if not o.ok and o.rule in need + ("anchor",)]
    if bad:
        return False, "C09 rule instances fail: %s" % [(o.rule, o.key) for o in bad[:4]]
    # every arm the dispatch admits exists in every impl
    from . import objtables as T
    for p, f in F.fns.items():
        m = OPS_IMPL.match(p)
        if not m or "{closure" in p:
            continue
        op = m.group(1)
        tm = T.top_match(f)
        if tm is None:
            tm = T.top_match(f, body=H.beta(H.unlet(H.inline_helpers(F, H.body_of(f), max_size=600))))
        if tm is None:
            return False, "no match in %s" % p
        if op == "Neg":
            have = set()
            for vs, a in T.single_arms(tm):
                have |= vs
            if not {"Integer", "Float"} <= have:
                return False, "Neg lacks an arm: %s" % have
            continue
        arms = T.pair_arms(tm)
        want = [(a, b) for a in ("Integer", "Float", "Byte") for b in ("Integer", "Float", "Byte")] \
            if op in ("Add", "Sub", "Mul", "Div", "Rem") else [("Integer", "Integer")]
        for va, vb in want:
            a = T.pair_lookup([x for x in arms if x[0] not in ("*", "?")], va, vb)
            if a is None:
                return False, "%s lacks the (%s, %s) arm the dispatch admits" % (op, va, vb)
    # who-calls: the impls are only called from the closures VM::run hands to binary_op / bitwise_op, and the Minus arm
    for p in F.fns:
        if not OPS_IMPL.match(p) or "{closure" in p:
            continue
        callers = {c for c, es in A.cg.edges.items() if p in es}
        ok = all(c.startswith("vm::interpreter::VM::run") or c.startswith("vm::interpreter::VM::exec_") for c in callers)
        if not ok:
            return False, "%s is also called from %s" % (p, sorted(callers)[:3])
    return True, "dispatch of VM::binary_op/bitwise_op/Minus admits only operand kinds every operator impl handles, " \
                 "with a zero-divisor test before Div and Mod (C09 rule instances hold in this run)"


def run_audit(F, R, roots, fn_filter, label, link_ops=False, extra_roots_note=""):
    """Audit every panic-capable site in the functions reachable from `roots` that
    satisfy fn_filter(path, fn)."""
    A = P.Audit(F)
    missing = [r for r in roots if r not in F.fns]
    for r in missing:
        R.anchor(r, False)
    reach = A.cg.reachable_from([r for r in roots if r in F.fns])
    fns = sorted(p for p in reach if fn_filter(p, F.fns[p]))
    R.count("%s: functions reachable from the roots" % label, len(reach))
    R.count("%s: functions audited" % label, len(fns))
    ops_ok = None
    n = {"discharged": 0, "justified": 0, "open": 0, "linked": 0}
    cls = {}
    seen_keys = set()
    for p in fns:
        for s in A.sites_of(p):
            seen_keys.add(s.key)
            A.discharge(s)
            shared = False
            if s.verdict == "open" and link_ops and not OPS_IMPL.match(p) and s.cls in ("panic", "nonzero_arg"):
                # a dispatch helper shared by the operator impls (and called by nothing else) stands under the same linked rule
                cl, addr = A.callers_of(p)
                shared = bool(cl) and not addr and all(OPS_IMPL.match(q) for q, _ in cl)
            if s.verdict == "open" and link_ops and (OPS_IMPL.match(p) or shared) and (s.cls in ("panic", "nonzero_arg")):
                if ops_ok is None:
                    ops_ok = linked_ops(F, A)
                if ops_ok[0]:
                    s.verdict, s.reason = "linked", ops_ok[1]
                else:
                    s.reason += " — linked rule failed: " + ops_ok[1]
            n[s.verdict] += 1
            c = s.what if s.kind == "assert" else s.cls
            cls[(s.verdict, c)] = cls.get((s.verdict, c), 0) + 1
            nontrivial = not s.reason.startswith(("type rule", "constant"))
            R.ob("panic-site", s.key, s.verdict != "open",
                 ("%s: %s" % (s.verdict, s.reason))[:300], F.loc(F.fns[p], s.line), nontrivial=nontrivial)
    for c, users in sorted(A.unclassified.items()):
        users = [u for u in users if u[0] in fns]
        if users:
            R.ob("callee-classified", c, False,
                 "external callee reachable from %s is not in tables/std_callees.json (first use: %s)" % (label, users[0][0]),
                 F.loc(F.fns[users[0][0]], users[0][1]))
    for (v, c), k in sorted(cls.items()):
        R.count("%s: sites %s [%s]" % (label, v, c), k)
    R.count("%s: sites total" % label, sum(n.values()))
    return A, fns, seen_keys
