"""Helpers over the HIR expression trees dumped by p2facts."""
import re


def walk(n):
    """Pre-order over every dict node that has a kind ('k')."""
    stack = [n]
    while stack:
        x = stack.pop()
        if isinstance(x, dict):
            if "k" in x:
                yield x
            for v in reversed(list(x.values())):
                if isinstance(v, (dict, list)):
                    stack.append(v)
        elif isinstance(x, list):
            for v in reversed(x):
                if isinstance(v, (dict, list)):
                    stack.append(v)


def short(path):
    """Last two segments of a def path, generics stripped: Opcode::Jump."""
    if path is None:
        return "?"
    p = re.sub(r"<[^<>]*>", "", path)
    p = re.sub(r"<[^<>]*>", "", p)
    parts = [s for s in p.split("::") if s]
    return "::".join(parts[-2:]) if len(parts) >= 2 else p


def last(path):
    if path is None:
        return "?"
    p = re.sub(r"<[^<>]*>", "", path)
    p = re.sub(r"<[^<>]*>", "", p)
    return p.split("::")[-1]


def res_path(n):
    """Resolved path of a path node (def path or local name)."""
    if not isinstance(n, dict) or n.get("k") != "path":
        return None
    r = n["res"]
    if r["r"] == "local":
        return r["name"]
    return r.get("path")


def is_local(n, name=None):
    return isinstance(n, dict) and n.get("k") == "path" and n["res"]["r"] == "local" and (
        name is None or n["res"]["name"] == name)


def local_id(n):
    if isinstance(n, dict) and n.get("k") == "path" and n["res"]["r"] == "local":
        return n["res"]["id"]
    return None


def ctor_of(n):
    """Variant path if n is a unit-variant path or a ctor call / struct expr."""
    if not isinstance(n, dict):
        return None
    if n.get("k") == "path" and n["res"]["r"] in ("ctor", "variant", "struct"):
        return n["res"]["path"]
    if n.get("k") == "call" and "ctor" in n:
        return n["ctor"]
    if n.get("k") == "struct":
        return n["res"].get("path")
    return None


def callee(n):
    if isinstance(n, dict) and n.get("k") in ("call", "mcall", "bin", "un", "index", "assignop"):
        return n.get("callee")
    return None


def strip(n):
    """Strip borrows, derefs, casts-to-same, clones and Box::new / Rc::new wrappers."""
    while isinstance(n, dict):
        k = n.get("k")
        if k == "ref":
            n = n["e"]
        elif k == "un" and n.get("op") == "*":
            n = n["e"]
        elif k == "block" and not n.get("stmts") and n.get("expr") is not None:
            n = n["expr"]
        elif k == "mcall" and n.get("m") in ("clone", "as_ref", "as_str", "to_string", "into", "as_mut", "borrow") and not n.get("args"):
            n = n["recv"]
        elif k == "call" and last(n.get("callee") or "") == "clone" and len(n.get("args", [])) == 1 and not n.get("ctor"):
            n = n["args"][0]   # Rc::clone(&x)
        else:
            break
    return n


def untry(n):
    """inner expression of `e?` (match Try::branch(e) {..}) or n itself"""
    while isinstance(n, dict) and n.get("k") == "match" and n.get("src", "").startswith("TryDesugar"):
        sc = n["scrut"]
        if sc.get("k") == "call" and sc.get("args"):
            n = sc["args"][0]
        else:
            break
    return n


def is_try(n):
    return isinstance(n, dict) and n.get("k") == "match" and n.get("src", "").startswith("TryDesugar")


BINP = {"||": 1, "&&": 2, "==": 3, "!=": 3, "<": 3, "<=": 3, ">": 3, ">=": 3, "|": 4, "^": 5, "&": 6, "<<": 7, ">>": 7,
        "+": 8, "-": 8, "*": 9, "/": 9, "%": 9}


def render(n, depth=0):
    """Canonical compact rendering of an expression (for keys and messages)."""
    if n is None:
        return "∅"
    if isinstance(n, list):
        return ", ".join(render(x, depth) for x in n)
    if not isinstance(n, dict):
        return str(n)
    if depth > 12:
        return "…"
    k = n.get("k")
    d = depth + 1
    if k == "lit":
        v = n["v"]
        if n["lk"] == "str":
            return '"%s"' % v
        if n["lk"] == "char":
            return "'%s'" % v
        if n["lk"] == "bool":
            return "true" if v else "false"
        return str(v)
    if k == "path":
        r = n["res"]
        if r["r"] == "local":
            return r["name"]
        if r["r"] in ("static", "const"):
            return last(r.get("path"))
        return short(r.get("path") or r.get("txt"))
    if k == "call":
        if "ctor" in n:
            return "%s(%s)" % (short(n["ctor"]), render(n["args"], d))
        f = n.get("callee") or res_path(n["f"]) or render(n["f"], d)
        return "%s(%s)" % (short(f), render(n["args"], d))
    if k == "mcall":
        return "%s.%s(%s)" % (render(n["recv"], d), n["m"], render(n["args"], d))
    if k == "bin":
        return "(%s %s %s)" % (render(n["l"], d), n["op"], render(n["r"], d))
    if k == "un":
        return "%s%s" % (n["op"], render(n["e"], d))
    if k == "cast":
        return "%s as %s" % (render(n["e"], d), n.get("ty", "?"))
    if k == "field":
        return "%s.%s" % (render(n["e"], d), n["name"])
    if k == "index":
        return "%s[%s]" % (render(n["e"], d), render(n["i"], d))
    if k == "ref":
        return "&%s%s" % ("mut " if n.get("mut") else "", render(n["e"], d))
    if k == "tup":
        return "(%s)" % render(n["es"], d)
    if k == "array":
        return "[%s]" % render(n["es"], d)
    if k == "struct":
        return "%s{%s}" % (short(n["res"].get("path")), ", ".join(
            "%s: %s" % (f["name"], render(f["e"], d)) for f in n["fields"]))
    if k == "assign":
        return "%s = %s" % (render(n["l"], d), render(n["r"], d))
    if k == "assignop":
        return "%s %s %s" % (render(n["l"], d), n["op"], render(n["r"], d))
    if k == "if":
        s = "if %s {%s}" % (render(n["c"], d), render(n["t"], d))
        if "e" in n:
            s += " else {%s}" % render(n["e"], d)
        return s
    if k == "let":
        return "let %s = %s" % (render_pat(n["pat"]), render(n["init"], d))
    if k == "match" and n.get("src", "").startswith("TryDesugar"):
        return "%s?" % render(untry(n), d)
    if k == "match":
        return "match %s {%s}" % (render(n["scrut"], d), "; ".join(
            "%s => %s" % (render_pat(a["pat"]), render(a["body"], d)) for a in n["arms"]))
    if k == "block":
        parts = []
        for s in n.get("stmts", []):
            if s["k"] == "let":
                parts.append("let %s = %s" % (render_pat(s["pat"]), render(s.get("init"), d)))
            else:
                parts.append(render(s["e"], d))
        if n.get("expr") is not None:
            parts.append(render(n["expr"], d))
        return "; ".join(parts)
    if k == "ret":
        return "return %s" % render(n.get("e"), d)
    if k == "break":
        return "break"
    if k == "continue":
        return "continue"
    if k == "loop":
        return "loop {%s}" % render(n["body"], d)
    if k == "closure":
        return "|%s| %s" % (", ".join(render_pat(p) for p in n["params"]), render(n["body"], d))
    if k == "repeat":
        return "[%s; _]" % render(n["e"], d)
    return "<%s>" % k


def render_pat(p):
    if p is None:
        return "∅"
    k = p.get("k")
    if k == "wild":
        return "_"
    if k == "bind":
        s = p["name"]
        if "sub" in p:
            s += " @ " + render_pat(p["sub"])
        return s
    if k == "ts":
        return "%s(%s)" % (short(p["res"].get("path")), ", ".join(render_pat(x) for x in p["pats"]))
    if k == "struct":
        return "%s{%s}" % (short(p["res"].get("path")), ", ".join(f["name"] for f in p["fields"]))
    if k == "ppath":
        return short(p["res"].get("path"))
    if k == "plit":
        return render(p["lit"])
    if k == "or":
        return " | ".join(render_pat(x) for x in p["pats"])
    if k == "tuple":
        return "(%s)" % ", ".join(render_pat(x) for x in p["pats"])
    if k in ("ref", "deref"):
        return "&" + render_pat(p["pat"])
    if k == "range":
        return "%s..%s" % (render_pat(p["lo"]) if p.get("lo") else "", render_pat(p["hi"]) if p.get("hi") else "")
    return "<%s>" % k


def pat_variants(p):
    """Set of variant paths a pattern can match at its top level; '*' for catch-all."""
    k = p.get("k")
    if k in ("wild",):
        return {"*"}
    if k == "bind":
        return pat_variants(p["sub"]) if "sub" in p else {"*"}
    if k in ("ts", "struct"):
        return {p["res"].get("path")}
    if k == "ppath":
        return {p["res"].get("path")}
    if k == "or":
        s = set()
        for x in p["pats"]:
            s |= pat_variants(x)
        return s
    if k in ("ref", "deref"):
        return pat_variants(p["pat"])
    if k == "plit":
        return {"lit:" + render(p["lit"])}
    return {"?" + str(k)}


def body_of(fn):
    return fn["hir"]["body"] if fn and "hir" in fn else None


def stmts_flat(block):
    """Statements (and tail expr) of a block node, flattening nothing."""
    out = []
    if block is None:
        return out
    if block.get("k") != "block":
        return [block]
    for s in block.get("stmts", []):
        out.append(s)
    if block.get("expr") is not None:
        out.append({"k": "tail", "e": block["expr"]})
    return out


def find(n, pred):
    return [x for x in walk(n) if pred(x)]


def calls_to(n, rx):
    r = re.compile(rx)
    return [x for x in walk(n) if x.get("k") in ("call", "mcall") and x.get("callee") and r.search(x["callee"])]


def return_leaves(body):
    """Leaves of the value a function body evaluates to: list of (expr, guards)
    where guards is the list of (condition-expr | (scrutinee, pattern), polarity)
    enclosing the leaf.  Follows block tails, if/else, match arms and `return`."""
    out = []

    def tail(n, guards):
        if n is None:
            return
        k = n.get("k")
        if k == "block":
            for s in n.get("stmts", []):
                scan_returns(s, guards)
                # `if c { ...; return x }` without else: the rest of the block runs under !c
                e = s.get("e") if s.get("k") in ("semi", "expr") else None
                if e is not None and e.get("k") == "if" and "e" not in e and diverges(e["t"]):
                    guards = guards + [(e["c"], False)]
            if n.get("expr") is not None:
                tail(n["expr"], guards)
        elif k == "if":
            scan_returns(n["c"], guards)
            tail(n["t"], guards + [(n["c"], True)])
            if "e" in n:
                tail(n["e"], guards + [(n["c"], False)])
        elif k == "match":
            scan_returns(n["scrut"], guards)
            for a in n["arms"]:
                tail(a["body"], guards + [((n["scrut"], a["pat"]), True)])
        elif k == "ret":
            tail(n.get("e"), guards)
        else:
            scan_returns(n, guards)
            out.append((n, guards))

    def scan_returns(n, guards):
        # explicit `return e` nested in statements
        if isinstance(n, dict):
            k = n.get("k")
            if k == "ret":
                tail(n.get("e"), guards)
                return
            if k == "closure":
                return
            if k == "if":
                scan_returns(n["c"], guards)
                scan_returns(n["t"], guards + [(n["c"], True)])
                if "e" in n:
                    scan_returns(n["e"], guards + [(n["c"], False)])
                return
            if k == "match":
                scan_returns(n["scrut"], guards)
                for a in n["arms"]:
                    scan_returns(a["body"], guards + [((n["scrut"], a["pat"]), True)])
                return
            for v in n.values():
                if isinstance(v, (dict, list)):
                    scan_returns(v, guards)
        elif isinstance(n, list):
            for v in n:
                scan_returns(v, guards)

    tail(body, [])
    return out


def value_leaves(n):
    """leaf expressions an expression can evaluate to (branches that diverge are skipped)"""
    out = []

    def go(n):
        if n is None:
            return
        k = n.get("k")
        if k == "block":
            if n.get("expr") is not None:
                go(n["expr"])
        elif k == "if":
            go(n["t"])
            if "e" in n:
                go(n["e"])
        elif k == "match":
            if is_try(n):
                out.append(n)
                return
            for a in n["arms"]:
                go(a["body"])
        elif k in ("ret", "break", "continue"):
            return
        else:
            out.append(n)
    go(n)
    return out


def diverges(n):
    """block / expression that always leaves the function or loop iteration"""
    if n is None:
        return False
    k = n.get("k")
    if k in ("ret", "break", "continue"):
        return True
    if k == "block":
        if n.get("expr") is not None:
            return diverges(n["expr"])
        st = n.get("stmts", [])
        if st and st[-1].get("k") in ("semi", "expr"):
            return diverges(st[-1]["e"])
        return False
    if k == "if":
        return "e" in n and diverges(n["t"]) and diverges(n["e"])
    if k == "match":
        return bool(n["arms"]) and all(diverges(a["body"]) for a in n["arms"])
    if k == "call" and (n.get("callee") or "").startswith(("core::panicking", "std::process::exit")):
        return True
    return False


def guard_text(guards):
    parts = []
    for g, pol in guards:
        if isinstance(g, tuple):
            parts.append("%s is %s" % (render(g[0]), render_pat(g[1])))
        else:
            parts.append(("" if pol else "!") + render(g))
    return " && ".join(parts)


def assigned_fields(n):
    """(field name, base render, rhs, node) for every assignment / compound
    assignment whose target is a field projection."""
    out = []
    for x in walk(n):
        if x.get("k") in ("assign", "assignop"):
            l = x["l"]
            if l.get("k") == "field":
                out.append((l["name"], render(l["e"]), x["r"], x))
    return out


# ---------------------------------------------------------------------------------------------------------------------
# helper inlining: rules that read the *shape* of a function (an opcode arm of VM::run, a builtin's body) must see the
# same thing whether a piece of it is written in place or was extracted into a small private helper
# ---------------------------------------------------------------------------------------------------------------------
def _size(n, cap=2000):
    c = 0
    for _ in walk(n):
        c += 1
        if c > cap:
            break
    return c


def _simple_arg(a, depth=0):
    """an argument expression that can be substituted for the parameter without changing what the body computes
    (no side effects, cheap): paths, fields, constant indexes, refs/derefs, literals, as_ref/clone/borrow chains"""
    a0 = a
    if depth > 8 or not isinstance(a, dict):
        return False
    k = a.get("k")
    if k in ("path", "lit"):
        return True
    if k in ("ref", "cast"):
        return _simple_arg(a["e"], depth + 1)
    if k == "un" and a.get("op") == "*":
        return _simple_arg(a["e"], depth + 1)
    if k == "field":
        return _simple_arg(a["e"], depth + 1)
    if k == "index":
        return _simple_arg(a["e"], depth + 1) and _simple_arg(a["i"], depth + 1)
    if k == "bin" and a.get("op") in ("+", "-", "*"):
        return _simple_arg(a["l"], depth + 1) and _simple_arg(a["r"], depth + 1)
    if k == "mcall" and a.get("m") in ("clone", "as_ref", "as_str", "borrow", "as_mut", "borrow_mut", "as_slice", "deref", "current_frame") and not a.get("args"):
        return _simple_arg(a["recv"], depth + 1)
    if k == "block" and not a.get("stmts") and a.get("expr") is not None:
        return _simple_arg(a["expr"], depth + 1)
    return False


def _subst(n, env):
    """deep copy of n with local paths whose id is in env replaced by (copies of) the mapped expressions"""
    if isinstance(n, list):
        return [_subst(x, env) for x in n]
    if not isinstance(n, dict):
        return n
    if n.get("k") == "path" and n.get("res", {}).get("r") == "local" and n["res"].get("id") in env:
        return env[n["res"]["id"]]
    return {k: _subst(v, env) for k, v in n.items()}


def inline_helpers(F, body, depth=3, max_size=260, skip=(), _stack=()):
    """Copy of `body` in which every call of a function of the repository that is small (≤ max_size HIR nodes), has a
    body, takes simple arguments and is not on the current inlining stack is replaced by
        {"k": "block", "inlined": <callee path>, "stmts": [let p = arg for non-simple args], "expr": <callee body, params substituted>}
    `return e` inside an inlined body is kept as {"k": "ret", "inl": <callee path>} (it leaves the helper, not the caller)."""
    if depth <= 0:
        return body

    def go(n):
        if isinstance(n, list):
            return [go(x) for x in n]
        if not isinstance(n, dict):
            return n
        k = n.get("k")
        if k in ("call", "mcall") and n.get("callee") in F.fns and n["callee"] not in _stack and "ctor" not in n and \
                not (skip(n["callee"]) if callable(skip) else n["callee"] in skip):
            g = F.fns[n["callee"]]
            b = body_of(g)
            if b is not None and _size(b, max_size + 1) <= max_size:
                params = g["hir"]["params"]
                args = ([n["recv"]] if k == "mcall" else []) + list(n.get("args", []))
                if len(params) == len(args) and all(p.get("k") in ("bind", "wild") for p in params):
                    env, lets = {}, []
                    okp = True
                    for p, a in zip(params, args):
                        a2 = go(a)
                        if p.get("k") == "wild":
                            continue
                        if _simple_arg(a2):
                            env[p["id"]] = a2
                        else:
                            lets.append({"k": "let", "pat": p, "init": a2, "line": n.get("line")})
                    nb = _subst(b, env)
                    # returns of the helper stay inside it
                    for x in walk(nb):
                        if x.get("k") == "ret" and "inl" not in x:
                            x["inl"] = n["callee"]
                    nb = inline_helpers(F, nb, depth - 1, max_size, skip, _stack + (n["callee"],))
                    return {"k": "block", "inlined": n["callee"], "stmts": lets, "expr": nb, "ty": n.get("ty"), "line": n.get("line")}
        return {kk: go(v) for kk, v in n.items()}
    return go(body)


def matches_in(body, pred):
    """match expressions below `body` satisfying pred, with `if let PAT = SCRUT {A} else {B}` presented as the
    two-arm match it abbreviates ({PAT => A, _ => B}); `?` desugarings are skipped"""
    out = []
    for x in walk(body):
        if x.get("k") == "match" and not is_try(x) and not x.get("src", "").startswith("ForLoopDesugar"):
            if pred(x):
                out.append(x)
        elif x.get("k") == "if" and strip(x["c"]).get("k") == "let":
            c = strip(x["c"])
            m = {"k": "match", "src": "IfLet", "scrut": c["init"], "line": x.get("line"), "ty": x.get("ty"),
                 "arms": [{"pat": c["pat"], "body": x["t"], "line": x.get("line")},
                          {"pat": {"k": "wild"}, "body": x.get("e") or {"k": "block", "stmts": [], "expr": None}, "line": x.get("line")}]}
            if pred(m):
                out.append(m)
    return out


# ---------------------------------------------------------------------------------------------------------------------
# path enumeration: the feasible paths through a (helper-inlined) body under an oracle that decides some conditions
# ---------------------------------------------------------------------------------------------------------------------
def _pat_decides(pat, val):
    """does a value known by its constructor ("ctor", name) match the pattern: True / False / None (depends on more)"""
    if pat is None:
        return None
    while pat.get("k") in ("ref", "deref"):
        pat = pat["pat"]
    k = pat.get("k")
    if k == "wild" or (k == "bind" and "sub" not in pat):
        return True
    if k == "or":
        rs = [_pat_decides(q, val) for q in pat["pats"]]
        if any(r is True for r in rs):
            return True
        return False if all(r is False for r in rs) else None
    if k in ("ts", "struct", "ppath"):
        name = last(pat["res"].get("path") or "")
        if name not in ("Ok", "Err", "Some", "None"):
            return None
        if name != val[1]:
            return False
        subs = pat.get("pats") or [f_.get("pat") for f_ in pat.get("fields", [])]
        return True if all(q is not None and (q.get("k") == "wild" or (q.get("k") == "bind" and "sub" not in q)) for q in subs) else None
    return None


def paths(body, oracle, limit=400, arm_oracle=None, decisions=False):
    """Enumerate control paths through `body`.  oracle(cond_node) → True / False / None (unknown: both branches).
    Each path is (events, exit) with events a list of
        ("assign", lhs_text, rhs_node) | ("assignop", lhs_text, op, rhs_node) | ("call", callee_or_method, node)
    and exit one of "fall" | "continue" | "break" | "ret" (a `return` of the function itself, not of an inlined helper).
    Inlined helper blocks (see inline_helpers) are entered; their `return e` ends the helper with value e.
    Values are tracked only as far as boolean literals go (a helper returning true/false drives the caller's `if`)."""
    out = []

    class _Stop(Exception):
        pass

    def ev(n, evs, k):
        """evaluate node n, then call k(value, evs) for every continuation; value: True/False/None"""
        if len(out) > limit:
            raise _Stop()
        if n is None:
            return k(None, evs)
        kind = n.get("k")
        if kind == "block":
            inl = n.get("inlined")
            stmts = list(n.get("stmts", []))

            def run(i, evs2):
                if i < len(stmts):
                    st = stmts[i]
                    e = st.get("init") if st.get("k") == "let" else st.get("e")
                    if e is None:
                        return run(i + 1, evs2)
                    if st.get("k") == "let" and st.get("pat", {}).get("k") == "bind":
                        # a boolean given a name keeps its value along the path (`let taken = c.is_falsey(); if taken {..}; taken`)
                        bid = st["pat"]["id"]
                        return ev(e, evs2, lambda v, e3: run(i + 1, e3 + [("bind", bid, v)] if v is not None else e3))
                    return ev(e, evs2, lambda v, e3: run(i + 1, e3))
                if n.get("expr") is not None:
                    return ev(n["expr"], evs2, k)
                return k(None, evs2)
            if inl:
                # returns of the helper come back here
                def kret(v, e3):
                    return k(v, e3)
                saved = ev.ret_k
                ev.ret_k = ev.ret_k + [(inl, kret)]
                try:
                    return run(0, evs)
                finally:
                    ev.ret_k = saved
            return run(0, evs)
        if kind == "lit" and n.get("lk") == "bool":
            return k(bool(n["v"]), evs)
        if decisions and kind == "path" and n.get("res", {}).get("r") == "ctor" and last(n["res"].get("path") or "") == "None":
            return k(("ctor", "None"), evs)
        if kind == "path" and n.get("res", {}).get("r") == "local":
            for e_ in reversed(evs):
                if e_[0] == "bind" and e_[1] == n["res"].get("id"):
                    return k(e_[2], evs)
            return k(None, evs)
        if kind == "if":
            c = n["c"]

            def after_cond(v, e2):
                o = oracle(c)
                if o is None:
                    o = v
                if isinstance(o, tuple) and strip(c).get("k") == "let":
                    o = _pat_decides(strip(c).get("pat"), o)
                if not isinstance(o, bool):
                    o = None
                dt = [("if", n, True)] if decisions else []
                df = [("if", n, False)] if decisions else []
                if o is None or o is True:
                    ev(n["t"], e2 + dt, k)
                if o is None or o is False:
                    if n.get("e") is not None:
                        ev(n["e"], e2 + df, k)
                    else:
                        k(None, e2 + df)
            if strip(c).get("k") == "let":
                if decisions:
                    # the scrutinee of `if let` is evaluated (and its calls happen) before the branch is chosen
                    return ev(strip(c).get("init"), evs, lambda v, e2: after_cond(v if isinstance(v, tuple) else None, e2))
                return after_cond(None, evs)
            return ev(c, evs, after_cond)
        if kind == "match":
            if is_try(n):
                inner = n["scrut"]["args"][0]
                return ev(inner, evs, lambda v, e2: k(None, e2))
            def after_scrut(v, e2):
                if arm_oracle is not None:
                    pick = arm_oracle(n)
                    if pick is not None:
                        # pick: list of arm indexes that may be taken, in order (guards decide among them)
                        for i_ in pick:
                            a = n["arms"][i_]
                            if a.get("guard") is not None:
                                go_ = oracle(a["guard"])
                                if go_ is False:
                                    continue
                                ev(a["body"], e2, k)
                                if go_ is True:
                                    return
                            else:
                                ev(a["body"], e2, k)
                                return
                        return
                for ai_, a in enumerate(n["arms"]):
                    lit = a["pat"].get("lit", {}).get("v") if a["pat"].get("k") == "plit" else None
                    if v is not None and lit is not None and lit != v:
                        continue
                    if isinstance(v, tuple):
                        dec_ = _pat_decides(a["pat"], v)
                        if dec_ is False:
                            continue
                        ev(a["body"], e2 + ([("arm", n, ai_)] if decisions else []), k)
                        if dec_ is True and a.get("guard") is None:
                            break
                        continue
                    ev(a["body"], e2 + ([("arm", n, ai_)] if decisions else []), k)
                    if v is not None and (lit == v or a["pat"].get("k") in ("wild", "bind")):
                        break
            return ev(n["scrut"], evs, after_scrut)
        if kind == "ret":
            if n.get("inl") and ev.ret_k and ev.ret_k[-1][0] == n["inl"]:
                kk = ev.ret_k[-1][1]
                saved = ev.ret_k
                ev.ret_k = ev.ret_k[:-1]
                try:
                    return ev(n.get("e"), evs, lambda v, e2: kk(v, e2))
                finally:
                    ev.ret_k = saved
            return ev(n.get("e"), evs, lambda v, e2: out.append((e2, "ret")))
        if kind == "loop":
            # one iteration: `break` (and the end of the iteration) continue behind the loop
            saved = ev.break_k
            ev.break_k = ev.break_k + [k]
            try:
                return ev(n.get("body"), evs, lambda v, e2: k(None, e2 + [("loop-again", None, n)]))
            finally:
                ev.break_k = saved
        if kind == "continue":
            if ev.break_k:
                return ev.break_k[-1](None, evs + [("loop-again", None, n)])
            out.append((evs, "continue"))
            return
        if kind == "break":
            if ev.break_k:
                return ev.break_k[-1](None, evs)
            out.append((evs, "break"))
            return
        if kind == "assign":
            return ev(n["r"], evs, lambda v, e2: k(None, e2 + [("assign", render(n["l"]), n["r"])]))
        if kind == "assignop":
            return ev(n["r"], evs, lambda v, e2: k(None, e2 + [("assignop", render(n["l"]), n.get("op"), n["r"])]))
        if kind == "un" and n.get("op") == "!":
            return ev(n["e"], evs, lambda v, e2: k((not v) if isinstance(v, bool) else None, e2))
        if kind in ("call", "mcall"):
            subs = ([n["recv"]] if kind == "mcall" else []) + list(n.get("args", []))

            def runargs(i, e2):
                if i < len(subs):
                    return ev(subs[i], e2, lambda v, e3: runargs(i + 1, e3))
                o = oracle(n)
                if decisions and kind == "call" and n.get("ctor") and last(n["ctor"]) in ("Ok", "Err", "Some"):
                    # the value built is known by its constructor: a later `if let Err(e) = v` / `match v` on it is decided
                    return k(("ctor", last(n["ctor"])), e2)
                return k(o, e2 + [("call", n.get("callee") or n.get("m"), n)])
            return runargs(0, evs)
        if kind in ("ref", "cast", "field", "index"):
            sub = n.get("e")
            return ev(sub, evs, lambda v, e2: k(v if kind == "ref" else None, e2))
        if kind == "let":      # `let` used as a condition
            return ev(n.get("init"), evs, lambda v, e2: k(None, e2))
        if kind == "bin":
            return ev(n["l"], evs, lambda v, e2: ev(n["r"], e2, lambda v2, e3: k(None, e3)))
        if kind == "closure":
            return k(None, evs)
        # anything else: visit sub-expressions in order
        subs = [v for v in n.values() if isinstance(v, dict) and "k" in v] + [x for v in n.values() if isinstance(v, list) for x in v if isinstance(x, dict) and "k" in x]

        def runsubs(i, e2):
            if i < len(subs):
                return ev(subs[i], e2, lambda v, e3: runsubs(i + 1, e3))
            return k(None, e2)
        return runsubs(0, evs)
    ev.ret_k = []
    ev.break_k = []
    try:
        ev(body, [], lambda v, e2: out.append((e2, "fall")))
    except _Stop:
        out.append(([], "limit"))
    return out


def body_inl(F, fn, keep=(), max_size=400, depth=3):
    """Body of `fn` with its small helpers read in place, except the functions a rule itself looks for: `keep` lists
    their (last-segment) names or full paths.  A rule that scans one function for calls / tests / assignments thereby
    sees the same program whether a fragment is written in place or was moved into a private helper."""
    b = body_of(fn)
    if b is None:
        return None
    keep = set(keep)
    # trait-impl methods (derived Clone / From / Display ..) are not "helpers": they stay calls
    return inline_helpers(F, b, depth=depth, max_size=max_size, skip=lambda c: c in keep or last(c) in keep or c.startswith("<") or "::<impl " in c and " for " in c)


# ---- small boolean functions as truth tables ---------------------------------------------------------------------------
def bool_expr(n):
    """("lit", b) | ("atom", text) | ("not", e) | ("and", a, b) | ("or", a, b) of a condition; emptiness tests are normalised to
    one atom (`x.len() == 0`, `x.len() > 0`, `x.len() != 0`, `x.len() >= 1` are `x.is_empty()` / its negation)"""
    n = strip(n) if isinstance(n, dict) else n
    k = n.get("k")
    if k == "lit" and n.get("lk") == "bool":
        return ("lit", bool(n["v"]))
    if k == "un" and n.get("op") == "!":
        return ("not", bool_expr(n["e"]))
    if k == "bin" and n["op"] in ("&&", "||"):
        return ("and" if n["op"] == "&&" else "or", bool_expr(n["l"]), bool_expr(n["r"]))
    if k == "bin" and n["op"] in ("==", "!=", ">", ">=", "<", "<="):
        l, r = strip(n["l"]), strip(n["r"])
        op = n["op"]
        if l.get("k") == "lit" and r.get("k") != "lit":
            l, r = r, l
            op = {"<": ">", ">": "<", "<=": ">=", ">=": "<="}.get(op, op)
        if l.get("k") == "mcall" and l["m"] in ("len", "count") and not l.get("args") and r.get("k") == "lit" and r.get("lk") == "int":
            em = ("atom", render(strip(l["recv"])) + ".is_empty()")
            v = r["v"]
            if (op, v) in (("==", 0), ("<", 1), ("<=", 0)):
                return em
            if (op, v) in (("!=", 0), (">", 0), (">=", 1)):
                return ("not", em)
        if l.get("k") == "lit" and l.get("lk") == "bool" or r.get("k") == "lit" and r.get("lk") == "bool":
            b, x = (l, r) if l.get("k") == "lit" else (r, l)
            e = bool_expr(x)
            return e if (bool(b["v"]) == (op == "==")) else ("not", e)
    if k == "mcall" and n["m"] == "is_empty" and not n.get("args"):
        return ("atom", render(strip(n["recv"])) + ".is_empty()")
    if k in ("call", "mcall") and n.get("args") is not None:
        # calls are atoms up to borrows of their arguments
        c = last(n.get("callee") or n.get("m") or "")
        a = ([n["recv"]] if k == "mcall" else []) + list(n.get("args", []))
        return ("atom", "%s(%s)" % (c, ", ".join(render(strip(x)) for x in a)))
    return ("atom", render(n))


def bool_atoms(e, out=None):
    out = set() if out is None else out
    if e[0] == "atom":
        out.add(e[1])
    for x in e[1:]:
        if isinstance(x, tuple):
            bool_atoms(x, out)
    return out


def bool_eval(e, env):
    t = e[0]
    if t == "lit":
        return e[1]
    if t == "atom":
        return env[e[1]]
    if t == "not":
        return not bool_eval(e[1], env)
    if t == "and":
        return bool_eval(e[1], env) and bool_eval(e[2], env)
    return bool_eval(e[1], env) or bool_eval(e[2], env)


def bool_table(F, fn, classify=None):
    """truth table of a small function (helpers inlined) whose result depends on boolean conditions only:
    (atoms, {frozenset(true atoms): leaf}) with leaf = classify(expr) (default: the boolean value of the leaf under the
    assignment); None when a guard is a pattern test or more than 6 atoms are involved"""
    body = body_of(fn)
    leaves = return_leaves(body)
    rows = []
    atoms = set()
    for e, gs in leaves:
        conds = []
        for g, pol in gs:
            if isinstance(g, tuple):
                return None
            be = bool_expr(g)
            conds.append(be if pol else ("not", be))
            bool_atoms(be, atoms)
        val = classify(e) if classify else bool_expr(e)
        if not classify:
            bool_atoms(val, atoms)
        rows.append((conds, val))
    atoms = sorted(atoms)
    if len(atoms) > 6:
        return None
    table = {}
    for m in range(1 << len(atoms)):
        env = {a: bool(m >> i & 1) for i, a in enumerate(atoms)}
        res = None
        for conds, val in rows:
            if all(bool_eval(c, env) for c in conds):
                res = val if classify else bool_eval(val, env)
                break
        table[frozenset(a for a in atoms if env[a])] = res
    return atoms, table


def bool_fn_is(F, fn, atom_rx, negated=False):
    """the function's result is exactly the truth (or the negation) of its single atom, whose text matches atom_rx"""
    import re as _re
    t = bool_table(F, fn)
    if t is None:
        return False, "not a function of boolean conditions"
    atoms, table = t
    if len(atoms) != 1 or not _re.search(atom_rx, atoms[0]):
        return False, "depends on %s" % atoms
    a = atoms[0]
    ok = table[frozenset([a])] == (not negated) and table[frozenset()] == negated
    return ok, "result is %s%s" % ("" if table[frozenset([a])] else "!", a)


def _has_explicit_exit(n):
    """a `return` / `break` / `continue` written in n (the early exit of `?` does not count)"""
    if isinstance(n, list):
        return any(_has_explicit_exit(x) for x in n)
    if not isinstance(n, dict):
        return False
    if is_try(n):
        return _has_explicit_exit(untry(n))
    if n.get("k") == "closure":
        return False
    if n.get("k") in ("ret", "break", "continue"):
        return True
    return any(_has_explicit_exit(v) for v in n.values() if isinstance(v, (dict, list)))


def _reads_mutated(init, mut):
    """does the initialiser read a local that is assigned or mutably borrowed somewhere in the function?  Its value at the
    `let` may differ from its value where the name is used (`let n = v.len(); v.clear(); .. n ..`), so the name is kept"""
    if not mut:
        return False
    for x in walk(init):
        if x.get("k") == "path" and x.get("res", {}).get("r") == "local" and x["res"].get("id") in mut:
            return True
    return False


def unlet(n, env=None, _mut=None):
    """copy of n in which immutable single-assignment locals (`let x = e;`) are replaced by their initialisers and the `let`
    removed — a normal form for data-flow rules that should not depend on which intermediate values were given names.
    Not order-preserving: use only where the rule does not depend on the evaluation order of the initialisers."""
    if _mut is None:
        _mut = set()
        for x in walk(n):
            if x.get("k") in ("assign", "assignop"):
                lid = local_id(strip(x["l"]))
                if lid is not None:
                    _mut.add(lid)
            if x.get("k") == "ref" and x.get("mut"):
                lid = local_id(strip(x["e"]))
                if lid is not None:
                    _mut.add(lid)
    env = env or {}
    if isinstance(n, list):
        return [unlet(x, env, _mut) for x in n]
    if not isinstance(n, dict):
        return n
    if n.get("k") == "path" and n.get("res", {}).get("r") == "local" and n["res"].get("id") in env:
        return env[n["res"]["id"]]
    if n.get("k") == "block":
        env2 = dict(env)
        stmts = []
        for st in n.get("stmts", []):
            pat = st.get("pat", {}) if st.get("k") == "let" else {}
            if st.get("k") == "let" and pat.get("k") == "bind" and "sub" not in pat and st.get("init") is not None and st.get("els") is None \
                    and "Mut" not in str(pat.get("mode", "")) and pat["id"] not in _mut \
                    and not _has_explicit_exit(st["init"]) \
                    and not _reads_mutated(st["init"], _mut):
                env2[pat["id"]] = unlet(st["init"], env2, _mut)
                continue
            stmts.append(unlet(st, env2, _mut))
        out = dict(n)
        out["stmts"] = stmts
        if n.get("expr") is not None:
            out["expr"] = unlet(n["expr"], env2, _mut)
        return out
    return {k: unlet(v, env, _mut) for k, v in n.items()}


def beta(n, env=None):
    """copy of n with calls of closures reduced (`(|a, b| a + b)(x, y)` becomes `x + y`, also when the closure was first bound
    to an immutable local: `let f = |c| ..; f(self)`) and calls through a path to an inherent integer method written as a
    function value (`i64::wrapping_add(a, b)`) rewritten as the method call `a.wrapping_add(b)` — used after inline_helpers
    so that an operation handed to a shared helper as a closure or function value reads like the operation written in place"""
    import re as _re
    env = env or {}
    if isinstance(n, list):
        return [beta(x, env) for x in n]
    if not isinstance(n, dict):
        return n
    if n.get("k") == "block":
        env2 = dict(env)
        stmts = []
        for st in n.get("stmts", []):
            st2 = beta(st, env2)
            pat = st2.get("pat", {}) if st2.get("k") == "let" else {}
            if pat.get("k") == "bind" and st2.get("init") is not None and strip(st2["init"]).get("k") == "closure" and (
                    "Mut" not in str(pat.get("mode", "")) or
                    # `mut emit: F` with F: FnMut is mutable only to be called; it still names this one closure unless it is assigned
                    not any(x.get("k") == "assign" and local_id(strip(x["l"])) == pat["id"] for x in walk(n))):
                env2[pat["id"]] = strip(st2["init"])
            stmts.append(st2)
        out = dict(n)
        out["stmts"] = stmts
        if n.get("expr") is not None:
            out["expr"] = beta(n["expr"], env2)
        return out
    n = {k: beta(v, env) for k, v in n.items()}
    if n.get("k") == "call" and isinstance(n.get("f"), dict):
        f = strip(n["f"])
        if local_id(f) in env:
            f = env[local_id(f)]
        args = n.get("args", [])
        if f.get("k") == "closure" and len(f.get("params", [])) == len(args) and all(p.get("k") == "bind" and "sub" not in p for p in f["params"]):
            sub = {p["id"]: a for p, a in zip(f["params"], args)}
            return beta(_subst(f["body"], sub), env)
        path = (f.get("res", {}) or {}).get("path") or n.get("callee") or ""
        if f.get("k") == "path" and (f.get("res", {}) or {}).get("r") in ("fn", "assoc_fn", "method", "def") and not n.get("callee") and path:
            # a function item that reached the call position by substitution (`stream()` with stream = io::stdout)
            n = dict(n)
            n["callee"] = path
            n["f"] = f
        m = _re.match(r"^core::num::<impl ([iu](?:8|16|32|64|128|size))>::(\w+)$", path)
        if m and f.get("k") == "path" and args:
            return {"k": "mcall", "m": m.group(2), "recv": args[0], "args": args[1:], "callee": path, "recv_ty": m.group(1), "ty": n.get("ty"), "line": n.get("line")}
    return n


def specialise(n, lid, variant):
    """copy of n under the assumption that the local `lid` holds the unit enum variant `variant` (last path segment):
    `match <local> {..}` is replaced by the arm taken, `<local> == Enum::V` / `!=` and `matches!(<local>, ..)` by their truth value,
    an `if` on a decided condition by the branch taken.  Used to read an or-pattern arm `A | B => { .. match op { A => x, _ => y } .. }`
    as the two arms it stands for."""
    if isinstance(n, list):
        return [specialise(x, lid, variant) for x in n]
    if not isinstance(n, dict):
        return n
    k = n.get("k")
    if k == "match" and not is_try(n) and local_id(strip(n["scrut"])) == lid:
        for a in n["arms"]:
            vs = {last(v) for v in pat_variants(a["pat"])}
            if variant in vs or "*" in vs:
                if a.get("guard") is not None:
                    break
                return specialise(a["body"], lid, variant)
    if k == "if" and n["c"].get("k") == "let" and local_id(strip(n["c"].get("init") or {})) == lid and n["c"].get("pat") is not None:
        # `if let Some(v) = <local> { .. } else { .. }`
        vs = {last(v) for v in pat_variants(n["c"]["pat"]) if v}
        if vs:
            if variant in vs or "*" in vs:
                return specialise(n["t"], lid, variant)
            return specialise(n["e"], lid, variant) if n.get("e") is not None else {"k": "block", "stmts": [], "expr": None}
    n2 = {kk: specialise(v, lid, variant) for kk, v in n.items()}
    if k == "bin" and n2["op"] in ("==", "!="):
        for a, b in ((n2["l"], n2["r"]), (n2["r"], n2["l"])):
            if local_id(strip(a)) == lid:
                c = ctor_of(strip(b))
                if c:
                    return {"k": "lit", "lk": "bool", "v": (last(c) == variant) == (n2["op"] == "=="), "ty": "bool"}
    if k == "un" and n2.get("op") == "!" and strip(n2["e"]).get("k") == "lit" and strip(n2["e"]).get("lk") == "bool":
        return {"k": "lit", "lk": "bool", "v": not strip(n2["e"])["v"], "ty": "bool"}
    if k == "bin" and n2["op"] in ("&&", "||"):
        l, r = strip(n2["l"]), strip(n2["r"])
        for a, b in ((l, n2["r"]), (r, n2["l"])):
            if a.get("k") == "lit" and a.get("lk") == "bool":
                if n2["op"] == "&&":
                    return b if a["v"] else {"k": "lit", "lk": "bool", "v": False, "ty": "bool"}
                return {"k": "lit", "lk": "bool", "v": True, "ty": "bool"} if a["v"] else b
    if k == "if":
        c = strip(n2["c"])
        if c.get("k") == "lit" and c.get("lk") == "bool":
            if c["v"]:
                return n2["t"]
            return n2["e"] if n2.get("e") is not None else {"k": "block", "stmts": [], "expr": None}
    return n2


def split_tuple_lets(n):
    """copy of n in which `let (a, b) = (x, y);` is written as `let a = x; let b = y;`"""
    if isinstance(n, list):
        return [split_tuple_lets(x) for x in n]
    if not isinstance(n, dict):
        return n
    n2 = {k: split_tuple_lets(v) for k, v in n.items()}
    if n2.get("k") == "block":
        out = []
        for st in n2.get("stmts", []):
            pat = st.get("pat", {}) if st.get("k") == "let" else {}
            init = strip(st["init"]) if st.get("k") == "let" and st.get("init") is not None else {}
            # `let (a, b) = { s1; s2; (x, y) }` (what reading a helper in place leaves): the statements come first
            hoisted = []
            blk = st.get("init") if st.get("k") == "let" else None
            while pat.get("k") == "tuple" and isinstance(blk, dict) and blk.get("k") == "block" and blk.get("expr") is not None and \
                    not any(x.get("k") == "ret" and x.get("inl") == blk.get("inlined") and blk.get("inlined") for x in walk(blk)):
                hoisted += list(blk.get("stmts", []))
                blk = blk["expr"]
            if hoisted and isinstance(blk, dict) and strip(blk).get("k") == "tup":
                out += hoisted
                init = strip(blk)
            if pat.get("k") == "tuple" and init.get("k") == "tup" and len(pat["pats"]) == len(init.get("es", [])) and all(p.get("k") in ("bind", "wild") for p in pat["pats"]):
                for p, e in zip(pat["pats"], init["es"]):
                    if p.get("k") == "bind":
                        out.append({"k": "let", "pat": p, "init": e, "line": st.get("line")})
                    else:
                        out.append({"k": "semi", "e": e})
            else:
                out.append(st)
        n2["stmts"] = out
    return n2


def untry_inlined(n):
    """copy of n in which `helper(..)?`, with the helper read in place and ending in `Ok(v)`, is the helper's statements
    followed by v: the helper's own `?` and `return Err(..)` leave the enclosing function just as the outer `?` would have
    made them do (the error value passes through From either way), and its success value is what the `?` unwraps"""
    if isinstance(n, list):
        return [untry_inlined(x) for x in n]
    if not isinstance(n, dict):
        return n
    n2 = {k: untry_inlined(v) for k, v in n.items()}
    if not is_try(n2):
        return n2
    sc = n2["scrut"]
    inner = sc["args"][0] if sc.get("k") == "call" and sc.get("args") else None
    if not (isinstance(inner, dict) and inner.get("k") == "block" and inner.get("inlined")):
        return n2
    # the helper body is the block's expression (itself a block, as a rule)
    body = inner.get("expr")
    stmts = list(inner.get("stmts", []))
    while isinstance(body, dict) and body.get("k") == "block" and body.get("expr") is not None:
        stmts += list(body.get("stmts", []))
        body = body["expr"]
    tail = strip(body) if isinstance(body, dict) else {}
    if not (tail.get("k") == "call" and last(tail.get("ctor") or "") == "Ok" and len(tail.get("args", [])) == 1):
        return n2
    tag = inner["inlined"]

    def retarget(x):
        # an explicit `return e` of the helper: returns e from the enclosing function (only Err(..) values qualify)
        if isinstance(x, list):
            return [retarget(y) for y in x]
        if not isinstance(x, dict):
            return x
        y = {k: retarget(v) for k, v in x.items()}
        if y.get("k") == "ret" and y.get("inl") == tag:
            y.pop("inl", None)
        return y
    rets = [x for st in stmts for x in walk(st) if x.get("k") == "ret" and x.get("inl") == tag]
    for r in rets:
        e = strip(r.get("e") or {})
        is_err = e.get("k") == "call" and last(e.get("ctor") or "") == "Err"
        is_prop = e.get("k") == "call" and last(e.get("callee") or "") == "from_residual"
        if not (is_err or is_prop):
            return n2
    return {"k": "block", "stmts": retarget(stmts), "expr": tail["args"][0], "ty": n2.get("ty"), "line": n2.get("line")}


def normal(F, node, keep=(), max_size=400):
    """the normal form most data-flow rules read: helpers of the repository inlined (except those named in `keep`), closures
    and function values handed to helpers applied, named single-assignment intermediates substituted, `let (a, b) = (x, y)`
    split"""
    skip = (lambda c: last(c) in keep) if keep else ()
    return desugar_combinators(beta(unlet(split_tuple_lets(untry_inlined(inline_helpers(F, node, max_size=max_size, skip=skip))))))


def replace_nodes(n, by_id):
    """copy of n with the nodes whose id() is a key of by_id replaced by the mapped nodes"""
    if isinstance(n, list):
        return [replace_nodes(x, by_id) for x in n]
    if not isinstance(n, dict):
        return n
    if id(n) in by_id:
        return by_id[id(n)]
    return {k: replace_nodes(v, by_id) for k, v in n.items()}


def specialise_value(n, lid, val):
    """n as it runs when the local `lid` holds the string / integer `val`: comparisons of the local with literals are
    decided, a match on it is replaced by the arm taken, conditions that became constant select their branch, and what
    follows a statement that always leaves is dropped.  Everything that does not depend on the local stays as it is."""
    def is_it(e):
        e = strip(e)
        return is_local(e) and local_id(e) == lid

    def lit_of(e):
        e = strip(e)
        return (True, e.get("v")) if e.get("k") == "lit" and e.get("lk") in ("str", "int", "char") else (False, None)

    def blit(b, like):
        return {"k": "lit", "lk": "bool", "v": bool(b), "ty": "bool", "line": like.get("line")}

    def isb(x):
        x = strip(x) if isinstance(x, dict) else x
        return isinstance(x, dict) and x.get("k") == "lit" and x.get("lk") == "bool"

    def pat_ok(p):
        k = p.get("k")
        if k in ("wild",) or (k == "bind" and "sub" not in p):
            return True
        if k == "or":
            rs = [pat_ok(q) for q in p["pats"]]
            return None if any(r is None for r in rs) else any(rs)
        if k == "plit":
            ok, v = lit_of(p["lit"])
            return (v == val) if ok else None
        if k in ("ref", "deref"):
            return pat_ok(p["pat"])
        return None

    def go(x):
        if isinstance(x, list):
            return [go(y) for y in x]
        if not isinstance(x, dict):
            return x
        k = x.get("k")
        if k == "bin" and x.get("op") in ("==", "!="):
            for a, b in ((x["l"], x["r"]), (x["r"], x["l"])):
                ok, v = lit_of(b)
                if ok and is_it(a):
                    return blit((v == val) == (x["op"] == "=="), x)
        if k == "match" and not is_try(x) and is_it(x["scrut"]):
            for a in x["arms"]:
                r = pat_ok(a["pat"])
                if r is None or a.get("guard") is not None:
                    break
                if r:
                    return go(a["body"])
        if k == "un" and x.get("op") == "!":
            e = go(x["e"])
            if isb(e):
                return blit(not strip(e)["v"], x)
            return dict(x, e=e)
        if k == "bin" and x.get("op") in ("&&", "||"):
            l, r = go(x["l"]), go(x["r"])
            if isb(l):
                lv = strip(l)["v"]
                if x["op"] == "&&":
                    return r if lv else blit(False, x)
                return blit(True, x) if lv else r
            if isb(r) and ((x["op"] == "&&" and strip(r)["v"]) or (x["op"] == "||" and not strip(r)["v"])):
                return l
            return dict(x, l=l, r=r)
        if k == "if":
            c = go(x["c"])
            if isb(c):
                if strip(c)["v"]:
                    return go(x["t"])
                return go(x["e"]) if x.get("e") is not None else {"k": "block", "stmts": [], "expr": None, "line": x.get("line")}
            out = dict(x, c=c, t=go(x["t"]))
            if x.get("e") is not None:
                out["e"] = go(x["e"])
            return out
        if k == "block":
            st = []
            for s_ in x.get("stmts", []):
                s2 = go(s_)
                st.append(s2)
                e_ = s2.get("e") if s2.get("k") in ("semi", "expr") else (s2.get("init") if s2.get("k") == "let" and "else" not in s2 else None)
                if e_ is not None and diverges(e_):
                    return dict(x, stmts=st, expr=None)
            return dict(x, stmts=st, expr=go(x.get("expr")) if x.get("expr") is not None else None)
        return {kk: (go(v) if isinstance(v, (dict, list)) else v) for kk, v in x.items()}
    return go(n)


_FRESH = [0]


def desugar_combinators(n):
    """copy of n in which the Result / Option combinators taking a closure literal are written as the match they perform:
        r.and_then(|x| e)  ≡  match r { Ok(x) => e,      Err(e0) => Err(e0) }
        r.map(|x| e)       ≡  match r { Ok(x) => Ok(e),  Err(e0) => Err(e0) }
        r.map_err(|x| e)   ≡  match r { Ok(v0) => Ok(v0), Err(x) => Err(e) }
        o.and_then / o.map ≡  the same over Some / None;  o.ok_or_else(|| e), r/o.unwrap_or_else(|x| e) likewise
    so that a rule reading matches, arms and the calls inside them reads these as well."""
    if isinstance(n, list):
        return [desugar_combinators(x) for x in n]
    if not isinstance(n, dict):
        return n
    n2 = {k: desugar_combinators(v) for k, v in n.items()}
    if n2.get("k") != "mcall" or n2.get("m") not in ("and_then", "map", "map_err", "unwrap_or_else", "ok_or_else", "or_else") or len(n2.get("args", [])) != 1:
        return n2
    cl = n2["args"][0]
    while cl.get("k") == "block" and not cl.get("stmts") and cl.get("expr") is not None:
        cl = cl["expr"]
    cal = n2.get("callee") or n2.get("decl") or ""
    kind = "result" if cal.startswith("std::result::Result::") else ("option" if cal.startswith("std::option::Option::") else None)
    if cl.get("k") != "closure" or kind is None or len(cl.get("params", [])) > 1:
        return n2
    line, ty, rty = n2.get("line"), n2.get("ty"), n2.get("recv_ty") or n2["recv"].get("ty")
    yes, no = ("Ok", "Err") if kind == "result" else ("Some", "None")

    def ctor(name, arg, ty_):
        path = "std::prelude::v1::" + name
        if arg is None:
            return {"k": "path", "res": {"r": "ctor", "path": path}, "ty": ty_, "line": line}
        return {"k": "call", "ctor": path, "f": {"k": "path", "res": {"r": "ctor", "path": path}, "line": line}, "args": [arg], "ty": ty_, "line": line}

    def fresh(nm):
        _FRESH[0] += 1
        i = "ds.%d" % _FRESH[0]
        return {"k": "bind", "name": nm, "id": i, "mode": "BindingMode(No, Not)"}, {"k": "path", "res": {"r": "local", "name": nm, "id": i}, "line": line}

    def pat(name, sub):
        if sub is None:
            return {"k": "ppath", "res": {"r": "ctor", "path": "std::prelude::v1::" + name}}
        return {"k": "ts", "res": {"r": "ctor", "path": "std::prelude::v1::" + name}, "pats": [sub]}
    cp = cl["params"][0] if cl.get("params") else {"k": "wild"}
    body = cl["body"]
    m = n2["m"]
    pb, pv = fresh("v0")
    if m in ("and_then", "map"):
        taken = pat(yes, cp), (body if m == "and_then" else ctor(yes, body, ty))
        other = (pat(no, pb), ctor(no, pv, ty)) if kind == "result" else (pat(no, None), ctor(no, None, ty))
        arms = [taken, other]
    elif m == "map_err" and kind == "result":
        arms = [(pat("Ok", pb), ctor("Ok", pv, ty)), (pat("Err", cp), ctor("Err", body, ty))]
    elif m == "unwrap_or_else":
        arms = [(pat(yes, pb), pv), ((pat(no, cp) if kind == "result" else pat(no, None)), body)]
    elif m == "ok_or_else" and kind == "option":
        arms = [(pat("Some", pb), ctor("Ok", pv, ty)), (pat("None", None), ctor("Err", body, ty))]
    elif m == "or_else":
        arms = [(pat(yes, pb), ctor(yes, pv, ty)), ((pat(no, cp) if kind == "result" else pat(no, None)), body)]
    else:
        return n2
    return {"k": "match", "scrut": n2["recv"], "arms": [{"pat": p_, "body": b_, "line": line} for p_, b_ in arms], "src": "Normal", "ty": ty, "line": line,
            "desugared": m}
