"""Runs the emission verifier (E5) over the compiler and turns its results into
rule instances.  Shared by C02, C05 and C07 (each claims the rules that are
necessary conditions of its own statement)."""
from . import hir as H
from . import e5
from .e5 import Engine, St, Unsupported
from .vmeffects import Lin, opcode_effects

C = "compiler::Compiler::"
EXPR_TY = "parser::ast::expr::Expression"
STMT_TY = "parser::ast::stmt::Statement"

# expression classes: what an arm must do to the height (derivation: an expression statement is
# `expression; Pop` and must be neutral, so a value-producing expression is +1; `target = value` is
# value(+1) then target and must itself be +1, so a target is 0; `obj.prop` is obj(+1) then the property,
# so a property read is 0 and a property write -1)
CLASS_EFFECT = {"G": 1, "S": 0, "PG": 0, "PS": -1}
# how far below its own starting height a construct of each class may reach (the operands it is given)
CLASS_FLOOR = {"G": 0, "S": -1, "PG": -1, "PS": -2}

_cache = {}


def effects_table(F, R):
    res = opcode_effects(F, R)
    if res is None:
        return None
    out, E = res
    tab = {}
    exits = set()
    for op, e in out.items():
        if e is None:
            continue
        if "frame:enter" in e.t:
            # the callee's frame: bp = sp - op0, locals allocated above; the matching Return lands at bp
            e = Lin(e.c, {k: v for k, v in e.t.items() if k != "frame:enter" and not k.endswith("num_locals")})
        tab[op] = e
    # Call: both success paths (closure / builtin) must agree once the frame rule is applied
    return tab, E


def call_effect(F, R):
    """sibling agreement of the two ways a Call completes"""
    from .vmeffects import Effects
    E = Effects(F)
    s = E.summary("vm::interpreter::VM::exec_call")
    return s, E


def analyse(F, R):
    key = id(F)
    if key in _cache:
        return _cache[key]
    res = _analyse(F, R)
    _cache[key] = res
    return res


def _analyse(F, R):
    out = {"ok": False, "expr": {}, "stmt": {}, "viol": [], "notes": [], "unsupported": None}
    et = effects_table(F, R)
    if et is None:
        return out
    tab, E6 = et
    # Call: paths {closure: -op0 + enter, builtin: -op0}
    from .vmeffects import opcode_effects as _oe
    out["frames"] = E6.frames
    out["need"] = E6.need
    out["effects"] = tab
    eng = Engine(F, tab, E6.need)
    out["engine"] = eng
    try:
        out["expr"] = run_arms(F, eng, "compile_expression", EXPR_TY)
        out["stmt"] = run_arms(F, eng, "compile_statement", STMT_TY)
        out["block"] = run_fn(F, eng, "compile_block_statement")
        out["stmts"] = run_fn(F, eng, "compile_statements")
        out["ok"] = True
    except Unsupported as e:
        out["unsupported"] = str(e)
    out["viol"] = eng.viol
    return out


def start_state(f, pname_val, kind):
    st = St()
    st.kind = kind
    st.last = "Init"
    st.prev = "Init"
    params = f["hir"]["params"]
    for p in params:
        if p.get("k") == "bind" and p["name"] != "self":
            st.env[p["id"]] = ("ast", p["name"])
    return st


def run_arms(F, eng, fname, enum_ty):
    f = F.fn(C + fname)
    if f is None:
        raise Unsupported("missing " + fname)
    body = H.body_of(f)
    eng.visited.add(fname)
    eng.top = fname
    pname = [p["name"] for p in f["hir"]["params"] if p.get("k") == "bind" and p["name"] != "self"][0]
    eng.pname = pname
    res = {}
    for var in [v for v, _ in F.enum_variants(enum_ty)]:
        for kind in ("main", "fn", "filter"):
            st = start_state(f, None, kind)
            st.facts["v:" + pname] = var
            eng.cur = "%s[%s] in %s scope" % (fname.replace("compile_", ""), var, kind)
            ends = []
            nviol = len(eng.viol)
            try:
                for ctl, s, v in eng.ev(body, st):
                    if v and v[0] == "res_err":
                        ends.append(("err", s))
                    elif ctl in ("n", "ret"):
                        ends.append(("ok", s))
                    else:
                        raise Unsupported("control %s escapes %s" % (ctl, fname))
            except RecursionError:
                raise Unsupported("recursion limit in %s[%s]" % (fname, var))
            res[(var, kind)] = {"ends": ends, "viol": eng.viol[nviol:], "pname": pname}
    return res


def run_fn(F, eng, fname):
    f = F.fn(C + fname)
    if f is None:
        raise Unsupported("missing " + fname)
    res = {}
    eng.visited.add(fname)
    eng.top = fname
    for kind in ("main",):
        st = start_state(f, None, kind)
        eng.cur = fname
        ends = []
        for ctl, s, v in eng.ev(H.body_of(f), st):
            ends.append(("err" if (v and v[0] == "res_err") else "ok", s))
        res[kind] = ends
    return res


canon = e5.canon


def corder(s, pname):
    """the path's child-compilation order with canonical keys: [(key, class)]"""
    return tuple((canon(s, o[0], pname), o[1]) if len(o) > 1 else o for o in s.order)


def cfact(s, pname, prefix, ckey):
    """value of the fact `prefix:<k>` whose key canonicalises to ckey (None when the path has none)"""
    for fk, fv in s.facts.items():
        if fk.startswith(prefix + ":") and canon(s, fk[len(prefix) + 1:], pname) == ckey:
            return fv
    return None


def access_of(s, pname, var):
    """access mode the path established for the arm's own node (Get / Set / None)"""
    for fk, fv in s.facts.items():
        if fk.startswith("payload:") and fv == (pname, var):
            p = fk[len("payload:"):]
            a = s.facts.get("v:" + p + ".context.access")
            return a
    return None


def left_of(s, pname, var):
    """variant the path established for the arm's `.left` child (assignments)"""
    for fk, fv in s.facts.items():
        if fk.startswith("payload:") and fv == (pname, var):
            p = fk[len("payload:"):]
            return s.facts.get("v:" + p + ".left")
    return None


def expected_class(var, acc, left=None):
    if var == "Prop":
        return "PS" if acc == "Set" else "PG"
    if var == "Assign" and left == "Prop":
        return "PG"      # `prop = value` after a dot: consumes the object like a property read
    if acc == "Set" and var in ("Ident", "Index"):
        return "S"
    if acc == "Set":
        return None      # not a target the compiler accepts: unreachable behind the assignment guard
    return "G"


def payload_has_context(F, var):
    a = F.adts.get(EXPR_TY)
    for v in a["variants"]:
        if v["name"] == var:
            for fld in v.get("fields", []):
                ty = fld.get("ty", "")
                st = F.adts.get(ty)
                if st and any(x.get("name") == "context" for vv in st.get("variants", []) for x in vv.get("fields", [])):
                    return True
    return False


def fmt_h(h):
    return "unreachable" if h is None else repr(h)


# ---- break / continue depth (the E sets) -------------------------------------------------------------------------------
def off_class(k):
    """offset key (const, terms) → element of {0,1,2,3} (3 = three or more / varying)"""
    if k is None:
        return None
    c, terms = k
    if terms:
        return 3
    return min(max(c, 0), 3)


def exit_offsets(res, which=("break", "continue")):
    """least fixpoint of the heights (relative to the enclosing loop-body statement) at which break/continue jumps are
    emitted.  A jump that the compiler emits after popping `operand_depth(here) - operand_depth(loop)` values is
    *depth-corrected*: through every enclosing operand position whose bookkeeping is exact (operand_depth advanced by
    exactly the height the operand is compiled at) its offset stays what it was; an inexact position adds its error."""
    E = {"expr": {}, "stmt": {}, "block": {}}   # (offset class, corrected?) -> witness chain

    def add(kind, off, why):
        if off not in E[kind]:
            E[kind][off] = why
            return True
        return False
    changed = True
    rounds = 0
    while changed and rounds < 12:
        changed = False
        rounds += 1
        for kind, table in (("expr", res["expr"]), ("stmt", res["stmt"])):
            for (var, ctx), r in table.items():
                if ctx != "fn":
                    continue
                for tag, s in r["ends"]:
                    if tag != "ok":
                        continue
                    for ev in s.events:
                        if ev[0] in which:
                            k = ev[1]
                            if k is None:
                                continue
                            c, terms = k
                            if terms == (("od(loop)", 1),):
                                changed |= add(kind, (min(max(c, 0), 3), True), "%s statement (pops the pending operands first)" % var)
                            else:
                                o = off_class(k)
                                changed |= add(kind, (o, False), "%s statement" % var)
                        elif ev[0] == "child":
                            o = off_class(ev[2])
                            if o is None:
                                continue
                            exact = len(ev) > 3 and ev[3] == ev[2]
                            err = 0 if exact else (o if len(ev) <= 3 or ev[3] is None else max(0, off_class(ev[2]) - (off_class(ev[3]) or 0)))
                            for (e2, corr), why in list(E[ev[1]].items()):
                                if corr:
                                    tot = min(3, e2 + (0 if exact else max(err, 1)))
                                else:
                                    tot = min(3, o + e2)
                                if tot != e2 or not corr:
                                    w = "%s[%s at depth %s%s] → %s" % (kind, var, o if o < 3 else "≥3", "" if exact or not corr else ", operand_depth not advanced", why)
                                else:
                                    w = why
                                changed |= add(kind, (tot, corr), w)
        for e2, why in list(E["stmt"].items()):
            changed |= add("block", e2, why)
    return E
