"""E6 — stack effect of every opcode, computed from VM::run.

For each arm of the dispatch match the net change of `self.sp` along every
success path is computed by abstract interpretation of the arm's HIR with the
VM's own helper methods summarised recursively (push = +1, pop = -1, top/peek =
0, `self.sp -= e`, `self.sp = self.sp + k`).  The result is an affine expression
over the instruction's operands.  Error exits (`return Err`, `?`) are not
success paths.  An arm whose success paths disagree is reported.
"""
from . import hir as H
from .vmarms import vm_arms, decode_reads, _code_slice

VMP = "vm::interpreter::VM::"


class Lin:
    """affine expression: const + Σ coef·symbol"""
    __slots__ = ("c", "t")

    def __init__(self, c=0, t=None):
        self.c = c
        self.t = {k: v for k, v in (t or {}).items() if v != 0}

    def __add__(self, o):
        o = o if isinstance(o, Lin) else Lin(o)
        t = dict(self.t)
        for k, v in o.t.items():
            t[k] = t.get(k, 0) + v
        return Lin(self.c + o.c, t)

    def __neg__(self):
        return Lin(-self.c, {k: -v for k, v in self.t.items()})

    def __sub__(self, o):
        o = o if isinstance(o, Lin) else Lin(o)
        return self + (-o)

    def scale(self, k):
        return Lin(self.c * k, {s: v * k for s, v in self.t.items()})

    def key(self):
        return (self.c, tuple(sorted(self.t.items())))

    def __eq__(self, o):
        o = o if isinstance(o, Lin) else Lin(o)
        return self.key() == o.key()

    def __hash__(self):
        return hash(self.key())

    def is_const(self):
        return not self.t

    def subst(self, m):
        out = Lin(self.c)
        for s, v in self.t.items():
            r = m.get(s)
            out = out + (r.scale(v) if isinstance(r, Lin) else Lin(0, {(r if r is not None else s): v}))
        return out

    def __repr__(self):
        parts = []
        for s, v in sorted(self.t.items()):
            parts.append(("%+d·%s" % (v, s)) if abs(v) != 1 else ("+" + s if v > 0 else "-" + s))
        if self.c or not parts:
            parts.insert(0, "%+d" % self.c)
        return "".join(parts)


def negpart(l):
    return Lin(min(l.c, 0), {k: v for k, v in l.t.items() if v < 0})


def lmin(a, b):
    """lower of two affine expressions whose symbols are non-negative (conservative when incomparable)"""
    d = a - b
    if d.c >= 0 and all(v >= 0 for v in d.t.values()):
        return b
    if d.c <= 0 and all(v <= 0 for v in d.t.values()):
        return a
    ks = set(a.t) | set(b.t)
    return Lin(min(a.c, b.c), {k: min(a.t.get(k, 0), b.t.get(k, 0)) for k in ks})


class Eff:
    """net change of sp (d) and lowest point reached relative to the start (low <= 0)"""
    __slots__ = ("d", "low")

    def __init__(self, d=0, low=None):
        self.d = d if isinstance(d, Lin) else Lin(d)
        self.low = negpart(self.d) if low is None else low

    def then(self, o):
        absolute = lambda l: any(str(t).startswith("frame:") for t in l.t)
        if absolute(o.d):
            # absolute assignment of sp (frame entry / exit): the net result no longer depends on what came before
            return Eff(o.d, self.low)
        if absolute(self.d):
            # heights after a frame switch are not comparable with the start of the instruction
            return Eff(self.d + o.d, self.low)
        return Eff(self.d + o.d, lmin(self.low, self.d + o.low))

    def key(self):
        return (self.d.key(), self.low.key())

    def __eq__(self, o):
        return isinstance(o, Eff) and self.key() == o.key()

    def __hash__(self):
        return hash(self.key())

    def subst(self, m):
        return Eff(self.d.subst(m), self.low.subst(m))

    def __repr__(self):
        return "%r (needs %r)" % (self.d, -self.low)


def sym_of(n):
    """affine reading of a usize expression: literals, locals, +, -, * literal"""
    n = H.strip(n)
    k = n.get("k")
    if k == "lit" and n.get("lk") == "int":
        return Lin(n["v"])
    if k == "cast":
        return sym_of(n["e"])
    if k == "bin" and n["op"] in ("+", "-"):
        l, r = sym_of(n["l"]), sym_of(n["r"])
        if l is None or r is None:
            return None
        return l + r if n["op"] == "+" else l - r
    if k == "bin" and n["op"] == "*":
        l, r = sym_of(n["l"]), sym_of(n["r"])
        if l is not None and r is not None:
            if l.is_const():
                return r.scale(l.c)
            if r.is_const():
                return l.scale(r.c)
        return None
    return Lin(0, {H.render(n): 1})


class Effects:
    """effect sets: {(Lin delta, kind)} with kind in fall | ret | err"""

    def __init__(self, F):
        self.F = F
        self.summ = {}
        self.problems = []
        self.frame_facts = {}
        self.lets = {}
        self.frames = {}
        self._exit = None

    # -- helper summaries ------------------------------------------------------------------------------------------------
    def summary(self, path):
        if path in self.summ:
            return self.summ[path]
        self.summ[path] = None  # recursion guard: treated as unknown
        f = self.F.fn(path)
        if f is None or H.body_of(f) is None:
            return None
        self.collect_lets(path, H.body_of(f))
        eff = self.tail(H.body_of(f), path)
        out = set()
        for d, kind in eff:
            if kind in ("fall", "ret"):
                out.add(d)
        self.summ[path] = out
        return out

    def collect_lets(self, where, body):
        m = self.lets.setdefault(where, {})
        for x in H.walk(body):
            if x.get("k") == "let" and x.get("init") is not None and x.get("pat", {}).get("k") == "bind":
                m[x["pat"]["name"]] = x["init"]

    def param_names(self, path):
        f = self.F.fn(path)
        b = f.get("hir") if f else None
        if not b:
            return []
        return [(p.get("name") or p.get("pat", {}).get("name")) for p in b.get("params", [])]

    # -- effect of a node --------------------------------------------------------------------------------------------------
    def seq(self, a, b):
        out = set()
        for d1, k1 in a:
            if k1 != "fall":
                out.add((d1, k1))
                continue
            for d2, k2 in b:
                out.add((d1.then(d2), k2))
        return out

    def stmts(self, n, where):
        """effect of the statements of a block (without its tail expression)"""
        Z = {(Eff(0), "fall")}
        cur = Z
        snaps = getattr(self, "_snaps", {})
        for s in n.get("stmts", []):
            if s["k"] == "let":
                e1 = self.eff(s.get("init"), where)
                cur = self.seq(cur, e1)
                if s.get("els") is not None:
                    cur = cur | self.seq(cur, self.eff(s["els"], where))
                # `let x = self.sp - k;`: x names a height relative to the height at this point; it stays meaningful
                # for a later `self.sp = x` as long as nothing in between moves the stack pointer
                pat = s.get("pat", {})
                if all(d.d == Lin(0) for d, _ in e1) and pat.get("k") == "bind" and s.get("init") is not None and "Mut" not in str(pat.get("mode", "")):
                    v = sym_of(s["init"])
                    if v is not None and v.t.get("self.sp") == 1:
                        snaps = dict(snaps)
                        snaps[pat["name"]] = v
                        self._snaps = snaps
                        continue
            else:
                self._snaps = snaps
                e1 = self.eff(s.get("e"), where)
                cur = self.seq(cur, e1)
            if not all(d.d == Lin(0) for d, _ in e1):
                snaps = {}
                self._snaps = snaps
        self._snaps = snaps
        return cur

    def tail(self, n, where):
        """effect of n in the tail position of a function returning Result: an `Err(..)` value is an error exit"""
        if n is None:
            return {(Eff(0), "fall")}
        k = n.get("k")
        if k == "block":
            cur = self.stmts(n, where)
            if n.get("expr") is not None:
                cur = self.seq(cur, self.tail(n["expr"], where))
            return cur
        if k == "if":
            c = self.eff(n["c"], where)
            t = self.tail(n["t"], where)
            e = self.tail(n.get("e"), where) if n.get("e") is not None else {(Eff(0), "fall")}
            if self.assumed_true(n["c"], where):
                return self.seq(c, t)
            return self.seq(c, t | e)
        if k == "match" and not H.is_try(n):
            sc = self.eff(n["scrut"], where)
            arms = set()
            for a in n["arms"]:
                arms |= self.tail(a["body"], where)
            return self.seq(sc, arms)
        c = H.last(H.ctor_of(H.strip(n)) or "")
        if c == "Err":
            return {(Eff(0), "err")}
        if k == "mcall" and (n.get("callee") or "").startswith(VMP) and "Result<" in n.get("ty", ""):
            # `self.push(..)` as the function's value: its Err is the function's Err
            return self.eff(n, where)
        return self.eff(n, where)

    def resolve_local(self, name, where, depth=0):
        """affine value of a local through its let initialiser (within the current function / arm)"""
        init = self.lets.get(where, {}).get(name)
        if init is None or depth > 4:
            return None
        i = H.strip(init)
        if i.get("k") in ("call", "mcall") and H.last(i.get("callee") or "") == "new" and "Frame" in (i.get("callee") or ""):
            return ("frame-new", i["args"][1])
        if i.get("k") == "mcall" and H.last(i.get("callee") or "") == "pop_frame":
            return ("frame-popped", None)
        return ("expr", i)

    def abs_assign(self, rhs, where):
        """`self.sp = <rhs>` with rhs built from a frame's bp → Lin with a frame:* symbol"""
        v = sym_of(rhs)
        if v is None:
            return None
        out = Lin(v.c)
        for t, coef in v.t.items():
            if t.endswith(".bp") and coef == 1:
                fr = t[:-3]
                r = self.resolve_local(fr, where)
                if r and r[0] == "frame-new":
                    bpv = sym_of(r[1])
                    # bp itself may be a local: resolve once more
                    if bpv is not None and len(bpv.t) == 1 and bpv.c == 0:
                        nm = next(iter(bpv.t))
                        rr = self.resolve_local(nm, where)
                        if rr and rr[0] == "expr":
                            bpv = sym_of(rr[1])
                    if bpv is None or bpv.t.get("self.sp") != 1:
                        return None
                    out = out + (bpv - Lin(0, {"self.sp": 1})) + Lin(0, {"frame:enter": 1})
                elif r and r[0] == "frame-popped":
                    out = out + Lin(0, {"frame:exit": 1})
                else:
                    return None
            else:
                out = out + Lin(0, {t: coef})
        return out

    def eff(self, n, where):
        Z = {(Eff(0), "fall")}
        if n is None:
            return Z
        if isinstance(n, list):
            cur = Z
            for x in n:
                cur = self.seq(cur, self.eff(x, where))
            return cur
        k = n.get("k")
        if k in ("lit", "path", "closure", "continue"):
            return Z
        if k == "break":
            return Z
        if k == "block":
            cur = self.stmts(n, where)
            if n.get("expr") is not None:
                cur = self.seq(cur, self.eff(n["expr"], where))
            return cur
        if k == "ret":
            e = n.get("e")
            pre = self.eff(e, where) if e is not None else Z
            c = H.last(H.ctor_of(H.strip(e)) or "") if e is not None else ""
            kind = "err" if c == "Err" else "ret"
            return {(d, kind if kk == "fall" else kk) for d, kk in pre}
        if H.is_try(n):
            inner = H.untry(n)
            c = H.last(H.ctor_of(H.strip(inner)) or "")
            if c == "Err":
                return {(Eff(0), "err")}
            return self.eff(inner, where) | {(Eff(0), "err")}
        if k == "if":
            c = self.eff(n["c"], where)
            t = self.eff(n["t"], where)
            e = self.eff(n.get("e"), where) if n.get("e") is not None else Z
            if self.assumed_true(n["c"], where):
                return self.seq(c, t)
            return self.seq(c, t | e)
        if k == "let":  # `if let` condition
            return self.eff(n.get("init"), where)
        if k == "match":
            sc = self.eff(n["scrut"], where)
            arms = set()
            tsc = H.render(n["scrut"])
            only_some = "BUILTINFNS" in tsc and ".get(" in tsc
            if only_some:
                # `match BUILTINFNS.get(i) { Some(bt) => .., None => .. }`: same assumption as for the `if let` form
                self.assumptions.add("GetBuiltinFn operands index BUILTINFNS (issued by Compiler::new from BUILTINFNS.iter().enumerate())")
            for a in n["arms"]:
                if only_some and {H.last(v) for v in H.pat_variants(a["pat"])} == {"None"}:
                    continue
                g = self.eff(a.get("guard"), where) if a.get("guard") is not None else Z
                arms |= self.seq(g, self.eff(a["body"], where))
            return self.seq(sc, arms)
        if k == "loop":
            body = self.eff(n["body"], where)
            bad = [d.d for d, kk in body if kk == "fall" and not (d.d == Lin(0))]
            if bad:
                self.problems.append((where, "a loop body changes the stack height by %s per iteration" % bad[0]))
            # exits of the loop: ret/err inside propagate; falling out has the height of the loop entry
            return {(d, kk) for d, kk in body if kk != "fall"} | Z
        if k == "assignop":
            l = n["l"]
            if H.render(l) == "self.sp":
                v = sym_of(n["r"])
                pre = self.eff(n["r"], where)
                if v is None:
                    self.problems.append((where, "self.sp %s <non-affine>" % n["op"]))
                    v = Lin(0, {"?": 1})
                d = v if n["op"].startswith("+") else -v
                return self.seq(pre, {(Eff(d), "fall")})
            return self.seq(self.eff(n["l"], where), self.eff(n["r"], where))
        if k == "assign":
            if H.render(n["l"]) == "self.sp":
                v = sym_of(n["r"])
                pre = self.eff(n["r"], where)
                if v is not None and v.t.get("self.sp") != 1:
                    snaps = getattr(self, "_snaps", {})
                    hit = [t for t in v.t if t in snaps and v.t[t] == 1]
                    if len(hit) == 1:
                        v = v.subst({hit[0]: snaps[hit[0]]})
                if v is not None and v.t.get("self.sp") == 1:
                    return self.seq(pre, {(Eff(v - Lin(0, {"self.sp": 1})), "fall")})
                if v is not None and where in self.F.fns and v.t and all(t in self.param_names(where) for t in v.t):
                    # inside a helper, from its parameters (`fn reserve_locals(&mut self, bp, num_locals, ..) { self.sp = bp + num_locals }`):
                    # an absolute height the caller's arguments decide; resolved where the helper is called
                    return self.seq(pre, {(Eff(v + Lin(0, {"@abs": 1}), Lin(0)), "fall")})
                txt = H.render(n["r"])
                a = self.abs_assign(n["r"], where)
                self.frame_facts.setdefault(where, []).append((txt, repr(a)))
                if a is None:
                    self.problems.append((where, "self.sp = %s: not resolvable to sp-relative or frame-relative form" % txt))
                    a = Lin(0, {"frame:?": 1})
                return self.seq(pre, {(Eff(a, Lin(0)), "fall")})
            return self.seq(self.eff(n["r"], where), self.eff(n["l"], where))
        if k == "mcall":
            pre = self.seq(self.eff(n["recv"], where), self.eff(n.get("args", []), where))
            cal = n.get("callee") or ""
            if cal.startswith(VMP):
                nm = H.last(cal)
                if nm == "push":
                    return self.seq(pre, {(Eff(1), "fall"), (Eff(0), "err")})
                if nm == "pop":
                    return self.seq(pre, {(Eff(-1), "fall"), (Eff(0), "err")})
                if nm in ("top", "peek"):
                    # reads the slot `k` below the top: needs k + 1 operands
                    kk = sym_of(n["args"][0]) if n.get("args") else None
                    need = (kk + Lin(1)) if kk is not None and kk.is_const() else Lin(1)
                    return self.seq(pre, {(Eff(Lin(0), -need), "fall")} | ({(Eff(0), "err")} if nm == "top" else set()))
                if nm in ("current_frame", "last_popped"):
                    return pre
                s = self.summary(cal)
                if s is None:
                    self.problems.append((where, "recursive or missing VM helper %s" % cal))
                    return pre
                names = self.param_names(cal)
                m = {}
                for pn, a in zip(names[1:], n.get("args", [])):
                    v = sym_of(a)
                    if v is not None:
                        m[pn] = v
                outs = set()
                for d in s:
                    d2 = d.subst(m)
                    if "@abs" in d2.d.t:
                        # sp := value, with the value now in the caller's terms: a height named earlier (`let bp = self.sp - n`) makes it relative
                        val = d2.d - Lin(0, {"@abs": d2.d.t["@abs"]})
                        snaps = getattr(self, "_snaps", {})
                        for t in list(val.t):
                            if t in snaps and val.t[t] == 1:
                                val = val.subst({t: snaps[t]})
                        if val.t.get("self.sp") == 1:
                            d2 = Eff(val - Lin(0, {"self.sp": 1}), Lin(0))
                        else:
                            self.problems.append((where, "%s sets self.sp to %s: not resolvable to an sp-relative form here" % (nm, val)))
                            d2 = Eff(Lin(0, {"frame:?": 1}), Lin(0))
                    outs.add((d2, "fall"))
                return self.seq(pre, outs | {(Eff(0), "err")})
            return pre
        if k == "call":
            pre = self.eff(n.get("args", []), where)
            if (n.get("callee") or "").endswith("Frame::new") and len(n.get("args", [])) == 2:
                # a frame is being set up: the path enters a callee (however the stack pointer was moved past its locals)
                return self.seq(pre, {(Eff(Lin(0, {"mark:enter": 1}), Lin(0)), "fall")})
            return pre
        # generic: children in order
        cur = Z
        for key in ("e", "l", "r", "recv", "i", "scrut", "c", "init"):
            if isinstance(n.get(key), dict):
                cur = self.seq(cur, self.eff(n[key], where))
        for key in ("args", "es", "fields"):
            v = n.get(key)
            if isinstance(v, list):
                for x in v:
                    if isinstance(x, dict) and "k" in x:
                        cur = self.seq(cur, self.eff(x, where))
                    elif isinstance(x, dict) and isinstance(x.get("e"), dict):
                        cur = self.seq(cur, self.eff(x["e"], where))
        return cur

    def assumed_true(self, cond, where):
        """`if let Some(bt) = BUILTINFNS.get(i)`: indices are issued by the compiler from the same table"""
        c = H.strip(cond)
        if c.get("k") == "let":
            t = H.render(c.get("init"))
            if "BUILTINFNS" in t and ".get(" in t:
                self.assumptions.add("GetBuiltinFn operands index BUILTINFNS (issued by Compiler::new from BUILTINFNS.iter().enumerate())")
                return True
        return False

    assumptions = set()

    def exit_const(self):
        """height, relative to the callee frame's bp, at which Return/ReturnValue leave the caller (must be the same for both)"""
        return self._exit if self._exit is not None else Lin(0, {"frame:exit?": 1})


def operand_symbols(arm_body, F=None):
    """local name → operand number, from the operand reads of the arm (ordered by offset); a read may sit in a small
    decoding helper (`read_u16_operand(code, ip)`), which is looked through"""
    offs = {}
    for x in H.walk(arm_body):
        if x.get("k") == "let" and x.get("init") is not None and x["pat"].get("k") == "bind":
            best = None
            for y in H.walk(H.inline_helpers(F, x["init"]) if F is not None else x["init"]):
                if y.get("k") == "index":
                    sl = _code_slice(y)
                    if sl is not None:
                        best = sl[0] if best is None else min(best, sl[0])
            if best is not None:
                offs[x["pat"]["name"]] = best
    # a slice bound first (`let bytes = &code[ip+1..ip+3]`) and decoded in a second let: follow by name use
    for x in H.walk(arm_body):
        if x.get("k") == "let" and x.get("init") is not None and x["pat"].get("k") == "bind" and x["pat"]["name"] not in offs:
            for y in H.walk(x["init"]):
                if H.is_local(y) and y["res"]["name"] in offs and y["res"]["name"] != x["pat"]["name"]:
                    offs[x["pat"]["name"]] = offs[y["res"]["name"]]
    order = sorted(set(offs.values()))
    return {nm: order.index(o) for nm, o in offs.items()}


def opcode_effects(F, R):
    """{opcode: Lin over op0/op1} or None entries; records obligations on R"""
    arms = vm_arms(F, R)
    if not arms:
        return None
    E = Effects(F)
    out = {}
    exits = set()
    def strip_frame(l, extra=()):
        return Lin(l.c, {k: v for k, v in l.t.items() if not str(k).startswith(("frame:", "mark:")) and not str(k).endswith(".num_locals")})

    for op in ("Return", "ReturnValue"):
        a = arms.get(op)
        if a is None:
            continue
        where = "VM::run arm " + op
        E.collect_lets(where, a["body"])
        for d, k in E.eff(a["body"], where):
            if k in ("fall", "ret") and "frame:exit" in d.d.t:
                exits.add(strip_frame(d.d))
    E.frames["exit"] = sorted(map(repr, exits))
    if len(exits) == 1:
        E._exit = next(iter(exits))
    R.ob("frame-exit-agree", "Return and ReturnValue leave the caller at the same height relative to the callee's bp", len(exits) == 1, str(E.frames["exit"]))
    need = {}
    for op, a in sorted(arms.items()):
        if op == "Invalid":
            continue
        where = "VM::run arm " + op
        E.collect_lets(where, a["body"])
        eff = E.eff(a["body"], where)
        oks = {d for d, k in eff if k in ("fall", "ret")}
        syms = operand_symbols(a["body"], F)
        m = {nm: Lin(0, {"op%d" % i: 1}) for nm, i in syms.items()}
        oks = {d.subst(m) for d in oks}
        raw = sorted(map(repr, oks))
        # frame rule: a path that enters a callee frame (bp = sp - n, sp := bp + num_locals) is continued by the callee's
        # Return / ReturnValue (sp := bp - 1, then one push): seen from the caller it lands at bp = sp - n
        enters = lambda d: "frame:enter" in d.d.t or "mark:enter" in d.d.t     # (mark: a frame built with the stack pointer moved separately)
        if any(enters(d) for d in oks):
            E.frames["enter"] = raw
        ok_d = {strip_frame(d.d) + E.exit_const() if enters(d) else d.d for d in oks}
        loc = "src/vm/interpreter.rs:%s" % a.get("line")
        if len(ok_d) == 1:
            out[op] = next(iter(ok_d))
        else:
            out[op] = None
        low = None
        for d in oks:
            l = strip_frame(d.low)
            low = l if low is None else lmin(low, l)
        need[op] = -low if low is not None else Lin(0)
        R.ob("opcode-effect-unique", op, len(ok_d) == 1, "stack effect on success paths: %s; operands needed: %s" % (sorted(map(repr, ok_d)), need[op]), loc)
    E.need = need
    for w, p in E.problems:
        R.ob("opcode-effect-computable", "%s: %s" % (w, p), False, p)
    for s in sorted(E.assumptions):
        R.note("E6 assumption: " + s)
    return out, E
