"""E0 front end: build (or reuse) the fact file for the current working tree of
the repository and give the rule engines convenient access to it.

The fact file is produced by /verif/driver (p2facts) injected into the
repository's own `cargo +nightly check`.  It is cached under /verif/.cache keyed
by a hash of every input of the build (sources, manifests, driver binary,
configuration), so an edited tree is always re-analysed.
"""
import fcntl
import hashlib
import json
import os
import re
import shutil
import subprocess
import sys
import time

VERIF = os.path.dirname(os.path.dirname(os.path.dirname(os.path.abspath(__file__))))
CACHE = os.path.join(VERIF, ".cache")
DRIVER = os.path.join(VERIF, "driver", "target", "release", "p2facts")

CONFIGS = {
    # name: (extra rustflags, cargo args)
    "default": ("", []),
    "release-sem": ("-C overflow-checks=off -C debug-assertions=off", []),
    "features": ("", ["--features", "debug_print_code,debug_trace_execution"]),
}


def repo_root():
    return os.environ.get("P2SH_REPO", "/repo")


def _tree_hash(repo, config):
    h = hashlib.sha256()
    h.update(config.encode())
    files = []
    for base in ("src",):
        for d, _, fs in os.walk(os.path.join(repo, base)):
            for f in fs:
                files.append(os.path.join(d, f))
    for f in ("Cargo.toml", "Cargo.lock"):
        files.append(os.path.join(repo, f))
    for f in sorted(files):
        h.update(os.path.relpath(f, repo).encode())
        try:
            with open(f, "rb") as fh:
                h.update(fh.read())
        except OSError:
            h.update(b"<missing>")
    try:
        st = os.stat(DRIVER)
        h.update(("%d-%d" % (st.st_size, int(st.st_mtime))).encode())
    except OSError:
        h.update(b"<nodriver>")
    return h.hexdigest()[:20]


def _sysroot():
    return subprocess.check_output(["rustc", "+nightly", "--print", "sysroot"], text=True).strip()


def ensure_driver():
    if os.path.exists(DRIVER):
        return
    env = dict(os.environ, CARGO_NET_OFFLINE="true")
    subprocess.check_call(
        ["cargo", "build", "--release", "--offline"], cwd=os.path.join(VERIF, "driver"), env=env,
        stdout=sys.stderr, stderr=sys.stderr)


def extract(config="default", repo=None):
    """Return the path of an up-to-date fact file for (repo, config)."""
    repo = repo or repo_root()
    os.makedirs(CACHE, exist_ok=True)
    ensure_driver()
    key = _tree_hash(repo, config)
    out = os.path.join(CACHE, "facts-%s-%s.json" % (config, key))
    if os.path.exists(out) and os.path.getsize(out) > 1000:
        try:
            os.utime(out)  # least-recently-used pruning below
        except OSError:
            pass
        return out
    lock = open(os.path.join(CACHE, "lock-%s" % config), "w")
    fcntl.flock(lock, fcntl.LOCK_EX)
    try:
        if os.path.exists(out) and os.path.getsize(out) > 1000:
            return out
        target = os.path.join(CACHE, "target-%s" % config)
        # cargo's freshness cache would skip the wrapper: drop p2sh's fingerprints
        fp = os.path.join(target, "debug", ".fingerprint")
        if os.path.isdir(fp):
            for d in os.listdir(fp):
                if d.startswith("p2sh-"):
                    shutil.rmtree(os.path.join(fp, d), ignore_errors=True)
        flags, cargs = CONFIGS[config]
        env = dict(os.environ)
        env.update({
            "LD_LIBRARY_PATH": _sysroot() + "/lib",
            "RUSTFLAGS": ("-Zmir-opt-level=0 -Awarnings " + flags).strip(),
            "RUSTC_WORKSPACE_WRAPPER": DRIVER,
            "P2FACTS_OUT": out,
            "P2FACTS_CRATE": "p2sh",
            "CARGO_TARGET_DIR": target,
            "CARGO_NET_OFFLINE": "true",
        })
        env.pop("RUSTC_WRAPPER", None)
        t0 = time.time()
        p = subprocess.run(["cargo", "+nightly", "check", "--offline", "--bin", "p2sh"] + cargs,
                           cwd=repo, env=env, stdout=subprocess.PIPE, stderr=subprocess.STDOUT, text=True)
        if p.returncode != 0 or not os.path.exists(out):
            sys.stderr.write(p.stdout[-4000:])
            raise RuntimeError("fact extraction failed (cargo exit %s); the tree does not build" % p.returncode)
        if os.path.getmtime(out) < t0 - 1:
            raise RuntimeError("fact file is stale: the wrapper was skipped")
        # prune old fact files of this config (keep the 12 most recently used)
        olds = sorted((f for f in os.listdir(CACHE) if f.startswith("facts-%s-" % config)),
                      key=lambda f: os.path.getmtime(os.path.join(CACHE, f)))
        for f in olds[:-12]:
            try:
                os.remove(os.path.join(CACHE, f))
            except OSError:
                pass
        return out
    finally:
        fcntl.flock(lock, fcntl.LOCK_UN)
        lock.close()


class Facts:
    def __init__(self, path, repo, config="default"):
        self.config = config
        with open(path) as fh:
            self.raw = json.load(fh)
        if self.raw.get("crate") != "p2sh":
            raise RuntimeError("fact file does not describe crate p2sh")
        self.path = path
        self.repo = repo
        self.fns = {}
        for f in self.raw["fns"]:
            self.fns[f["path"]] = f
        self.adts = {a["path"]: a for a in self.raw["adts"]}
        self.consts = {c["path"]: c for c in self.raw["consts"]}
        self.impls = self.raw["impls"]
        self.overflow_checks = self.raw["overflow_checks"]

    # ---- lookup helpers -------------------------------------------------
    def fn(self, path):
        return self.fns.get(path)

    def fns_like(self, rx):
        r = re.compile(rx)
        return [f for p, f in self.fns.items() if r.search(p)]

    def fns_in_file(self, suffix):
        return [f for f in self.fns.values() if f["file"].endswith(suffix)]

    def adt(self, path):
        return self.adts.get(path)

    def enum_variants(self, path):
        a = self.adts.get(path)
        if not a or a["kind"] != "enum":
            return None
        return [(v["name"], v["discr"]) for v in a["variants"]]

    def const(self, path):
        c = self.consts.get(path)
        return None if c is None else c.get("val")

    def rel(self, file):
        """repo-relative file name"""
        if file.startswith(self.repo):
            return os.path.relpath(file, self.repo)
        return file

    def loc(self, fn, line=None):
        return "%s:%s" % (self.rel(fn["file"]), line if line is not None else fn["line"])


def load(config="default", repo=None):
    repo = repo or repo_root()
    return Facts(extract(config, repo), repo, config)


def read_source(rel, repo=None):
    with open(os.path.join(repo or repo_root(), rel), encoding="utf-8") as fh:
        return fh.read()
