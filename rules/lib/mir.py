"""Helpers over the MIR dumped by p2facts: CFG, dominators, def-use,
symbolic reconstruction of operands, call graph."""
import re
from collections import defaultdict


INDEX_RX = re.compile(r"(as std::ops::Index(Mut)?<[^>]*>>|^core::slice::index::<impl std::ops::Index(Mut)?<I> for \[T\]>|^std::array::<impl std::ops::Index(Mut)?<I> for \[T; N\]>)::index(_mut)?$")


DEREF_RX = re.compile(r"as std::ops::Deref(Mut)?>::deref(_mut)?$")


class Body:
    def __init__(self, fn):
        self.fn = fn
        m = fn["mir"]
        self.blocks = m["blocks"]
        self.locals = m["locals"]
        self.arg_count = m["arg_count"]
        self.n = len(self.blocks)
        self._succ = [self._succs(b["term"]) for b in self.blocks]
        self._pred = None
        self._dom = None
        self._defs = None
        self._cache = {}

    # ---- CFG -----------------------------------------------------------
    @staticmethod
    def _succs(t):
        k = t["k"]
        if k == "goto":
            return [t["t"]]
        if k == "switch":
            return list(dict.fromkeys(t["ts"] + [t["otherwise"]]))
        if k in ("call", "drop", "assert"):
            return [t["t"]] if t.get("t") is not None else []
        return []

    def succ(self, b):
        return self._succ[b]

    def preds(self):
        if self._pred is None:
            p = [[] for _ in range(self.n)]
            for b in range(self.n):
                for s in self._succ[b]:
                    p[s].append(b)
            self._pred = p
        return self._pred

    def reachable(self, start=0, avoid=()):
        seen = set()
        stack = [start]
        avoid = set(avoid)
        while stack:
            b = stack.pop()
            if b in seen or b in avoid:
                continue
            seen.add(b)
            stack.extend(self._succ[b])
        return seen

    def rpo(self):
        seen, order = set(), []

        def dfs(b):
            stack = [(b, iter(self._succ[b]))]
            seen.add(b)
            while stack:
                x, it = stack[-1]
                adv = False
                for s in it:
                    if s not in seen:
                        seen.add(s)
                        stack.append((s, iter(self._succ[s])))
                        adv = True
                        break
                if not adv:
                    order.append(x)
                    stack.pop()
        dfs(0)
        order.reverse()
        return order

    def dominators(self):
        """idom-based dominator sets (as dict b -> set of dominators)."""
        if self._dom is not None:
            return self._dom
        order = self.rpo()
        idx = {b: i for i, b in enumerate(order)}
        preds = self.preds()
        idom = {0: 0}

        def inter(a, b):
            while a != b:
                while idx[a] > idx[b]:
                    a = idom[a]
                while idx[b] > idx[a]:
                    b = idom[b]
            return a
        changed = True
        while changed:
            changed = False
            for b in order[1:]:
                ps = [p for p in preds[b] if p in idom]
                if not ps:
                    continue
                new = ps[0]
                for p in ps[1:]:
                    new = inter(new, p)
                if idom.get(b) != new:
                    idom[b] = new
                    changed = True
        self.idom = idom
        dom = {}
        for b in order:
            s = {b}
            x = b
            while x != 0 and x in idom:
                x = idom[x]
                s.add(x)
            dom[b] = s
        self._dom = dom
        return dom

    def dominates(self, a, b):
        return a in self.dominators().get(b, ())

    # ---- defs ------------------------------------------------------------
    def defs(self):
        """local -> list of (bb, stmt index | 'term', node) writing the whole local"""
        if self._defs is None:
            d = defaultdict(list)
            for bi, b in enumerate(self.blocks):
                for si, s in enumerate(b["stmts"]):
                    if s["k"] == "assign" and not s["lhs"]["p"]:
                        d[s["lhs"]["l"]].append((bi, si, s))
                t = b["term"]
                if t["k"] == "call" and not t["dest"]["p"]:
                    d[t["dest"]["l"]].append((bi, "term", t))
            self._defs = d
        return self._defs

    def local_name(self, l):
        return self.locals[l].get("name")

    def local_ty(self, l):
        return self.locals[l]["ty"]

    # ---- symbolic reconstruction ----------------------------------------
    def sym_place(self, pl, depth=0, through_vars=False):
        base = self.sym_local(pl["l"], depth, through_vars)
        for p in pl["p"]:
            if p == "*":
                base = ("deref", base)
            elif "f" in p:
                peeled = self._peel_try(base, p, depth, through_vars) if through_vars else None
                if peeled is None and through_vars and base[0] == "agg" and base[1] in ("tuple", "Tuple") and isinstance(p.get("f"), int) and p["f"] < len(base[2]):
                    peeled = base[2][p["f"]]   # a component of a tuple built in place
                base = peeled if peeled is not None else ("field", base, p["n"] or str(p["f"]))
            elif "i" in p:
                base = ("index", base, self.sym_local(p["i"], depth + 1, through_vars))
            elif "ci" in p:
                base = ("index", base, ("const", p["ci"], "usize"))
            elif "dc" in p:
                base = ("downcast", base, p["dc"])
            else:
                base = ("proj", base, str(p))
        return base

    def _peel_try(self, base, p, depth, through_vars):
        """`(Try::branch(r) as Continue).0` where r can only be `Ok(v)` on the way here is v: r is a local assigned `Ok(v)` at one
        place and `Err(..)` at others (the Result of an inlined helper, or of a match written in place)"""
        if not (base[0] == "downcast" and base[2] == "Continue" and str(p.get("f")) == "0"):
            return None
        c = base[1]
        if not (c[0] == "call" and (c[1] or "").endswith("Try>::branch") and len(c[2]) == 1):
            return None
        r = c[2][0]
        while r[0] in ("ref", "deref"):
            r = r[1]
        if r[0] == "agg" and r[1].endswith("Result::Ok") and len(r[2]) == 1:
            return r[2][0]
        l = r[2] if r[0] == "var" else (r[1] if r[0] == "tmp" else None)
        if l is None or depth > 30:
            return None
        oks = []
        for (bi, si, node) in self.defs().get(l, []):
            if si == "term":
                return None
            rv = node["rv"]
            if rv["k"] == "agg" and rv["ak"].endswith("Result::Ok") and len(rv["ops"]) == 1:
                oks.append(rv["ops"][0])
            elif rv["k"] == "agg" and rv["ak"].endswith("Result::Err"):
                continue
            elif rv["k"] == "use" and rv["a"]["k"] in ("copy", "move") and not rv["a"]["pl"]["p"]:
                # `dest = move _0'` of an inlined helper: follow
                inner = self._peel_try(("downcast", ("call", c[1], (self.sym_local(rv["a"]["pl"]["l"], depth + 1, False if through_vars is True else through_vars),)), "Continue"), p, depth + 1, through_vars)
                if inner is None:
                    return None
                return inner
            else:
                return None
        if len(oks) == 1:
            return self.sym_op(oks[0], depth + 1, through_vars)
        return None

    def sym_local(self, l, depth=0, through_vars=False):
        name = self.local_name(l)
        if l <= self.arg_count and l > 0:
            return ("arg", name or "_%d" % l, l)
        if l == 0:
            return ("ret",)
        if name is not None and not through_vars:
            return ("var", name, l)
        ds = self.defs().get(l, [])
        if len(ds) != 1 or depth > 40:
            return ("var", name, l) if name else ("tmp", l)
        if through_vars == "pure" and l in self.field_written():
            # an aggregate one of whose fields is assigned later (`let mut t = (i, 0); t.0 += 9`) is not the value it was built as
            return ("var", name, l) if name else ("tmp", l)
        if through_vars == "pure" and name is not None and l in self.mut_borrows():
            # an object that is borrowed mutably somewhere (`let mut v = vec![..]; .. v.pop()`) is not the value it was created with
            return ("var", name, l)
        key = (l, through_vars)
        if key in self._cache:
            return self._cache[key]
        self._cache[key] = ("tmp", l)  # cycle guard
        bi, si, node = ds[0]
        if through_vars in ("pure", "desc") and name is not None and si != "term":
            rv = node["rv"]
            if rv["k"] == "use" and rv["a"]["k"] in ("copy", "move") and "*" in rv["a"]["pl"]["p"]:
                # a named variable holding a value loaded from memory: the place may have been written since
                r = ("var", name, l)
                self._cache[key] = r
                return r
        if si == "term":
            cal = node.get("callee") or node.get("decl") or "<indirect>"
            args = tuple(self.sym_op(a, depth + 1, through_vars) for a in node["args"])
            if INDEX_RX.search(cal) and len(args) == 2:
                # overloaded indexing: same shape as the built-in projection (result is a reference)
                r = ("ref", ("index", ("deref", args[0]), args[1]))
            elif DEREF_RX.search(cal) and len(args) == 1:
                # smart-pointer deref (Rc, Box, String->str, Vec->slice): value-preserving projection
                r = ("ref", ("deref", ("deref", args[0])))
            else:
                r = ("call", cal, args, (bi,))
            if through_vars == "pure" and name is not None and self._reads_mutable(r, bi, si):
                # `let n = v.len()` with v: &mut Vec: v may change after n got its value
                r = ("var", name, l)
        else:
            r = self.sym_rv(node["rv"], depth + 1, through_vars)
            if through_vars == "pure" and name is not None and self._reads_mutable(r, bi, si):
                # a named variable computed from memory reachable through a `&mut` (`let bp = self.sp - n`): the place may
                # be written after the variable got its value, so the variable is not replaced by the expression
                r = ("var", name, l)
        self._cache[key] = r
        return r

    # callees that, handed `&mut x`, cannot change how many elements x has (element access, in-place reordering, stepping
    # an iterator, reading into a buffer)
    KEEPS_LEN = re.compile(r"(IndexMut<.*>>::index_mut|::index_mut|DerefMut>::deref_mut|::iter_mut|::next|::next_back|"
                           r"::as_mut_slice|::as_mut|::get_mut|::last_mut|::first_mut|::swap|::sort(_by|_by_key|_unstable)?|::reverse|::fill|"
                           r"::copy_from_slice|::copy_within|Read>::read(_exact)?|::borrow_mut|Write>::write(_all|_fmt)?|Hasher>::write\w*|Hash>::hash)$")

    def mut_borrows(self):
        """{local: [(block, statement index)]} of the `&mut <place rooted at local>` handed to something that may change the
        number of elements of the object (fixed-size arrays never change it; element access, reordering and iterator steps do
        not either)"""
        if "_mutb" not in self._cache:
            out = {}
            for bi, b in enumerate(self.blocks):
                if b.get("cleanup"):
                    continue
                for si, st in enumerate(b["stmts"]):
                    if st["k"] == "assign" and st["rv"]["k"] in ("ref", "rawptr") and st["rv"].get("mut"):
                        l = st["rv"]["pl"]["l"]
                        ty = (self.local_ty(l) or "").strip()
                        if ty.startswith("[") and ";" in ty:
                            continue
                        tmp = st["lhs"]["l"] if not st["lhs"]["p"] else None
                        cal = self._borrow_consumer(tmp, bi, si) if tmp is not None and self.local_name(tmp) is None else None
                        if cal is not None and self.KEEPS_LEN.search(cal):
                            continue
                        out.setdefault(l, []).append((bi, si))
            self._cache["_mutb"] = out
        return self._cache["_mutb"]

    def field_written(self):
        """locals a field (or element) of which is assigned directly (`x.f = ..`, `x.0 += ..`, `x[i] = ..`; not through a reference)"""
        if "_fw" not in self._cache:
            out = set()
            for b in self.blocks:
                if b.get("cleanup"):
                    continue
                for st in b["stmts"]:
                    if st["k"] == "assign" and st["lhs"]["p"] and st["lhs"]["p"][0] != "*":
                        out.add(st["lhs"]["l"])
            self._cache["_fw"] = out
        return self._cache["_fw"]

    def _borrow_consumer(self, tmp, bi, si):
        """the callee a temporary `&mut` is handed to (through reborrows `&mut *tmp`, across the blocks of intervening
        overflow / bounds assertions), or None"""
        cur, start = bi, si + 1
        for _ in range(8):
            b = self.blocks[cur]
            for st in b["stmts"][start:]:
                if st["k"] == "assign" and st["rv"]["k"] in ("ref", "rawptr") and st["rv"]["pl"]["l"] == tmp and not st["lhs"]["p"]:
                    tmp = st["lhs"]["l"]
                elif st["k"] == "assign" and st["rv"]["k"] == "use" and st["rv"]["a"].get("pl") and st["rv"]["a"]["pl"]["l"] == tmp \
                        and not st["rv"]["a"]["pl"]["p"] and not st["lhs"]["p"]:
                    tmp = st["lhs"]["l"]
            t = b["term"]
            if t["k"] == "call" and any(a.get("pl") and not a["pl"]["p"] and a["pl"]["l"] == tmp for a in t.get("args", [])):
                return t.get("callee") or t.get("decl") or ""
            nx = [x for x in self._succ[cur] if not self.blocks[x].get("cleanup")]
            if len(nx) != 1 or t["k"] == "call":
                return None
            cur, start = nx[0], 0
        return None

    def _reads_mutable(self, s, bi=None, si=None):
        after = None
        for x in subterms(s):
            if x[0] in ("var", "arg") and len(x) > 2 and isinstance(x[2], int) and bi is not None and x[2] in self.mut_borrows():
                # an owned container that is borrowed mutably later (`let k = v.len(); v.clear(); .. k ..`)
                if after is None:
                    after = set()
                    for nx in self._succ[bi]:
                        after |= self.reachable(nx)
                for (b2, s2) in self.mut_borrows()[x[2]]:
                    if b2 in after or (b2 == bi and isinstance(si, int) and s2 > si) or (b2 == bi and si == "term"):
                        return True
            if x[0] in ("var", "arg") and len(x) > 2 and isinstance(x[2], int):
                # a local that is assigned again *after* this value was computed (in a block reachable from here, or later
                # in this block) no longer is what the value was computed from (`let old = i; i -= 1; .. old ..`)
                ds = self.defs().get(x[2], [])
                if len(ds) > (0 if x[2] <= self.arg_count else 1):
                    if bi is None:
                        return True
                    if after is None:
                        after = set()
                        for nx in self._succ[bi]:
                            after |= self.reachable(nx)
                    for (b2, s2, _) in ds:
                        if b2 in after or (b2 == bi and (s2 == "term" or (isinstance(s2, int) and isinstance(si, int) and s2 > si))):
                            return True
            if x[0] == "call" and x[1] and x[1].startswith("std::cell::"):
                return True       # read through a RefCell / Cell: interior mutability
            if x[0] == "deref":
                r = x[1]
                while r[0] in ("field", "deref", "ref", "index", "downcast"):
                    r = r[1]
                l = r[2] if r[0] in ("var", "arg") and len(r) > 2 else (r[1] if r[0] == "tmp" else None)
                if isinstance(l, int) and (self.local_ty(l) or "").lstrip().startswith("&mut"):
                    return True
        return False

    def sym_op(self, op, depth=0, through_vars=False):
        if op["k"] in ("copy", "move"):
            return self.sym_place(op["pl"], depth, through_vars)
        if op["k"] == "const":
            if "fn" in op:
                return ("fn", op.get("fn_res") or op["fn"])
            if "val" in op:
                return ("const", op["val"], op["ty"])
            return ("const", op.get("txt"), op["ty"])
        return ("other", op.get("txt"))

    def sym_rv(self, rv, depth=0, through_vars=False):
        k = rv["k"]
        if k == "use":
            return self.sym_op(rv["a"], depth, through_vars)
        if k == "bin":
            return ("bin", rv["op"], self.sym_op(rv["a"], depth, through_vars), self.sym_op(rv["b"], depth, through_vars))
        if k == "un":
            return ("un", rv["op"], self.sym_op(rv["a"], depth, through_vars))
        if k == "cast":
            return ("cast", rv["ty"], self.sym_op(rv["a"], depth, through_vars), rv["ck"])
        if k == "ref":
            return ("ref", self.sym_place(rv["pl"], depth, through_vars))
        if k == "rawptr":
            return ("ref", self.sym_place(rv["pl"], depth, through_vars))
        if k == "discr":
            return ("discr", self.sym_place(rv["pl"], depth, through_vars))
        if k == "agg":
            return ("agg", rv["ak"], tuple(self.sym_op(o, depth, through_vars) for o in rv["ops"]), tuple(rv.get("fields") or ()))
        if k == "repeat":
            return ("repeat", self.sym_op(rv["a"], depth, through_vars), rv["n"])
        return ("other", rv.get("txt"))


def show(s, depth=0):
    """Readable rendering of a symbolic term."""
    if depth > 14:
        return "…"
    d = depth + 1
    t = s[0]
    if t == "const":
        return str(s[1])
    if t in ("var", "arg"):
        return str(s[1])
    if t == "tmp":
        return "_%d" % s[1]
    if t == "ret":
        return "_ret"
    if t == "bin":
        return "(%s %s %s)" % (show(s[2], d), s[1], show(s[3], d))
    if t == "un":
        return "%s(%s)" % (s[1], show(s[2], d))
    if t == "cast":
        return "(%s as %s)" % (show(s[2], d), s[1])
    if t == "ref":
        return "&" + show(s[1], d)
    if t == "deref":
        return "*" + show(s[1], d)
    if t == "field":
        return "%s.%s" % (show(s[1], d), s[2])
    if t == "index":
        return "%s[%s]" % (show(s[1], d), show(s[2], d))
    if t == "downcast":
        return "(%s as %s)" % (show(s[1], d), s[2])
    if t == "discr":
        return "discr(%s)" % show(s[1], d)
    if t == "call":
        return "%s(%s)" % (short_callee(s[1]), ", ".join(show(a, d) for a in s[2]))
    if t == "agg":
        return "%s{%s}" % (s[1], ", ".join(show(a, d) for a in s[2]))
    if t == "fn":
        return "fn:" + short_callee(s[1])
    return "<%s>" % (s,)


def short_callee(c):
    if c is None:
        return "?"
    c = re.sub(r"<([^<>]|<[^<>]*>)*>", "", c)
    c = re.sub(r"<[^<>]*>", "", c)
    parts = [p for p in c.split("::") if p]
    return "::".join(parts[-2:])


def strip_sym(s):
    """Drop refs/derefs/copies around a term."""
    while s[0] in ("ref", "deref"):
        s = s[1]
    return s


def subterms(s):
    yield s
    for x in s[1:]:
        if isinstance(x, tuple):
            if x and isinstance(x[0], str):
                yield from subterms(x)
            else:
                for y in x:
                    if isinstance(y, tuple) and y and isinstance(y[0], str):
                        yield from subterms(y)


class CallGraph:
    """Direct resolved calls + address-taken functions (fn items used as values)
    + closures constructed in a body."""

    def __init__(self, F):
        self.F = F
        self.edges = defaultdict(set)       # caller path -> set of callee paths (local or external)
        self.sites = defaultdict(list)      # caller -> [(callee, line, bb)]
        self.addr_taken = defaultdict(set)  # caller -> fn paths used as values
        self.indirect = defaultdict(list)   # caller -> [(fnty, line)]
        for p, f in F.fns.items():
            for bi, b in enumerate(f["mir"]["blocks"]):
                if b.get("cleanup"):
                    continue
                t = b["term"]
                for s in b["stmts"]:
                    if s["k"] == "assign":
                        self._scan_rv(p, s["rv"])
                if t["k"] == "call":
                    c = t.get("callee") or t.get("decl")
                    if c:
                        self.edges[p].add(c)
                        self.sites[p].append((c, t.get("line"), bi))
                    else:
                        self.indirect[p].append((t.get("fnty"), t.get("line")))
                    for a in t["args"]:
                        self._scan_op(p, a)

    def _scan_op(self, p, op):
        if op.get("k") == "const" and "fn" in op:
            self.addr_taken[p].add(op.get("fn_res") or op["fn"])

    def _scan_rv(self, p, rv):
        for key in ("a", "b"):
            if key in rv and isinstance(rv[key], dict):
                self._scan_op(p, rv[key])
        if rv["k"] == "agg":
            for o in rv["ops"]:
                self._scan_op(p, o)
            if rv["ak"].startswith("closure:"):
                self.addr_taken[p].add(rv["ak"][len("closure:"):])

    def reachable_from(self, roots, extra_edges=None):
        """Set of local function paths reachable from roots through direct
        calls, address-taken functions and closures."""
        seen = set()
        stack = list(roots)
        while stack:
            p = stack.pop()
            if p in seen:
                continue
            seen.add(p)
            for c in self.edges.get(p, ()):
                if c in self.F.fns and c not in seen:
                    stack.append(c)
            for c in self.addr_taken.get(p, ()):
                if c in self.F.fns and c not in seen:
                    stack.append(c)
            if extra_edges:
                for c in extra_edges.get(p, ()):
                    if c in self.F.fns and c not in seen:
                        stack.append(c)
        return seen


# ---------------------------------------------------------------------------
# path utilities
# ---------------------------------------------------------------------------
def call_blocks(B, pred):
    """blocks (non-cleanup) whose terminator is a call satisfying pred(term)"""
    return {bi for bi, b in enumerate(B.blocks) if not b.get("cleanup") and b["term"]["k"] == "call" and pred(b["term"])}


def reachable_avoiding(B, start, barriers, through_start=True):
    """blocks reachable from start without entering any barrier block (a barrier is not expanded;
    the start block itself is expanded even if it is a barrier when through_start)"""
    seen = set()
    stack = [start]
    first = True
    while stack:
        b = stack.pop()
        if b in seen:
            continue
        if b in barriers and not (first and through_start):
            first = False
            continue
        first = False
        seen.add(b)
        for s in B.succ(b):
            if not B.blocks[s].get("cleanup"):
                stack.append(s)
    return seen


def natural_loops(B):
    """[(header, body set)] for every back edge (tail -> header with header dominating tail)"""
    loops = {}
    live = B.reachable(0)
    preds = B.preds()
    for t in live:
        for h in B.succ(t):
            if h in live and B.dominates(h, t):
                body = {h, t}
                stack = [t]
                while stack:
                    x = stack.pop()
                    if x == h:
                        continue
                    for p in preds[x]:
                        if p in live and p not in body:
                            body.add(p)
                            stack.append(p)
                loops.setdefault(h, set()).update(body)
    return sorted(loops.items())


def return_blocks(B):
    return {bi for bi, b in enumerate(B.blocks) if not b.get("cleanup") and b["term"]["k"] == "return"}


# ---- MIR-level inlining of repository helpers (used by the panic audit to evaluate a site in its callers' context) -------
def _remap(x, lo, bo, term=False):
    """copy of the MIR JSON fragment x with locals shifted by lo and block numbers by bo"""
    if isinstance(x, list):
        return [_remap(y, lo, bo) for y in x]
    if not isinstance(x, dict):
        return x
    if "l" in x and "p" in x and isinstance(x["p"], list):
        return {"l": x["l"] + lo, "p": [({**p, "i": p["i"] + lo} if isinstance(p, dict) and "i" in p else p) for p in x["p"]]}
    out = {}
    for k, v in x.items():
        if term and k in ("t", "otherwise", "unwind"):
            out[k] = v + bo if isinstance(v, int) and not isinstance(v, bool) else v
        elif term and k == "ts":
            out[k] = [t + bo for t in v]
        elif term and k == "vals":
            out[k] = v
        else:
            out[k] = _remap(v, lo, bo)
    return out


def inline_calls(F, fn, eligible, depth=2, _stack=(), only_bb=None):
    """fn-like dict whose MIR is fn's with every direct call of an eligible repository function replaced by the callee's
    blocks (appended after the original blocks, which keep their numbers; callee locals appended after fn's).  Returns
    (fn', where) with where[(call_bb, callee_path)] = block offset of that copy, so that callee block b is where + b."""
    m = fn["mir"]
    blocks = [dict(b) for b in m["blocks"]]
    locals_ = list(m["locals"])
    where = {}
    work = [(bi, depth, _stack) for bi in range(len(blocks))]
    while work:
        bi, d, stack = work.pop(0)
        b = blocks[bi]
        t = b["term"]
        if t["k"] != "call" or b.get("cleanup") or d <= 0:
            continue
        c = t.get("callee")
        if c is None or c not in F.fns or c in stack or not F.fns[c].get("mir"):
            continue
        if only_bb is not None and bi < len(m["blocks"]) and bi not in only_bb:
            continue
        if not eligible(c):
            continue
        hm = F.fns[c]["mir"]
        if len(t["args"]) != hm["arg_count"]:
            continue
        lo, bo = len(locals_), len(blocks)
        where[(bi, c)] = bo
        for l in hm["locals"]:
            locals_.append(dict(l))
        for hb in hm["blocks"]:
            nb = {"cleanup": hb.get("cleanup"), "stmts": _remap(hb["stmts"], lo, bo), "term": _remap(hb["term"], lo, bo, term=True), "inl": c}
            if nb["term"]["k"] == "return":
                ret = {"k": "assign", "lhs": t["dest"], "rv": {"k": "use", "a": {"k": "move", "pl": {"l": lo, "p": []}}}, "line": t.get("line")}
                nb["stmts"] = nb["stmts"] + [ret]
                nb["term"] = {"k": "goto", "t": t["t"], "line": t.get("line")} if t.get("t") is not None else {"k": "unreachable", "line": t.get("line")}
            blocks.append(nb)
        pre = []
        for i, a in enumerate(t["args"]):
            pre.append({"k": "assign", "lhs": {"l": lo + 1 + i, "p": []}, "rv": {"k": "use", "a": a}, "line": t.get("line")})
        nbk = dict(b)
        nbk["stmts"] = b["stmts"] + pre
        nbk["term"] = {"k": "goto", "t": bo, "line": t.get("line"), "inlined_call": c}
        blocks[bi] = nbk
        for j in range(bo, len(blocks)):
            work.append((j, d - 1, stack + (c,)))
    f2 = dict(fn)
    f2["mir"] = {**m, "blocks": blocks, "locals": locals_}
    return f2, where


def dominating_conditions(B, site_bb):
    """[(symbolic discriminant, chosen values | ('not', values))] of every switch that dominates site_bb and whose taken edge
    is determined (the site is reachable through exactly one of its successors without passing the switch again)"""
    out = []
    dom = B.dominators()
    for d in sorted(dom.get(site_bb, ())):
        t = B.blocks[d]["term"]
        if t["k"] != "switch" or d == site_bb:
            continue
        succs = list(dict.fromkeys(t["ts"] + [t["otherwise"]]))
        cand = [s for s in succs if s == site_bb or site_bb in B.reachable(s, avoid=[d])]
        if len(cand) != 1:
            continue
        chosen = cand[0]
        vals = [v for v, tt in zip(t["vals"], t["ts"]) if tt == chosen]
        sym = B.sym_op(t["d"], through_vars=True)
        if chosen == t["otherwise"] and not vals:
            out.append((sym, ("not", tuple(t["vals"])), t.get("dty")))
        else:
            out.append((sym, tuple(vals), t.get("dty")))
    return out


def bool_conditions(B, site_bb):
    """{rendered boolean condition: True/False} among the conditions dominating site_bb"""
    out = {}
    for sym, vals, dty in dominating_conditions(B, site_bb):
        if dty != "bool":
            continue
        if vals == (0,) or vals == ("not", (1,)):
            out[show(sym)] = False
        elif vals == (1,) or vals == ("not", (0,)):
            out[show(sym)] = True
    return out


def implied_conditions(B, site_bb, depth=2):
    """dominating_conditions(site_bb), plus what a named boolean among them stands for: when the site is reached only with
    the local `ok` true, and `ok` is assigned the constant true in exactly one place (and other constants elsewhere),
    the conditions dominating that assignment held as well (`let ok = match vm.run() { Ok(()) => true, Err(e) => { ..; false } }`);
    when it is assigned no constant true but the value of one expression, that expression was true where it was evaluated
    (`let m = !a.is_empty() || b.is_some()` being false)."""
    out = []
    work = [(c, depth) for c in dominating_conditions(B, site_bb)]
    seen = set()
    while work:
        (sym, vals, dty), d = work.pop(0)
        key = (show(sym), vals)
        if key in seen:
            continue
        seen.add(key)
        out.append((sym, vals, dty))
        if dty != "bool" or d <= 0:
            continue
        want = True if (vals == (1,) or vals == ("not", (0,))) else (False if (vals == (0,) or vals == ("not", (1,))) else None)
        if want is None:
            continue
        s = sym
        while s[0] == "un" and s[1] == "Not":
            s, want = s[2], not want
        while s[0] in ("ref", "deref"):
            s = s[1]
        if s[0] not in ("var", "tmp"):
            continue
        l = s[2] if s[0] == "var" else s[1]
        same, other, exprs = [], [], []
        for (bi, si, node) in B.defs().get(l, []):
            if si == "term":
                t = node if isinstance(node, dict) and node.get("k") == "call" else B.blocks[bi]["term"]
                if t.get("k") != "call":
                    exprs.append((bi, None))
                    continue
                exprs.append((bi, ("call", t.get("callee") or t.get("decl"), tuple(B.sym_op(a, through_vars=True) for a in t["args"]), (bi,))))
                continue
            rv = node["rv"]
            if rv["k"] == "use" and rv["a"]["k"] == "const" and isinstance(rv["a"].get("val"), bool):
                (same if rv["a"]["val"] == want else other).append(bi)
            else:
                exprs.append((bi, B.sym_rv(rv, through_vars=True)))
        if len(same) == 1 and not exprs:
            work += [(c, d - 1) for c in dominating_conditions(B, same[0])]
        elif not same and len(exprs) == 1 and exprs[0][1] is not None:
            bi, sy = exprs[0]
            work.append(((sy, (1,) if want else (0,), "bool"), d - 1))
            work += [(c, d - 1) for c in dominating_conditions(B, bi)]
    return out
