"""Decision tables of small pure functions (E2 helper).

`table(F, fn)` evaluates the HIR body of a function under every assignment of the conditions it tests and returns
the rows (assignment, result).  Conditions are discovered while evaluating: boolean-valued calls / field reads are
atoms (canonical text), comparisons with a unit enum variant are tests of a multi-valued variable (its domain: the
variants mentioned anywhere in the function, plus `other`), order comparisons are reduced to one atom form
(`a < b`; `a <= b` is `!(b < a)`), emptiness tests to `x.is_empty()`.  Locals bound by `let` are evaluated at their
use, `if` / `match` / `return` / `&&` / `||` / `!` are interpreted, so the table does not depend on how the function
spells the decision (early returns, a match instead of an if, negated conditions with swapped branches, named
temporaries, helper predicates that are themselves inlined).  A rule then compares the table with the reference
function over the same conditions.
"""
import re

from . import hir as H


class _Need(Exception):
    def __init__(self, key, domain):
        self.key, self.domain = key, domain


class _Return(Exception):
    def __init__(self, v):
        self.v = v


class _Unsupported(Exception):
    pass


def _txt(n):
    return H.render(H.strip(n))


def _variant(n):
    """(enum path, variant) when n is a path to a unit enum variant / a bool literal"""
    n = H.strip(n)
    if n.get("k") == "path" and n.get("res", {}).get("r") in ("ctor", "variant", "def"):
        p = n["res"].get("path") or ""
        if "::" in p and p.rsplit("::", 1)[1][:1].isupper():
            return p.rsplit("::", 1)[0], p.rsplit("::", 1)[1]
    c = H.ctor_of(n)
    if c and n.get("k") == "path":
        return c.rsplit("::", 1)[0], c.rsplit("::", 1)[1]
    return None


def _deref_free(n):
    if isinstance(n, list):
        return [_deref_free(x) for x in n]
    if not isinstance(n, dict):
        return n
    k = n.get("k")
    if k == "ref" or (k == "un" and n.get("op") == "*"):
        return _deref_free(n["e"])
    if k == "block" and not n.get("stmts") and n.get("expr") is not None:
        return _deref_free(n["expr"])
    if k == "mcall" and n.get("m") in ("clone", "as_ref", "borrow") and not n.get("args"):
        return _deref_free(n["recv"])
    if k == "call" and H.last(n.get("callee") or "") == "clone" and len(n.get("args", [])) == 1:
        return _deref_free(n["args"][0])
    return {a: _deref_free(b) for a, b in n.items()}


def canon_text(n):
    """rendering without borrows, derefs, clones and trivial blocks"""
    return H.render(_deref_free(n))


class Eval:
    def __init__(self, F, fn, inline=True, leaf=None, keep=(), node=None, upto=None):
        self.F = F
        self.fn = fn
        self.upto = upto
        skip = (lambda c: H.last(c) in keep) if keep else ()
        body = node if node is not None else H.body_of(fn)
        self.body = H.inline_helpers(F, body, depth=3, max_size=120, skip=skip) if (inline and F is not None) else body
        self.leaf = leaf or (lambda n: H.render(H.strip(n)))
        self.mentioned = {}
        for x in H.walk(self.body):
            if isinstance(x, dict) and x.get("k") == "path":
                v = _variant(x)
                if v:
                    self.mentioned.setdefault(v[0], set()).add(v[1])
            if isinstance(x, dict) and x.get("k") in ("ts", "ppath") and isinstance(x.get("res"), dict):
                # variant patterns (also those of `if let` / `let .. else`, which are not match arms)
                pth = x["res"].get("path") or ""
                if "::" in pth and pth.rsplit("::", 1)[1][:1].isupper():
                    self.mentioned.setdefault(pth.rsplit("::", 1)[0], set()).add(pth.rsplit("::", 1)[1])
        for m in H.walk(self.body):
            if isinstance(m, dict) and m.get("k") == "match":
                for a in m["arms"]:
                    for v in H.pat_variants(a["pat"]):
                        if "::" in v:
                            self.mentioned.setdefault(v.rsplit("::", 1)[0], set()).add(v.rsplit("::", 1)[1])

    # ---- atoms -----------------------------------------------------------------------------------------------------
    def atom(self, key):
        if key not in self.env:
            raise _Need(key, (True, False))
        return self.env[key]

    def enum_var(self, text, enum):
        key = "%s : %s" % (text, H.last(enum))
        if key not in self.env:
            dom = sorted(self.mentioned.get(enum, set()))
            adt = self.F.adts.get(enum) if self.F is not None else None
            allv = [v["name"] for v in adt["variants"]] if adt and adt.get("kind") == "enum" else None
            rest = [v for v in allv if v not in dom] if allv is not None else None
            if rest is None or len(rest) > 1:
                dom = dom + ["other"]
            elif len(rest) == 1:
                dom = dom + rest
            raise _Need(key, tuple(dom))
        return self.env[key]

    # ---- evaluation ------------------------------------------------------------------------------------------------
    def run(self, env):
        self.env = env
        self.locals = {}
        self.memo = {}
        try:
            return self.ev(self.body, {})
        except _Return as r:
            return r.v

    def as_bool(self, v, n):
        if isinstance(v, bool):
            return v
        if isinstance(v, tuple) and v[0] == "val":
            return self.atom(v[1])
        raise _Unsupported("boolean value of %s" % H.render(n)[:60])

    def ev(self, n, loc):
        n0 = n
        k = n.get("k")
        if self.upto is not None and n is self.upto:
            self.upto_hit = True
            saved, self.upto = self.upto, None
            try:
                raise _Return(self.ev(n, loc))
            finally:
                self.upto = saved
        if k in ("ref",) or (k == "un" and n.get("op") == "*"):
            return self.ev(n["e"], loc)
        if k == "lit":
            if n.get("lk") == "bool":
                return bool(n["v"])
            return ("val", H.render(n))
        if k == "block":
            loc = dict(loc)
            for s in n.get("stmts", []):
                sk = s.get("k")
                if sk == "let":
                    pat = s.get("pat", {})
                    if self.upto is not None and s.get("init") is not None and any(y is self.upto for y in H.walk(s["init"])):
                        self.ev(s["init"], loc)   # the node asked for sits in this initialiser: evaluate it now
                    if pat.get("k") == "bind" and s.get("init") is not None and not s.get("els"):
                        loc[pat["id"]] = (s["init"], dict(loc))
                    elif pat.get("k") == "wild":
                        pass
                    else:
                        raise _Unsupported("let pattern")
                elif sk in ("semi", "expr"):
                    e = s["e"]
                    if e.get("k") in ("if", "match", "ret", "block"):
                        self.ev(e, loc)
                    # other statements (logging, error recording) do not take part in the decision
                else:
                    pass
            if n.get("expr") is not None:
                return self.ev(n["expr"], loc)
            # a block evaluated for its effects: it is identified by what it does
            return ("val", "{%s}" % H.render(n)) if n.get("stmts") else ("val", "()")
        if k == "ret":
            raise _Return(self.ev(n["e"], loc) if n.get("e") is not None else ("val", "()"))
        if k == "un" and n.get("op") == "!":
            return not self.as_bool(self.ev(n["e"], loc), n["e"])
        if k == "bin" and n["op"] == "&&":
            return self.as_bool(self.ev(n["l"], loc), n["l"]) and self.as_bool(self.ev(n["r"], loc), n["r"])
        if k == "bin" and n["op"] == "||":
            return self.as_bool(self.ev(n["l"], loc), n["l"]) or self.as_bool(self.ev(n["r"], loc), n["r"])
        if k == "bin" and n["op"] in ("==", "!=", "<", "<=", ">", ">="):
            return self.compare(n, loc)
        if k == "if":
            c = self.as_bool(self.ev(n["c"], loc), n["c"]) if n["c"].get("k") != "let" else self.let_cond(n["c"], loc)
            if isinstance(c, tuple):
                c, loc2 = c
            else:
                loc2 = loc
            if c:
                return self.ev(n["t"], loc2)
            if "e" in n:
                return self.ev(n["e"], loc)
            return ("val", "()")
        if k == "match" and not H.is_try(n):
            return self.match(n, loc)
        if k == "path" and n.get("res", {}).get("r") == "local":
            lid = n["res"]["id"]
            if lid in loc:
                init, l2 = loc[lid]
                return self.ev(init, l2)
            return ("val", n["res"]["name"])
        if k == "mcall" and n["m"] in ("clone", "into", "to_owned") and not n.get("args"):
            return self.ev(n["recv"], loc)
        if k == "mcall" and n["m"] == "is_empty" and not n.get("args"):
            return self.atom(self.text(n["recv"], loc) + ".is_empty()")
        if k == "macro" and n.get("name") == "matches":
            raise _Unsupported("matches!")
        return ("val", self.text(n, loc))

    def text(self, n, loc):
        """canonical text of a value expression: locals bound to simple expressions are replaced by them"""
        env = {}
        for lid, (init, l2) in loc.items():
            if H._size(init) <= 25 and not any(x.get("k") in ("if", "match", "block", "ret", "closure") for x in H.walk(init)):
                env[lid] = init
        m = H._subst(n, env) if env else n
        for _ in range(3):
            if not env or not any(H.local_id(x) in env for x in H.walk(m) if isinstance(x, dict)):
                break
            m = H._subst(m, env)
        return canon_text(m)

    def compare(self, n, loc):
        op = n["op"]
        l, r = n["l"], n["r"]
        vl, vr = _variant(H.strip(l)), _variant(H.strip(r))
        if op in ("==", "!="):
            if vr or vl:
                var, (enum, v) = (l, vr) if vr else (r, vl)
                got = self.enum_var(self.text(var, loc), enum)
                return (got == v) == (op == "==")
            bl, br = H.strip(l), H.strip(r)
            for a, b in ((bl, br), (br, bl)):
                if a.get("k") == "lit" and a.get("lk") == "bool":
                    x = self.as_bool(self.ev(b, loc), b)
                    return (x == bool(a["v"])) == (op == "==")
            # len() == 0 forms
            e = H.bool_expr(n)
            if e[0] in ("atom", "not") and (e[1] if e[0] == "atom" else e[1][1]).endswith(".is_empty()") and e != ("atom", H.render(n)):
                return H.bool_eval(e, _Lazy(self))
            a, b = sorted([self.text(l, loc), self.text(r, loc)])
            return self.atom("%s == %s" % (a, b)) == (op == "==")
        e = H.bool_expr(n)
        if e[0] in ("atom", "not") and (e[1] if e[0] == "atom" else e[1][1]).endswith(".is_empty()"):
            return H.bool_eval(e, _Lazy(self))
        a, b = self.text(l, loc), self.text(r, loc)
        if op == "<":
            return self.atom("%s < %s" % (a, b))
        if op == ">":
            return self.atom("%s < %s" % (b, a))
        if op == "<=":
            return not self.atom("%s < %s" % (b, a))
        return not self.atom("%s < %s" % (a, b))

    def pat_test(self, pat, scrut, loc):
        """(matches, bindings)"""
        k = pat.get("k")
        if k in ("ref", "deref"):
            return self.pat_test(pat["pat"], scrut, loc)
        if k == "wild":
            return True, {}
        if k == "bind":
            if "sub" in pat:
                ok, b = self.pat_test(pat["sub"], scrut, loc)
                b = dict(b)
                b[pat["id"]] = (scrut, dict(loc))
                return ok, b
            return True, {pat["id"]: (scrut, dict(loc))}
        if k == "or":
            for p in pat["pats"]:
                ok, b = self.pat_test(p, scrut, loc)
                if ok:
                    return True, b
            return False, {}
        if k == "plit":
            vv = H.strip(pat["lit"])
            if vv.get("lk") == "bool":
                return self.as_bool(self.ev(scrut, loc), scrut) == bool(vv["v"]), {}
            a, b = sorted([self.text(scrut, loc), canon_text(vv)])
            return self.atom("%s == %s" % (a, b)), {}
        if k == "ppath" and pat["res"].get("r") in ("const", "assoc_const"):
            # `match x { CONST => .. }` is the comparison x == CONST
            a, b = sorted([self.text(scrut, loc), canon_text({"k": "path", "res": pat["res"]})])
            return self.atom("%s == %s" % (a, b)), {}
        if k == "tuple":
            sc = H.strip(scrut)
            if sc.get("k") == "tup" and len(sc.get("es", [])) == len(pat["pats"]):
                binds = {}
                for sp, se in zip(pat["pats"], sc["es"]):
                    ok, b = self.pat_test(sp, se, loc)
                    if not ok:
                        return False, {}
                    binds.update(b)
                return True, binds
            raise _Unsupported("tuple pattern on a non-tuple")
        if k in ("ppath", "ts", "struct"):
            path = pat["res"].get("path") or ""
            if "::" not in path:
                raise _Unsupported("pattern path")
            enum, v = path.rsplit("::", 1)
            # a scrutinee that is itself computed by a conditional (or a local bound to one): its value decides
            sc = H.strip(scrut)
            lid = H.local_id(sc)
            if lid in loc:
                sc = H.strip(loc[lid][0])
            if sc.get("k") in ("match", "if", "block") and not H.is_try(sc) and not pat.get("pats") and not pat.get("fields"):
                val = self.ev(scrut, loc)
                if isinstance(val, tuple) and val[0] == "val" and re.fullmatch(r"[A-Za-z_][\w:]*", val[1] or "") and "::" in val[1]:
                    return val[1].rsplit("::", 1)[1] == v, {}
            sub = pat.get("pats") or []
            binds = {}
            for i, sp in enumerate(sub):
                if sp.get("k") == "wild":
                    continue
                if sp.get("k") == "bind" and "sub" not in sp:
                    binds[sp["id"]] = ({"k": "path", "res": {"r": "local", "name": "<%s as %s>.%d" % (self.text(scrut, loc), v, i), "id": ("payload", sp["id"])}}, {})
                    continue
                raise _Unsupported("nested pattern")
            if k == "struct" and pat.get("fields"):
                raise _Unsupported("struct pattern")
            got = self.enum_var(self.text(scrut, loc), enum)
            return got == v, binds
        raise _Unsupported("pattern %s" % H.render_pat(pat)[:40])

    def let_cond(self, c, loc):
        ok, b = self.pat_test(c["pat"], c.get("init") if c.get("init") is not None else c.get("e"), loc)
        l2 = dict(loc)
        l2.update(b)
        return ok, l2

    def match(self, n, loc):
        for a in n["arms"]:
            ok, b = self.pat_test(a["pat"], n["scrut"], loc)
            if not ok:
                continue
            l2 = dict(loc)
            l2.update(b)
            if a.get("guard") is not None:
                if not self.as_bool(self.ev(a["guard"], l2), a["guard"]):
                    continue
            return self.ev(a["body"], l2)
        return ("val", "<no arm>")


class _Lazy(dict):
    def __init__(self, ev):
        self.ev_ = ev

    def __getitem__(self, k):
        return self.ev_.atom(k)


def table_expr(F, node, inline=True, limit=4096, keep=(), upto=None):
    """decision table of one expression / block (a closure body, the condition of an `if`, a `match`); with `upto` (a node
    inside `node`, only with inline=False): the value of that inner node, evaluated in the context of what precedes it"""
    return table(F, None, inline, limit, keep, node=node, upto=upto)


def table(F, fn, inline=True, limit=4096, keep=(), node=None, upto=None):
    """[(assignment dict, result)] or (None, reason)"""
    try:
        E = Eval(F, fn, inline, keep=keep, node=node, upto=upto)
    except Exception as e:  # pragma: no cover
        return None, "cannot prepare: %r" % (e,)
    rows = []
    work = [{}]
    while work:
        env = work.pop()
        try:
            v = E.run(dict(env))
        except _Need as nd:
            for val in nd.domain:
                e2 = dict(env)
                e2[nd.key] = val
                work.append(e2)
            if len(work) + len(rows) > limit:
                return None, "more than %d rows" % limit
            continue
        except _Unsupported as u:
            return None, "not evaluable: %s" % (u,)
        except RecursionError:
            return None, "recursion"
        rows.append((env, v if isinstance(v, bool) else (v[1] if isinstance(v, tuple) else str(v))))
    return rows, ""


def check(rows, roles, domains, expected):
    """roles: [(regex, role name)] mapping condition keys of the table to the names the reference uses (every condition
    of the table must have a role); domains: role -> tuple of values; expected(env) -> result for a total assignment of
    the roles.  A row that leaves a role undecided must have the result the reference gives for every value of that
    role.  Enum conditions take the values the function mentions plus 'other'.  Returns (ok, detail)."""
    import itertools
    keys = sorted({k for env, _ in rows for k in env})
    rmap = {}
    for k in keys:
        for rx, role in roles:
            if re.search(rx, k):
                rmap[k] = role
                break
        else:
            return False, "the decision depends on a condition the reference does not have: %s" % k
    bad = []
    n = 0
    seen = {}
    for env, _ in rows:
        for k, v in env.items():
            seen.setdefault(rmap[k], set()).add(v)
    for env, res in rows:
        renv = {}
        feasible = True
        for k, v in env.items():
            r = rmap[k]
            if r in renv and renv[r] != v:
                feasible = False  # two spellings of one role with different values
                break
            renv[r] = v
        if not feasible:
            continue
        free = [r for r in domains if r not in renv]
        # `other` in a row stands for every value of the role's domain that the function does not name
        widened = [r for r, v in renv.items() if v == "other" and r in domains]
        wdom = [[d for d in domains[r] if d == "other" or d not in seen[r]] for r in widened]
        wants = set()
        for combo in itertools.product(*([domains[r] for r in free] + wdom)):
            e2 = dict(renv)
            e2.update(zip(free + widened, combo))
            w = expected(e2)
            if w is not None:
                wants.add(w)
        n += 1
        if wants and wants != {res}:
            bad.append("%s → %s (reference: %s)" % (", ".join("%s=%s" % kv for kv in sorted(renv.items())) or "always", res, " / ".join(map(str, sorted(wants, key=str)))))
    return not bad, "; ".join(bad[:3]) if bad else "%d rows over %s agree with the reference" % (n, sorted(set(rmap.values())))
