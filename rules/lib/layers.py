"""Model of the packet layers: which functions decode/encode each header, and
the property tables of the exec_prop_* functions (extracted from HIR)."""
import json
import os
import re

from . import hir as H
from . import codec as C
from . import facts as factsmod

P = "builtins::protocols::"
PK = "vm::pktprop::<impl vm::interpreter::VM>::"


def enc(mod, hdr):
    return "%s<impl std::convert::From<&%s%s> for std::vec::Vec<u8>>::from" % (mod, mod, hdr)


LAYERS = {
    "pcap": dict(exec=PK + "exec_prop_pcap", decoder="builtins::pcap::PcapGlobalHeader::from_bytes", hdr="PcapGlobalHeader",
                 encoder=enc("builtins::pcap::", "PcapGlobalHeader"), pkt=None, obj="builtins::pcap::Pcap", variant="Pcap"),
    "packet": dict(exec=PK + "exec_prop_packet", decoder="builtins::pcap::PcapPacketHeader::from_bytes", hdr="PcapPacketHeader",
                   encoder=enc("builtins::pcap::", "PcapPacketHeader"), pkt="PcapPacket", pkt_enc=enc("builtins::pcap::", "PcapPacket"),
                   obj="builtins::pcap::PcapPacket", variant="Packet"),
    "eth": dict(exec=PK + "exec_prop_eth", decoder=P + "ethernet::Ethernet::from_bytes", hdr="EthernetHeader",
                encoder=enc(P + "ethernet::", "EthernetHeader"), pkt="Ethernet", pkt_enc=enc(P + "ethernet::", "Ethernet"),
                obj=P + "ethernet::Ethernet", variant="Eth"),
    "vlan": dict(exec=PK + "exec_prop_vlan", decoder=P + "vlan::Vlan::from_bytes", hdr="VlanHeader",
                 encoder=enc(P + "vlan::", "VlanHeader"), pkt="Vlan", pkt_enc=enc(P + "vlan::", "Vlan"), obj=P + "vlan::Vlan", variant="Vlan"),
    "ipv4": dict(exec=PK + "exec_prop_ipv4", decoder=P + "ipv4::Ipv4Packet::from_bytes", hdr="Ipv4Header",
                 encoder=enc(P + "ipv4::", "Ipv4Header"), pkt="Ipv4Packet", pkt_enc=enc(P + "ipv4::", "Ipv4Packet"),
                 obj=P + "ipv4::Ipv4Packet", variant="Ipv4"),
    "ipv6": dict(exec=PK + "exec_prop_ipv6", decoder=P + "ipv6::Ipv6Packet::from_bytes", hdr="Ipv6Header",
                 encoder=enc(P + "ipv6::", "Ipv6Header"), pkt="Ipv6Packet", pkt_enc=enc(P + "ipv6::", "Ipv6Packet"),
                 obj=P + "ipv6::Ipv6Packet", variant="Ipv6"),
    "tcp": dict(exec=PK + "exec_prop_tcp", decoder=P + "tcp::Tcp::from_bytes", hdr="TcpHeader",
                encoder=enc(P + "tcp::", "TcpHeader"), pkt="Tcp", pkt_enc=enc(P + "tcp::", "Tcp"), obj=P + "tcp::Tcp", variant="Tcp"),
    "udp": dict(exec=PK + "exec_prop_udp", decoder=P + "udp::Udp::from_bytes", hdr="UdpHeader",
                encoder=enc(P + "udp::", "UdpHeader"), pkt="Udp", pkt_enc=enc(P + "udp::", "Udp"), obj=P + "udp::Udp", variant="Udp"),
}


def rfc():
    with open(os.path.join(factsmod.VERIF, "tables", "rfc_layouts.json")) as fh:
        return json.load(fh)


def parse_spec(spec):
    """→ ('bits', [(byte, bit) MSB first]) | ('bytes', lo, hi)"""
    spec = spec.strip()
    m = re.match(r"bytes (\d+)-(\d+)$", spec)
    if m:
        return ("bytes", int(m.group(1)), int(m.group(2)))
    out = []
    for piece in spec.split("+"):
        piece = piece.strip()
        m = re.match(r"(le)?@(\d+) u(\d+)$", piece)
        if m:
            k, n = int(m.group(2)), int(m.group(3)) // 8
            order = range(k + n - 1, k - 1, -1) if m.group(1) else range(k, k + n)
            for b in order:
                out += [(b, j) for j in range(7, -1, -1)]
            continue
        m = re.match(r"b(\d+)\[(\d+):(\d+)\]$", piece)
        if m:
            b, h, l = int(m.group(1)), int(m.group(2)), int(m.group(3))
            out += [(b, j) for j in range(h, l - 1, -1)]
            continue
        raise ValueError("bad layout spec %r" % spec)
    return ("bits", out)


def prop_names(F):
    """PacketPropType variant -> display name, from the Display impl"""
    f = F.fn("<code::prop::PacketPropType as std::fmt::Display>::fmt")
    out = {}
    if f is None:
        return out
    for m in H.walk(H.body_of(f)):
        if m.get("k") == "match" and not H.is_try(m):
            for a in m["arms"]:
                b = H.strip(a["body"])
                if b.get("k") == "lit" and b["lk"] == "str":
                    for v in H.pat_variants(a["pat"]):
                        out[H.last(v)] = b["v"]
    return out


def prop_arms(F, exec_path):
    """{variant: info} for one exec_prop_* function"""
    f = F.fn(exec_path)
    if f is None:
        return None
    ms = [m for m in H.walk(H.body_of(f)) if m.get("k") == "match" and not H.is_try(m) and H.render(m["scrut"]) == "prop"]
    # the dispatch is the outermost of them (an arm shared by several properties may look at the property again)
    inner = {id(x) for m in ms for a in m["arms"] for x in H.walk(a["body"]) if x.get("k") == "match"}
    ms = [m for m in ms if id(m) not in inner]
    if len(ms) != 1:
        return None
    out = {}
    lid = H.local_id(H.strip(ms[0]["scrut"]))
    arms_ = []
    for a in ms[0]["arms"]:
        vs = [H.last(v) for v in H.pat_variants(a["pat"])]
        if len(vs) > 1 and "*" not in vs and lid is not None and any(
                x.get("k") in ("match", "bin") and any(H.local_id(H.strip(y)) == lid for y in (x.get("scrut"), x.get("l"), x.get("r")) if isinstance(y, dict))
                for x in H.walk(a["body"])):
            # `A | B => { .. match prop { A => x, _ => y } .. }`: the arm as it runs for each of its properties
            for v in vs:
                arms_.append(([v], dict(a, body=H.unlet(H.split_tuple_lets(H.specialise(a["body"], lid, v))))))
        else:
            arms_.append((vs, a))
    for vs, a in arms_:
        if vs == ["*"]:
            out["*"] = {"kind": "default", "body": a["body"], "line": a.get("line")}
            continue
        # helpers of the property module itself (a shared `payload_from(rawdata, start)`, a `cached_or_parse(..)`) are read
        # as part of the arm; the protocol structs' own methods stay calls
        body = H.inline_helpers(F, a["body"], max_size=400, skip=lambda c: not c.startswith("vm::pktprop::") or "exec_prop_" in c)
        if any(x.get("k") == "let" and x.get("init") is not None and H.strip(x["init"]).get("k") == "closure" for x in H.walk(body)):
            # the helper takes the getter / setter as closures: apply them
            body = H.beta(H.unlet(body))
        info = {"line": a.get("line"), "body": body, "raw_body": a["body"]}
        sets = [c for c in H.walk(body) if c.get("k") == "mcall" and c["m"].startswith("set_") and c.get("callee") in F.fns]
        gets = [c for c in H.walk(body) if c.get("k") == "mcall" and c["m"].startswith("get_") and c.get("callee") in F.fns
                and not c["m"].endswith("_raw")]
        parses = [c for c in H.walk(body) if c.get("k") == "call" and (c.get("callee") or "").endswith("::from_bytes")]
        skips = [c for c in H.walk(body) if c.get("k") == "mcall" and c["m"] == "skip"]
        if parses:
            info["kind"] = "layer"
            info["from_bytes"] = parses[0]["callee"]
            info["offset"] = H.render(H.strip(parses[0]["args"][1])) if len(parses[0]["args"]) > 1 else None
            sel = [x for x in H.walk(body) if x.get("k") == "bin" and x["op"] == "!=" and "_raw()" in H.render(x["l"])]
            info["selector"] = (H.render(sel[0]["l"]), H.res_path(H.strip(sel[0]["r"])), sel[0]["r"]["res"].get("val") if sel[0]["r"].get("k") == "path" else None) if sel else None
            info["selector_guard"] = sel[0] if sel else None
        elif sets or gets:
            info["kind"] = "field"
            info["set"] = sets[0]["callee"] if sets else None
            info["get"] = gets[0]["callee"] if gets else None
            info["n_set"], info["n_get"] = len(sets), len(gets)
        elif skips or "rawdata" in H.render(body):
            info["kind"] = "payload"
            info["skip"] = H.render(H.strip(skips[0]["args"][0])) if skips else None
            if info["skip"] == "0":
                info["skip"] = None  # skipping nothing
        else:
            info["kind"] = "other"
        for v in vs:
            out[v] = info
    return out


def getter_field(F, path):
    """(field path under header, result kind) of a get_* method"""
    f = F.fn(path)
    if f is None:
        return None, None
    b = H.body_of(f)
    leaves = H.return_leaves(b)
    if len(leaves) != 1:
        return None, None
    e = H.strip(leaves[0][0])
    # Rc::new(Object::Kind(<expr>))
    if e.get("k") == "call" and H.last(e.get("callee") or "") == "new" and e["args"]:
        e = H.strip(e["args"][0])
    kind = None
    if e.get("k") == "call" and e.get("ctor"):
        kind = H.last(e["ctor"])
        e = H.strip(e["args"][0])
    conv = []
    lets = {x["pat"]["id"]: x["init"] for x in H.walk(b) if x.get("k") == "let" and x.get("pat", {}).get("k") == "bind" and "init" in x}
    while True:
        if H.is_local(e) and H.local_id(e) in lets:
            e = H.strip(lets[H.local_id(e)])
            conv.append("let")
            continue
        if e.get("k") == "cast":
            conv.append("as " + e.get("ty", "?"))
            e = H.strip(e["e"])
        elif e.get("k") == "mcall" and e["m"] in ("to_string", "clone"):
            conv.append(e["m"])
            e = H.strip(e["recv"])
        else:
            break
    names = []
    while e.get("k") == "field" and not (e["name"] == "header" and H.render(H.strip(e["e"])) == "self"):
        names.append(e["name"])
        e = H.strip(e["e"])
    base = H.render(e)
    if base not in ("self.header.borrow()", "self.header.borrow_mut()", "self.header"):
        return None, kind
    return ".".join(reversed(names)), (kind, conv)


def pos_bounds(cond):
    """(lo, hi) a condition of the accepting form establishes for the value it tests: comparisons with integer literals
    (`v >= 0 && v <= 15`, `0 <= v`, ..) and `(lo..=hi).contains(v)`"""
    lo = hi = None
    for y in H.walk(cond):
        if y.get("k") == "bin" and y["op"] in ("<", ">", "<=", ">="):
            l_, r_ = H.strip(y["l"]), H.strip(y["r"])
            while r_.get("k") == "cast":
                r_ = H.strip(r_["e"])
            while l_.get("k") == "cast":
                l_ = H.strip(l_["e"])
            if r_.get("k") == "lit" and r_.get("lk") == "int":
                if y["op"] == "<=":
                    hi = r_["v"]
                elif y["op"] == "<":
                    hi = r_["v"] - 1
                elif y["op"] == ">=":
                    lo = r_["v"]
                elif y["op"] == ">":
                    lo = r_["v"] + 1
            elif l_.get("k") == "lit" and l_.get("lk") == "int":
                if y["op"] == "<=":
                    lo = l_["v"]
                elif y["op"] == "<":
                    lo = l_["v"] + 1
                elif y["op"] == ">=":
                    hi = l_["v"]
                elif y["op"] == ">":
                    hi = l_["v"] - 1
        if y.get("k") == "mcall" and y["m"] == "contains":
            st_ = H.strip(y["recv"])
            if st_.get("k") == "call" and (st_.get("callee") or "").endswith("RangeInclusive::<Idx>::new") and len(st_.get("args", [])) == 2:
                a0, a1 = H.strip(st_["args"][0]), H.strip(st_["args"][1])
                if a0.get("k") == "lit":
                    lo = a0["v"]
                if a1.get("k") == "lit":
                    hi = a1["v"]
            elif st_.get("k") == "struct":
                fl = {fd["name"]: H.strip(fd["e"]) for fd in st_.get("fields", [])}
                nm_ = H.last(st_["res"].get("path") or "")
                if fl.get("start", {}).get("k") == "lit":
                    lo = fl["start"]["v"]
                if fl.get("end", {}).get("k") == "lit":
                    hi = fl["end"]["v"] - (0 if nm_ == "RangeInclusive" else 1)
    return lo, hi


def setter_info(F, path):
    """facts about a set_* method: accepted Object kind, guard interval, stored field, cast, mask"""
    f = F.fn(path)
    if f is None:
        return None
    # a range test may live in a small shared helper (`checked_integer(obj, 15, msg)`): read with helpers inlined
    b = H.inline_helpers(F, H.body_of(f))
    info = {"stores": [], "guards": [], "kinds": []}
    order = []

    def is_store(n):
        return any(y.get("k") == "assign" and "header" in H.render(y["l"]) for y in H.walk(n))
    for x in H.walk(b):
        if x.get("k") == "match" and not H.is_try(x):
            for a in x["arms"]:
                for v in H.pat_variants(a["pat"]):
                    if "object::Object::" in (v or ""):
                        info["kinds"].append(H.last(v))
        if x.get("k") == "let" and x.get("pat") is not None:
            # `if let Object::Integer(v) = ..` / `let Object::Integer(v) = .. else { return Err }`
            for v in H.pat_variants(x["pat"]):
                if "object::Object::" in (v or ""):
                    info["kinds"].append(H.last(v))
        if x.get("k") == "if" and H.strip(x["c"]).get("k") != "let" and is_store(x["t"]) and not ("return" in H.render(x["t"]) and "Err(" in H.render(x["t"]) and not is_store(x["t"])):
            # positive form: `if 0 <= v && v <= MAX { store }` (the rejecting branch is the fall-through / else)
            lo, hi = pos_bounds(x["c"])
            if lo is not None or hi is not None:
                info["guards"].append((lo, hi, H.render(x["c"])))
                order.append(("guard", x.get("line")))
        if x.get("k") == "match" and not H.is_try(x):
            # `Object::Integer(n) if (0..=MAX).contains(n) => Ok(*n), _ => Err(..)`
            for a in x["arms"]:
                if a.get("guard") is not None and any("object::Object::" in (v or "") for v in H.pat_variants(a["pat"])) and \
                        not any(y.get("k") == "call" and H.last(y.get("ctor") or "") == "Err" for y in H.walk(a["body"])):
                    lo, hi = pos_bounds(a["guard"])
                    if lo is not None or hi is not None:
                        info["guards"].append((lo, hi, H.render(a["guard"])))
                        order.append(("guard", a.get("line")))
        if x.get("k") == "if":
            c = x["c"]
            txt = H.render(c)
            if "return" in H.render(x["t"]) and "Err(" in H.render(x["t"]) and not is_store(x["t"]):
                lo = hi = None
                for y in H.walk(c):
                    if y.get("k") == "bin" and y["op"] in ("<", ">", "<=", ">="):
                        r = H.strip(y["r"])
                        while r.get("k") == "cast":
                            r = H.strip(r["e"])
                        if r.get("k") == "lit" and r["lk"] == "int":
                            if y["op"] == "<":
                                lo = r["v"]
                            elif y["op"] == "<=":
                                lo = r["v"] + 1
                            elif y["op"] == ">":
                                hi = r["v"]
                            elif y["op"] == ">=":
                                hi = r["v"] - 1
                info["guards"].append((lo, hi, txt))
                order.append(("guard", x.get("line")))
        if x.get("k") == "assign":
            l = x["l"]
            names = []
            e = l
            while e.get("k") == "field" and not (e["name"] == "header" and H.render(H.strip(e["e"])) == "self"):
                names.append(e["name"])
                e = H.strip(e["e"])
            if H.render(e) in ("self.header.borrow_mut()", "self.header"):
                r = H.strip(x["r"])
                mask = None
                if r.get("k") == "bin" and r["op"] == "&":
                    mv = H.strip(r["r"])
                    mask = mv["v"] if mv.get("k") == "lit" else None
                    r = H.strip(r["l"])
                cast = None
                while r.get("k") in ("cast", "call"):
                    if r.get("k") == "cast":
                        cast = cast or r.get("ty")
                        r = H.strip(r["e"])
                    elif r.get("ctor") and len(r["args"]) == 1:
                        r = H.strip(r["args"][0])
                    else:
                        break
                info["stores"].append({"field": ".".join(reversed(names)), "cast": cast, "mask": mask, "src": H.render(r)})
                order.append(("store", x.get("line")))
    info["order"] = [k for k, _ in order]
    return info
