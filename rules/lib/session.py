"""Value-provenance analysis of the REPL loop (C23).

The session state of main::run_prompt are the locals that live across the back edge of the read-eval loop and hold the
symbol table, the constant pool and the global store (found by type and by where they flow, not by name).  The loop
body is explored over the MIR (helpers defined in main.rs inlined) with an abstract value per local:

  orig(S)            the value the state local S had when the iteration began
  clone(S)           a clone of it
  compiler(a, b, st) a Compiler built by new_with_state(a, b); st = fresh | ok | err after compile() returned Ok / Err
  vm(g)              a VM built by new_with_global_store(_, g)
  from(x, field)     a field moved out of x
  mut                a state value that was handed out mutably

and a flag `rejected` set on the None edge of parse_program's result and on the Err edge of Compiler::compile's
result.  At the back edge of a rejected path every state local must again be orig(S) / clone(S): nothing computed for
the rejected line is carried over.  At the back edge of an accepted path the state is what the line's compiler and VM
hand back.  The rule does not depend on how the loop spells this (saved copies put back, or clones handed to the
compiler and dropped)."""
from . import mir as M

SYMTAB_TY = "compiler::symtab::SymbolTable"
POOL_TY = "std::vec::Vec<std::rc::Rc<object::Object>>"


def _discr_source(B, op):
    """the local whose discriminant a switch operand reads (`_n = discriminant(_m); switchInt(move _n)`), else None"""
    if op.get("k") not in ("copy", "move") or op["pl"]["p"]:
        return None
    ds = B.defs().get(op["pl"]["l"], [])
    if len(ds) != 1 or ds[0][1] == "term":
        return None
    rv = ds[0][2]["rv"]
    if rv["k"] == "discr":
        return rv["pl"]["l"]
    return None


def analyse(F, fn_path="run_prompt"):
    """dict with: ok (bool), problems [str], facts {...}; or {"error": reason}"""
    f = F.fn(fn_path)
    if f is None or not f.get("mir"):
        return {"error": "no MIR for %s" % fn_path}
    main_file = f["file"]
    keep = ("parse_program", "init_builtin_vars", fn_path)
    elig = lambda c: F.fns[c]["file"] == main_file and c not in keep and len(F.fns[c]["mir"]["blocks"]) <= 150
    f2, _ = M.inline_calls(F, f, elig, depth=2)
    B = M.Body(f2)
    loops = [(h, body) for h, body in M.natural_loops(B)
             if any(B.blocks[b]["term"]["k"] == "call" and B.blocks[b]["term"].get("callee") == "parse_program" for b in body)]
    if not loops:
        return {"error": "no loop around parse_program"}
    h, body = max(loops, key=lambda hb: len(hb[1]))
    # state locals: of the state types, written outside the loop and read or written inside it
    def_out, used_in = set(), set()
    for bi, b in enumerate(B.blocks):
        if b.get("cleanup"):
            continue
        for s in b["stmts"]:
            if s["k"] == "assign" and not s["lhs"]["p"]:
                (used_in if bi in body else def_out).add(s["lhs"]["l"])
        t = b["term"]
        if t["k"] == "call" and not t["dest"]["p"]:
            (used_in if bi in body else def_out).add(t["dest"]["l"])
    mentioned_in = set()
    for bi in body:
        b = B.blocks[bi]
        for x in _places(b):
            mentioned_in.add(x)
    state = [l for l in sorted(def_out & mentioned_in) if B.local_ty(l).replace("'_ ", "") in (SYMTAB_TY, POOL_TY) and B.local_name(l)]
    names = {l: B.local_name(l) for l in state}
    # ... or the fields of these types of a struct local that lives across the back edge (`state: ReplState { symtab, constants, globals }`)
    structs = {}
    for l in sorted(def_out & mentioned_in):
        adt = F.adts.get(B.local_ty(l).replace("'_ ", "")) if B.local_name(l) else None
        if adt and adt.get("kind") == "struct":
            flds = [fd["name"] for fd in adt["variants"][0]["fields"] if fd["ty"].replace("'_ ", "") in (SYMTAB_TY, POOL_TY)]
            if len(flds) >= 3:
                structs[l] = [fd["name"] for fd in adt["variants"][0]["fields"]]
                for fn_ in flds:
                    state.append((l, fn_))
                    names[(l, fn_)] = "%s.%s" % (B.local_name(l), fn_)
    if len(state) < 3:
        return {"error": "found %d session-state locals (want the symbol table, the constant pool and the global store)" % len(state)}

    def slot_of(pl):
        """the state slot a place denotes: a state local, or one field of a state struct; else None"""
        proj = [p for p in pl["p"] if p != "*"]
        if pl["l"] in structs and len(proj) == 1 and isinstance(proj[0], dict) and "f" in proj[0]:
            fn_ = proj[0].get("n") or (structs[pl["l"]][proj[0]["f"]] if isinstance(proj[0]["f"], int) and proj[0]["f"] < len(structs[pl["l"]]) else str(proj[0]["f"]))
            return (pl["l"], fn_) if (pl["l"], fn_) in names else None
        if not proj and pl["l"] in names and "*" not in pl["p"]:
            return pl["l"]
        return None

    def tag_of(tags, op):
        if op["k"] not in ("copy", "move"):
            return None
        pl = op["pl"]
        if pl["l"] in structs:
            sl_ = slot_of(pl)
            if sl_ is not None:
                return tags.get(sl_)
        base = tags.get(pl["l"])
        proj = [p for p in pl["p"] if p != "*"]
        if not proj:
            if "*" in pl["p"] and base and base[0] == "refl":
                return tags.get(base[1])
            return base
        if len(proj) == 1 and isinstance(proj[0], dict) and "f" in proj[0]:
            owner = base
            if base and base[0] == "refl":
                owner = tags.get(base[1])
            return ("from", owner, proj[0].get("n") or str(proj[0]["f"]))
        return None

    problems, accepted, rejected_paths = [], [], 0
    kinds = set()
    seen = set()
    init = {l: ("orig", l) for l in state}
    work = [(s, _freeze(init), False) for s in B.succ(h) if s in body] if False else [(h, _freeze(init), False)]
    first = True
    while work:
        bi, ftags, rej = work.pop()
        if (bi, ftags, rej) in seen:
            continue
        seen.add((bi, ftags, rej))
        if len(seen) > 40000:
            return {"error": "state space too large"}
        if bi == h and not first:
            tags = dict(ftags)
            if rej:
                rejected_paths += 1
                kinds.add(rej)
                for l in state:
                    t = tags.get(l)
                    if not (t and t[0] in ("orig", "clone") and t[1] == l):
                        problems.append("after a rejected line `%s` holds %s instead of the value it had before the line" % (names[l], _show(t, names)))
            else:
                accepted.append(({names[l]: _show(tags.get(l), names) for l in state}, {l: tags.get(l) for l in state}))
            continue
        first = False
        if bi not in body:
            continue
        b = B.blocks[bi]
        if b.get("cleanup"):
            continue
        tags = dict(ftags)
        for s in b["stmts"]:
            if s["k"] != "assign":
                continue
            lhs, rv = s["lhs"], s["rv"]
            if lhs["p"]:
                base = tags.get(lhs["l"])
                if lhs["l"] in structs:
                    sl_ = slot_of(lhs)
                    if sl_ is not None:
                        tags[sl_] = tag_of(tags, rv["a"]) if rv["k"] == "use" else None     # state.globals = vm.globals
                    else:
                        for k_ in [k_ for k_ in names if isinstance(k_, tuple) and k_[0] == lhs["l"]]:
                            proj_ = [p for p in lhs["p"] if p != "*"]
                            if proj_ and isinstance(proj_[0], dict) and (proj_[0].get("n") == k_[1]):
                                tags[k_] = ("mut",)
                    continue
                if lhs["l"] in state and not any(p == "*" for p in lhs["p"]):
                    tags[lhs["l"]] = ("mut",)
                continue
            if lhs["l"] in structs:
                # the whole struct is replaced: `state = ReplState { symtab: compiler.symtab, .. }` (directly or through a temporary)
                src = None
                if rv["k"] == "agg" and rv.get("ops") is not None:
                    src = {fn_: tag_of(tags, op_) for fn_, op_ in zip(rv.get("fields") or structs[lhs["l"]], rv["ops"])}
                elif rv["k"] == "use":
                    t_ = tags.get(rv["a"]["pl"]["l"]) if rv["a"]["k"] in ("copy", "move") and not rv["a"]["pl"]["p"] else None
                    src = t_[1] if t_ and t_[0] == "structval" else None
                for k_ in [k_ for k_ in names if isinstance(k_, tuple) and k_[0] == lhs["l"]]:
                    tags[k_] = (src or {}).get(k_[1]) if src is not None else None
                continue
            if rv["k"] == "agg" and rv.get("ops") is not None and rv.get("fields") and any(B.local_ty(lhs["l"]).replace("'_ ", "") == B.local_ty(l_).replace("'_ ", "") for l_ in structs):
                tags[lhs["l"]] = ("structval", _freeze_d({fn_: tag_of(tags, op_) for fn_, op_ in zip(rv["fields"], rv["ops"])}))
                continue
            if rv["k"] == "use":
                tags[lhs["l"]] = tag_of(tags, rv["a"])
            elif rv["k"] in ("ref", "rawptr") and not [p for p in rv["pl"]["p"] if p != "*"]:
                src = rv["pl"]["l"]
                if "*" in rv["pl"]["p"] and (tags.get(src) or ("",))[0] == "refl":
                    tags[lhs["l"]] = tags[src]
                else:
                    tags[lhs["l"]] = ("refl", src, bool(rv.get("mut")))
            elif rv["k"] in ("ref", "rawptr") and rv["pl"]["l"] in structs and slot_of(rv["pl"]) is not None:
                tags[lhs["l"]] = ("refl", slot_of(rv["pl"]), bool(rv.get("mut")))
            elif rv["k"] in ("ref", "rawptr"):
                # a reference to a field of something: if it is a mutable borrow into a state value, that value is no longer pristine
                src = rv["pl"]["l"]
                if rv.get("mut") and src in state:
                    tags[src] = ("mut",)
                tags[lhs["l"]] = None
            elif rv["k"] == "agg" and rv.get("ops"):
                tags[lhs["l"]] = None
            else:
                tags[lhs["l"]] = None
        t = b["term"]
        k = t["k"]
        if k == "call":
            cal = t.get("callee") or t.get("decl") or ""
            args = [tag_of(tags, a) for a in t["args"]]
            dest = t["dest"]["l"] if not t["dest"]["p"] else None
            val = None
            if cal.endswith("::clone") and len(args) == 1 and args[0] and args[0][0] == "refl":
                src = tags.get(args[0][1])
                if src and src[0] in ("orig", "clone"):
                    val = ("clone", src[1])
            elif cal.endswith("Compiler::new_with_state") and len(args) == 2:
                val = ("compiler", args[0], args[1], "fresh")
            elif cal.endswith("Compiler::compile") and args and args[0] and args[0][0] == "refl":
                c = args[0][1]
                if (tags.get(c) or ("",))[0] == "compiler":
                    tags[c] = tags[c][:3] + ("ran",)
                val = ("compile-result", c)
            elif cal.endswith("VM::new_with_global_store") and len(args) == 2:
                val = ("vm", args[1])
            elif cal == "parse_program":
                val = ("parse-result",)
            elif cal.endswith(("mem::take", "mem::replace")) and args and args[0] and args[0][0] == "refl" and args[0][1] in names:
                # the value is moved out of the slot (an empty / given one is left behind)
                val = tags.get(args[0][1])
                tags[args[0][1]] = ("mut",)
            else:
                # a state value handed out mutably to anything else is no longer the value the iteration started with
                for a in args:
                    if a and a[0] == "refl" and a[2] and a[1] in state:
                        tags[a[1]] = ("mut",)
            if dest is not None:
                tags[dest] = val
            if t.get("t") is not None:
                work.append((t["t"], _freeze(tags), rej))
            continue
        if k == "switch":
            src = _discr_source(B, t["d"])
            stag = tags.get(src) if src is not None else None
            for tgt, val in list(zip(t["ts"], t["vals"])) + [(t["otherwise"], None)]:
                tg2, rj2 = dict(tags), rej
                if stag and stag[0] == "parse-result":
                    if val == 0 or (val is None and 0 not in t["vals"]):
                        rj2 = "parse"   # None
                elif stag and stag[0] == "compile-result":
                    c = stag[1]
                    if (tg2.get(c) or ("",))[0] == "compiler":
                        is_err = (val == 1) or (val is None and 1 not in t["vals"])
                        tg2[c] = tg2[c][:3] + ("err" if is_err else "ok",)
                        if is_err:
                            rj2 = "compile"
                work.append((tgt, _freeze(tg2), rj2))
            continue
        for s in B.succ(bi):
            if not B.blocks[s].get("cleanup"):
                work.append((s, _freeze(tags), rej))
    return {"ok": not problems, "problems": sorted(set(problems)), "accepted": accepted, "rejected_paths": rejected_paths, "kinds": sorted(kinds), "state": [names[l] for l in state],
            "body": B, "loop": (h, body), "state_locals": state, "names": names}


def _places(b):
    out = []

    def go(x):
        if isinstance(x, list):
            for y in x:
                go(y)
        elif isinstance(x, dict):
            if "l" in x and "p" in x and isinstance(x["p"], list):
                out.append(x["l"])
            for v in x.values():
                if isinstance(v, (dict, list)):
                    go(v)
    go(b["stmts"])
    go(b["term"])
    return out


def _freeze(tags):
    return tuple(sorted(((k, v) for k, v in tags.items() if v is not None), key=repr))


class _FD(tuple):
    """a frozen {field: tag} mapping"""

    def get(self, k, default=None):
        for a, b in self:
            if a == k:
                return b
        return default


def _freeze_d(d):
    return _FD(sorted(d.items(), key=repr))


def _show(t, names):
    if t is None:
        return "a value computed for this line"
    if t[0] in ("orig", "clone"):
        return ("its value at the start of the iteration" if t[0] == "orig" else "a copy of that value") + " (%s)" % names.get(t[1], t[1])
    if t[0] == "from":
        return "%s of %s" % (t[2], _show(t[1], names))
    if t[0] == "compiler":
        return "the line's compiler [%s]" % t[3]
    if t[0] == "vm":
        return "the line's VM"
    if t[0] == "mut":
        return "a value modified in place"
    return str(t[0])
