"""Obligation bookkeeping, known-findings handling, evidence writing."""
import json
import os
import time

from . import facts as factsmod

VERIF = factsmod.VERIF
KNOWN = os.path.join(VERIF, "known_findings.jsonl")


class Obligation:
    __slots__ = ("rule", "key", "ok", "detail", "loc", "nontrivial", "info")

    def __init__(self, rule, key, ok, detail="", loc="", nontrivial=True, info=False):
        self.rule, self.key, self.ok, self.detail, self.loc = rule, key, ok, detail, loc
        self.nontrivial = nontrivial
        self.info = info

    def as_json(self):
        return {"rule": self.rule, "key": self.key, "verdict": "holds" if self.ok else "VIOLATED",
                "detail": self.detail, "loc": self.loc}


class Report:
    """Collects rule instances (obligations) for one property."""

    def __init__(self, pid):
        self.pid = pid
        self.obls = []
        self.notes = []
        self.analysed = {}
        self.assumptions = []
        self.explanation = ""

    def ob(self, rule, key, ok, detail="", loc="", nontrivial=True):
        """One rule instance. key must not contain line numbers."""
        self.obls.append(Obligation(rule, str(key), bool(ok), detail, loc, nontrivial))
        return bool(ok)

    def anchor(self, name, found, loc=""):
        """Fail closed when an anchor (function, field, type, table) is missing."""
        self.obls.append(Obligation("anchor", "anchor-missing:" + name, bool(found),
                                    "anchor present" if found else "anchor not found in the analysed program", loc,
                                    nontrivial=False))
        return bool(found)

    def floor(self, name, count, minimum):
        """Instance-count floor: `minimum` is the number of instances confirmed by hand on the pinned tree.  A rule that
        matches nothing passes vacuously, so a collapse of the count fails the check; de-duplicating code (fifty copies
        of one idiom folded into a helper) legitimately lowers it, so the check fails below half of the confirmed count
        and reports anything below the confirmed count as a note."""
        ok = count >= max(1, (minimum + 1) // 2)
        self.obls.append(Obligation("floor", "floor:%s" % name, ok,
                                    "%d instances (confirmed on the pinned tree: %d; fails below %d)" % (count, minimum, max(1, (minimum + 1) // 2)), "", nontrivial=False))
        if ok and count < minimum:
            self.notes.append("instance count of '%s' is %d, below the %d confirmed on the pinned tree" % (name, count, minimum))
        return ok

    def note(self, s):
        self.notes.append(s)

    def count(self, k, n=1):
        self.analysed[k] = self.analysed.get(k, 0) + n


def load_known():
    known, fixed = {}, []
    if os.path.exists(KNOWN):
        with open(KNOWN) as fh:
            for line in fh:
                line = line.strip()
                if not line or line.startswith("#"):
                    continue
                e = json.loads(line)
                if e.get("status") == "fixed":
                    fixed.append(e)
                else:
                    known[(e["property"], e["rule"], e["key"])] = e
    return known, fixed


def finish(report, tier, seed, t0, replay_key=None):
    """Print verdict lines, write evidence, return exit code."""
    pid = report.pid
    known, fixed = load_known()
    viol, kf = [], []
    used = set()
    for o in report.obls:
        if o.ok:
            continue
        k = (pid, o.rule, o.key)
        if k in known:
            kf.append((o, known[k]))
            used.add(k)
        else:
            viol.append(o)
    # a listed finding that no longer fires is reported (stale list), not fatal
    stale = [k for k in known if k[0] == pid and k not in used]
    if replay_key is not None:
        viol = [o for o in viol if "%s|%s" % (o.rule, o.key) == replay_key]

    evdir = os.path.join(VERIF, "evidence")
    if os.path.realpath(factsmod.repo_root()) != "/repo":
        # a run against a scratch tree (mutant self-test, regression probe) must not overwrite the evidence of /repo
        evdir = os.path.join(os.environ.get("TMPDIR", "/tmp"), "p2verif-scratch-evidence-%d" % os.getpid())
    os.makedirs(os.path.join(evdir, "replay"), exist_ok=True)
    print("== %s tier=%s: %d rule instances, %d hold, %d known findings, %d violations" % (
        pid, tier, len(report.obls), sum(1 for o in report.obls if o.ok), len(kf), len(viol)))
    for k, v in sorted(report.analysed.items()):
        print("   analysed %-40s %s" % (k, v))
    for n in report.notes:
        print("   note: " + n)
    for o, e in kf:
        print("KNOWN-FINDING: property=%s %s|%s %s [%s]" % (pid, o.rule, o.key, e.get("what", ""), o.loc))
    for k in stale:
        print("   note: listed known finding no longer fires (repaired?): %s|%s" % (k[1], k[2]))
    for i, o in enumerate(viol):
        rp = os.path.join(evdir, "replay", "%s-%d.json" % (pid, i))
        with open(rp, "w") as fh:
            json.dump({"property": pid, "replay_key": "%s|%s" % (o.rule, o.key), **o.as_json()}, fh, indent=1)
        print("%s  rule=%s  instance=%s  %s" % (o.loc, o.rule, o.key, o.detail))
        print("VIOLATION property=%s replay=%s" % (pid, rp))

    nontriv = {(o.rule, o.key) for o in report.obls if o.nontrivial}
    samples = []
    # deterministic sample selection driven by the seed
    obs = [o for o in report.obls if o.nontrivial]
    if obs:
        step = max(1, len(obs) // 12)
        start = seed % step if step > 1 else 0
        samples = [o.as_json() for o in obs[start::step][:14]]
    for o, _ in kf[:6]:
        samples.append(dict(o.as_json(), verdict="KNOWN-FINDING"))
    for o in viol[:6]:
        samples.append(o.as_json())
    ev = {
        "property_id": pid,
        "tier": tier,
        "seed": seed,
        "level": "other",
        "coverage": {
            "explanation": report.explanation,
            "obligations": len(report.obls),
            "discharged": sum(1 for o in report.obls if o.ok),
            "evaluations": len(report.obls),
            "distinct_nontrivial": len(nontriv),
            "rule": "one evaluation = one rule instance (site, table row, path obligation) extracted from the "
                    "type-checked program of /repo's working tree; non-trivial = not an anchor/floor bookkeeping "
                    "instance; distinct by (rule, site key)",
            "samples": samples,
            "analysed": report.analysed,
            "known_findings": [dict(o.as_json(), what=e.get("what", "")) for o, e in kf],
            "notes": report.notes,
            "exhaustive": True,
        },
        "assumptions": report.assumptions,
        "wall_s": round(time.time() - t0, 2),
        "violations": len(viol),
    }
    with open(os.path.join(evdir, "%s.json" % pid), "w") as fh:
        json.dump(ev, fh, indent=1)
    if evdir != os.path.join(VERIF, "evidence"):
        import shutil
        shutil.rmtree(evdir, ignore_errors=True)
    return 1 if viol else 0
