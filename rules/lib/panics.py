"""E1 — panic-site audit with guard-dominance discharge.

Enumerates every panic-capable site (MIR Assert terminators and calls to
callees that panic on some arguments) in the functions reachable from a set of
roots, and discharges each by: constant reasoning, linear guard facts that
dominate the site, a type rule for usize bookkeeping, or a frozen table of
justified sites (one reason per entry).  What is left is a violation.
"""
import json
import os
import re
from collections import defaultdict

from . import mir as M
from . import hir as H
from . import facts as factsmod

TABLES = os.path.join(factsmod.VERIF, "tables")

UNSIGNED = {"usize", "u8", "u16", "u32", "u64", "u128"}
SIGNED = {"isize", "i8", "i16", "i32", "i64", "i128"}


def load_table(name):
    with open(os.path.join(TABLES, name)) as fh:
        return json.load(fh)


# ---------------------------------------------------------------------------
# linear forms over opaque atoms
# ---------------------------------------------------------------------------
class Lin:
    __slots__ = ("c", "k")

    def __init__(self, c=None, k=0):
        self.c = dict(c or {})
        self.k = k

    def add(self, o, f=1):
        r = Lin(self.c, self.k + f * o.k)
        for a, v in o.c.items():
            nv = r.c.get(a, 0) + f * v
            if nv:
                r.c[a] = nv
            else:
                r.c.pop(a, None)
        return r

    def scale(self, f):
        return Lin({a: v * f for a, v in self.c.items() if v * f}, self.k * f)

    def is_const(self):
        return not self.c

    def __repr__(self):
        parts = ["%+d·%s" % (v, a) for a, v in sorted(self.c.items())]
        return " ".join(parts) + " %+d" % self.k


LEN_CALLS = re.compile(r"(std::vec::Vec::<T, A>::len|core::slice::<impl \[T\]>::len|std::string::String::len|"
                       r"core::str::<impl str>::len|std::collections::HashMap::<K, V, S, A>::len|"
                       r"std::collections::VecDeque::<T, A>::len)$")
EMPTY_CALLS = re.compile(r"(std::vec::Vec::<T, A>::is_empty|core::slice::<impl \[T\]>::is_empty|"
                         r"std::string::String::is_empty|core::str::<impl str>::is_empty)$")


def strip_refs(s):
    while s[0] in ("ref", "deref") or (s[0] == "cast" and s[3].startswith("PointerCoercion")) or \
            (s[0] == "call" and s[1] and re.search(r"(as std::ops::Deref(Mut)?>::deref(_mut)?|::as_slice|::as_mut_slice|"
                                                     r"as std::convert::AsRef<.*>>::as_ref|::as_bytes|::as_str)$", s[1]) and len(s[2]) == 1):
        s = s[2][0] if s[0] == "call" else (s[2] if s[0] == "cast" else s[1])
    return s


def _canon_atom(t):
    # borrows and dereferences do not change the value an atom stands for (`len(&*v)` is `len(v)`, `*n` is `n`)
    return re.sub(r"[&*]+", "", t)


def atom_of(s):
    return _canon_atom(M.show(s, -24))


def len_atom(base):
    return "len(%s)" % _canon_atom(M.show(strip_refs(base), -24))


class Ctx:
    """per-body helper: types of atoms, linearisation"""

    def __init__(self, B, F=None):
        self.B = B
        self.F = F
        self.nonneg = set()
        self.extra = []      # intrinsic facts discovered while linearising (loop indices, slice lengths)

    def ty_of(self, s):
        if s[0] in ("var", "arg"):
            return self.B.local_ty(s[2])
        if s[0] == "tmp":
            return self.B.local_ty(s[1])
        if s[0] == "cast":
            return s[1]
        if s[0] == "const":
            return s[2]
        if s[0] == "deref":
            t = self.ty_of(s[1])
            if t:
                t = t.strip()
                if t.startswith("&mut "):
                    return t[5:]
                if t.startswith("&"):
                    return t[1:]
            return t
        if s[0] == "ref":
            t = self.ty_of(s[1])
            return ("&" + t) if t else None
        if s[0] == "field" and self.F is not None:
            bt = self.ty_of(s[1])
            if bt:
                bt = bt.strip().lstrip("&")
                if bt.startswith("mut "):
                    bt = bt[4:]
                adt = self.F.adts.get(bt)
                if adt and adt["kind"] == "struct":
                    for fd in adt["variants"][0]["fields"]:
                        if fd["name"] == s[2]:
                            return fd["ty"]
        if s[0] == "call" and s[1] and LEN_CALLS.search(s[1]):
            return "usize"
        if s[0] == "field" and s[2] == "0" and s[1][0] == "downcast" and s[1][2] == "Some":
            # payload of an Option<T>
            bt = (self.ty_of(s[1][1]) or "").strip().lstrip("&").strip()
            m = re.match(r"^(?:std::option::)?Option<(.*)>$", bt)
            if m:
                return m.group(1)
        if s[0] == "downcast":
            return self.ty_of(s[1])
        return None

    def loop_bounds(self, s):
        """lo <= s < hi for terms that are the item of a counting iterator"""
        t = s
        # enumerate: (idx, item) = Some.0 ; idx = .0
        enum = False
        if t[0] == "field" and t[2] == "0" and t[1][0] == "field" and t[1][2] == "0" and t[1][1][0] == "downcast":
            enum = True
            t = t[1]
        if not (t[0] == "field" and t[2] == "0" and t[1][0] == "downcast" and t[1][2] == "Some"):
            return None
        c = t[1][1]
        if c[0] != "call" or not c[1] or not c[1].endswith("::next"):
            return None
        it = strip_refs(c[2][0])
        # peel adaptor calls
        kinds = []
        while it[0] == "call" and it[1]:
            nm = it[1]
            if nm.endswith("into_iter") or nm.endswith("::iter") or nm.endswith("::iter_mut"):
                inner = strip_refs(it[2][0])
                if nm.endswith("into_iter") and inner[0] in ("call", "agg"):
                    it = inner
                    continue
                kinds.append("iter")
                it = inner
                break
            if self.split_count_atom(it) is not None:
                kinds.append("split")
                break
            if nm.endswith("Iterator::enumerate"):
                kinds.append("enumerate")
            elif nm.endswith("Iterator::rev"):
                kinds.append("rev")
            elif nm.endswith("Iterator::step_by"):
                kinds.append("step_by")
            else:
                return None
            it = strip_refs(it[2][0])
        if enum and kinds == ["enumerate", "split"]:
            # position of a piece of `s.split(c)`: below the number of pieces of that same split
            a = self.split_count_atom(it)
            self.nonneg.add(a)
            return Lin(k=0), Lin({a: 1})
        if enum:
            if "enumerate" not in kinds:
                return None
            # index of enumerate over a slice/vec iterator: 0 <= idx < len(x)
            if kinds and kinds[-1] == "iter" and "step_by" not in kinds:
                a = len_atom(it)
                self.nonneg.add(a)
                return Lin(k=0), Lin({a: 1})
            return None
        if it[0] == "agg" and it[1].endswith("Range") and "enumerate" not in kinds:
            return self.lin(it[2][0]), self.lin(it[2][1])
        return None

    def split_count_atom(self, it):
        """atom standing for the number of pieces of `<param>.split(<constant>)`, for a string parameter the function never
        reassigns: splitting the same immutable text by the same constant twice gives the same pieces, so the count tested
        before a loop bounds the positions `enumerate()` hands out in it.  None for anything else."""
        if not (it[0] == "call" and it[1] and re.search(r"core::str::<impl str>::(split|split_terminator|splitn)$", it[1]) and len(it[2]) == 2):
            return None
        recv, pat = strip_refs(it[2][0]), strip_refs(it[2][1])
        while recv[0] in ("ref", "deref"):
            recv = recv[1]
        if recv[0] != "arg" or pat[0] != "const":
            return None
        if self.B.defs().get(recv[2]):
            return None
        return "count(%s.split(%s))" % (recv[1], pat[1])

    def lin(self, s, depth=0):
        """linear form of an integer-valued term"""
        t = s[0]
        if depth > 30:
            return Lin({atom_of(s): 1})
        if t == "call" and s[1] and s[1].endswith("Iterator::count") and len(s[2]) == 1:
            a = self.split_count_atom(strip_refs(s[2][0]))
            if a is not None:
                self.nonneg.add(a)
                return Lin({a: 1})
        if t == "const" and isinstance(s[1], int) and not isinstance(s[1], bool):
            return Lin(k=s[1])
        if t == "field" and s[2] == "0" and s[1][0] == "bin" and s[1][1].endswith("WithOverflow"):
            return self.lin(("bin", s[1][1][:-len("WithOverflow")], s[1][2], s[1][3]), depth + 1)
        if t == "bin":
            op = s[1]
            if op in ("Add", "AddUnchecked"):
                return self.lin(s[2], depth + 1).add(self.lin(s[3], depth + 1))
            if op in ("Sub", "SubUnchecked"):
                return self.lin(s[2], depth + 1).add(self.lin(s[3], depth + 1), -1)
            if op in ("Mul", "MulUnchecked"):
                a, b = self.lin(s[2], depth + 1), self.lin(s[3], depth + 1)
                if a.is_const():
                    return b.scale(a.k)
                if b.is_const():
                    return a.scale(b.k)
        if (t == "un" and s[1] == "PtrMetadata") or (t == "call" and s[1] and LEN_CALLS.search(s[1]) and len(s[2]) == 1):
            base = strip_refs(s[2] if t == "un" else s[2][0])
            if base[0] == "index" and base[2][0] == "agg" and base[2][1].endswith("::Range") and len(base[2][2]) == 2:
                # length of x[lo..hi] is hi - lo (the slicing itself is a separate audited site)
                return self.lin(base[2][2][1], depth + 1).add(self.lin(base[2][2][0], depth + 1), -1)
            if base[0] == "call" and base[1] == "std::vec::from_elem" and len(base[2]) == 2:
                return self.lin(base[2][1], depth + 1)
            if base[0] == "repeat" and str(base[2]).isdigit():
                return Lin(k=int(base[2]))
            if base[0] == "agg" and base[1] == "array":
                return Lin(k=len(base[2]))
            if base[0] == "const" and isinstance(base[2], str):
                mm = re.search(r"\[.*; (\d+)\]$", base[2].strip())
                if mm:
                    return Lin(k=int(mm.group(1)))
            if base[0] in ("var", "arg", "tmp"):
                # a fixed-size array (also one whose elements are assigned): its length is its type's
                mm = re.match(r"^\[.*; (\d+)\]$", (self.ty_of(base) or "").strip().lstrip("&").replace("mut ", "").strip())
                if mm:
                    return Lin(k=int(mm.group(1)))
            a = len_atom(base)
            self.nonneg.add(a)
            return Lin({a: 1})
        if t == "call" and s[1] == "code::definitions::Instructions::len" and len(s[2]) == 1:
            a = len_atom(("field", strip_refs(s[2][0]), "code"))
            self.nonneg.add(a)
            return Lin({a: 1})
        if t in ("ref", "deref"):
            return self.lin(s[1], depth + 1)
        if t == "cast" and s[3] == "IntToInt":
            inner0 = self.lin(s[2], depth + 1)
            if inner0.is_const() and 0 <= inner0.k < 2 ** 31:
                return inner0
            src = self.ty_of(s[2])
            # widening between unsigned types (or to a wider signed type) preserves the value
            if src in UNSIGNED and (s[1] in UNSIGNED or s[1] in SIGNED) and _width(s[1]) >= _width(src) and \
                    not (s[1] in SIGNED and _width(s[1]) == _width(src)):
                inner = self.lin(s[2], depth + 1)
                return inner
        a = atom_of(s)
        ty = self.ty_of(s)
        if t == "call" and s[1] and re.search(r"(std::cmp::(max|min)|std::cmp::Ord::(max|min)|core::cmp::(max|min))$", s[1]) and len(s[2]) == 2 and depth < 8:
            # m = max(x, y): m >= x, m >= y ; m = min(x, y): x >= m, y >= m
            me = Lin({a: 1})
            sign = 1 if s[1].endswith("max") else -1
            for arg in s[2]:
                la = self.lin(arg, depth + 1)
                self.extra.append((me.add(la, -1).scale(sign), ">="))
            if all(all(x in self.nonneg for x in self.lin(arg, depth + 1).c) and self.lin(arg, depth + 1).k >= 0 for arg in s[2]):
                self.nonneg.add(a)
        if ty in UNSIGNED:
            self.nonneg.add(a)
        if t == "cast" and s[1] in UNSIGNED:
            self.nonneg.add(a)
        lb = self.loop_bounds(s) if depth < 6 else None
        if lb is not None:
            lo, hi = lb
            me = Lin({a: 1})
            self.extra.append((me.add(lo, -1), ">="))
            self.extra.append((hi.add(me, -1).add(Lin(k=1), -1), ">="))
            self.nonneg.add(a)
        return Lin({a: 1})


def _width(t):
    return {"u8": 8, "i8": 8, "u16": 16, "i16": 16, "u32": 32, "i32": 32, "u64": 64, "i64": 64, "usize": 64, "isize": 64,
            "u128": 128, "i128": 128}.get(t, 0)


# ---------------------------------------------------------------------------
# facts from dominating branch edges
# ---------------------------------------------------------------------------
def cmp_facts(cx, op, a, b, truth):
    """facts (Lin >= 0 | Lin == 0 | Lin != 0) from a comparison a op b being `truth`"""
    la, lb = cx.lin(a), cx.lin(b)
    neg = {"Lt": "Ge", "Le": "Gt", "Gt": "Le", "Ge": "Lt", "Eq": "Ne", "Ne": "Eq"}
    if not truth:
        op = neg[op]
    if op == "Lt":
        return [(lb.add(la, -1).add(Lin(k=1), -1), ">=")]
    if op == "Le":
        return [(lb.add(la, -1), ">=")]
    if op == "Gt":
        return [(la.add(lb, -1).add(Lin(k=1), -1), ">=")]
    if op == "Ge":
        return [(la.add(lb, -1), ">=")]
    if op == "Eq":
        return [(la.add(lb, -1), "==")]
    if op == "Ne":
        return [(la.add(lb, -1), "!=")]
    return []


CMP_CALLS = {"lt": "Lt", "le": "Le", "gt": "Gt", "ge": "Ge", "eq": "Eq", "ne": "Ne"}


def cond_facts(cx, s, truth, depth=0):
    """facts implied by boolean term s having value `truth`"""
    if depth > 8:
        return []
    t = s[0]
    if t == "bin" and s[1] in ("Lt", "Le", "Gt", "Ge", "Eq", "Ne"):
        return cmp_facts(cx, s[1], s[2], s[3], truth)
    if t == "un" and s[1] == "Not":
        return cond_facts(cx, s[2], not truth, depth + 1)
    if t == "call" and s[1]:
        m = re.search(r"std::cmp::Partial(Ord|Eq)(<[^>]*>)?( for [^>]*)?>?::(lt|le|gt|ge|eq|ne)$", s[1])
        if m and len(s[2]) == 2:
            return cmp_facts(cx, CMP_CALLS[m.group(4)], strip_refs(s[2][0]), strip_refs(s[2][1]), truth)
        m = re.search(r"std::ops::Range(Inclusive)?::<Idx>::contains$", s[1])
        if m and len(s[2]) == 2 and truth:
            # `(1..=2).contains(&n)`: the bounds are a promoted constant in MIR; they are read from the range literal the
            # HIR has on the line of this call (only when it is the one `contains` over a literal range on that line)
            rng = _literal_range(cx, s)
            if rng is not None:
                lo, hi = rng
                item = cx.lin(strip_refs(s[2][1]))
                return [(item.add(Lin(k=lo), -1), ">="), (Lin(k=hi if m.group(1) else hi - 1).add(item, -1), ">=")]
        if EMPTY_CALLS.search(s[1]) and len(s[2]) == 1:
            a = len_atom(s[2][0])
            cx.nonneg.add(a)
            if truth:
                return [(Lin({a: 1}), "==")]
            return [(Lin({a: 1}, -1), ">=")]
    if t in ("var", "tmp") and depth < 4:
        # a boolean that was given a name (`let fits = a < M && b <= N; if !fits { return .. }`): MIR assigns it `false` on the edge
        # where the first conjunct fails and the value of the second conjunct otherwise.  For the value asked for, the assignments of
        # the opposite constant are ruled out; if one assignment remains, its value has that truth and the branch conditions that
        # dominate it held when it ran.
        B = cx.B
        l = s[2] if t == "var" else s[1]
        if (B.local_ty(l) or "") == "bool":
            cands = []
            for (bi, si, node) in B.defs().get(l, []):
                if si == "term":
                    cands.append((bi, None))
                    continue
                rv = node["rv"]
                if rv["k"] == "use" and rv["a"]["k"] == "const" and isinstance(rv["a"].get("val"), bool):
                    if rv["a"]["val"] == truth:
                        cands.append((bi, "const"))
                    continue
                cands.append((bi, B.sym_rv(rv, through_vars="pure")))
            if len(cands) == 1 and cands[0][1] not in (None, "const"):
                bi, sym = cands[0]
                out = cond_facts(cx, sym, truth, depth + 1)
                try:
                    fs, _ = edge_facts(B, cx, bi, _depth=depth + 1)
                    out = out + fs
                except RecursionError:
                    pass
                return out
    return []


def _literal_range(cx, s):
    from . import hir as H
    bb = s[3][0] if len(s) > 3 and s[3] else None
    fn = getattr(cx.B, "fn", None)
    if bb is None or fn is None or not fn.get("hir") or bb >= len(cx.B.blocks):
        return None
    line = cx.B.blocks[bb]["term"].get("line")
    found = []
    for x in H.walk(H.body_of(fn)):
        if x.get("k") == "mcall" and x["m"] == "contains" and x.get("line") == line:
            r = x["recv"]
            while r.get("k") in ("ref", "paren") or (r.get("k") == "block" and not r.get("stmts") and r.get("expr") is not None):
                r = r["e"] if "e" in r else r["expr"]
            lo = hi = None
            if r.get("k") == "call" and (r.get("callee") or "").endswith("RangeInclusive::<Idx>::new") and len(r["args"]) == 2:
                lo, hi = r["args"]
            elif r.get("k") == "struct" and H.last(r["res"].get("path") or "") == "Range":
                fl = {fd["name"]: fd["e"] for fd in r["fields"]}
                lo, hi = fl.get("start"), fl.get("end")
            if lo is not None and hi is not None and lo.get("k") == "lit" and hi.get("k") == "lit" and isinstance(lo.get("v"), int) and isinstance(hi.get("v"), int):
                found.append((lo["v"], hi["v"]))
            else:
                found.append(None)
    if len(found) == 1 and found[0] is not None:
        return found[0]
    return None


_OK_FACTS = {}


def ok_facts(F, callee, depth=0):
    """Summary of a checking helper of the repository (`fn expect_one_arg(args: &[T]) -> Result<(), E>`): the facts
    about its parameters that hold on *every* path on which it returns Ok — [(Lin over `arg` atoms, rel)].  Used where
    a caller continues only on `helper(..)?`'s success edge, so an arity test moved into a helper still guards `args[k]`."""
    key = (id(F), callee)
    if key in _OK_FACTS:
        return _OK_FACTS[key]
    _OK_FACTS[key] = []
    g = F.fn(callee)
    if g is None or not g.get("mir") or depth > 2:
        return []
    Bh = M.Body(g)
    if Bh.n > 60:
        return []
    cxh = Ctx(Bh, F)
    oks = []
    for bi, b in enumerate(Bh.blocks):
        if b.get("cleanup"):
            continue
        for st in b["stmts"]:
            if st.get("k") == "assign" and st["lhs"]["l"] == 0 and not st["lhs"]["p"]:
                rv = st["rv"]
                if rv.get("k") == "agg" and str(rv.get("ak", "")).endswith("Result::Ok"):
                    oks.append(bi)
                elif rv.get("k") == "agg" and str(rv.get("ak", "")).endswith("Result::Err"):
                    pass
                else:
                    return []      # the result is computed some other way: no summary
    if not oks or bi is None:
        return []
    common = None
    for bi in oks:
        fs, _ = edge_facts(Bh, cxh, bi, depth + 1)
        reprs = {(repr(l), rel): (l, rel) for l, rel in fs}
        common = reprs if common is None else {k: v for k, v in common.items() if k in reprs}
    out = list((common or {}).values())
    _OK_FACTS[key] = out
    return out


def _subst_atoms(lin, mapping):
    """rename atoms of a Lin by substring replacement of parameter atoms (longest first)"""
    c = {}
    for a, v in lin.c.items():
        a2 = a
        for src in sorted(mapping, key=len, reverse=True):
            a2 = a2.replace(src, mapping[src])
        c[a2] = c.get(a2, 0) + v
    return Lin(c, lin.k)


_WRITES = {}
_EXCL = {}


def _borrows_excl(F, callee, depth=0):
    """may the repository function take an exclusive RefCell borrow (itself or through what it calls)?"""
    key = (id(F), callee)
    if key in _EXCL:
        return _EXCL[key]
    _EXCL[key] = False
    f = F.fns.get(callee)
    out = False
    if f is None or not f.get("mir") or depth > 6:
        out = True
    else:
        for blk in f["mir"]["blocks"]:
            tt = blk["term"]
            if tt["k"] != "call" or blk.get("cleanup"):
                continue
            c = tt.get("callee")
            if c is None:
                out = True
            elif REFCELL_RX.match(c) and not c.endswith("::borrow"):
                out = True
            elif c in F.fns and _borrows_excl(F, c, depth + 1):
                out = True
            if out:
                break
    _EXCL[key] = out
    return out



def _writes(F, callee, depth=0):
    """names of the fields a repository function may assign, itself or through the repository functions it calls"""
    key = (id(F), callee)
    if key in _WRITES:
        return _WRITES[key]
    _WRITES[key] = set()          # recursion guard
    f = F.fns.get(callee) if F is not None else None
    out = set()
    if f is None or not f.get("mir") or depth > 6:
        _WRITES[key] = {"*"}
        return _WRITES[key]
    for blk in f["mir"]["blocks"]:
        for st in blk["stmts"]:
            if st["k"] == "assign" and st["lhs"]["p"]:
                out |= {pe.get("n") for pe in st["lhs"]["p"] if isinstance(pe, dict) and pe.get("n")}
        tt = blk["term"]
        if tt["k"] == "call":
            c = tt.get("callee")
            if c in F.fns:
                out |= _writes(F, c, depth + 1)
            elif c is None:
                out.add("*")
            # external callees write only through what they are handed: a `&mut self.field` borrow names the field
            for st in blk["stmts"]:
                if st["k"] == "assign" and st["rv"]["k"] == "ref" and st["rv"].get("mut"):
                    out |= {pe.get("n") for pe in st["rv"]["pl"]["p"] if isinstance(pe, dict) and pe.get("n")}
    _WRITES[key] = out
    return out


def _stale(B, sym, d, chosen, site_bb, F=None):
    """does the condition tested in block d mention a local that may be assigned between d and the site?"""
    locs = set()
    for x in M.subterms(sym):
        if x[0] in ("var", "arg") and len(x) > 2 and isinstance(x[2], int):
            locs.add(x[2])
        elif x[0] == "tmp" and isinstance(x[1], int):
            locs.add(x[1])
    locs = {l for l in locs if len(B.defs().get(l, [])) > (0 if l <= B.arg_count else 1)}
    # places read through a reference (`self.sp`, `scope.instructions.code`): fields that may be written in between
    fields = set()      # (root local, field name)
    for x in M.subterms(sym):
        if x[0] == "field" and isinstance(x[2], str):
            r = x[1]
            while r[0] in ("field", "deref", "ref", "index", "downcast"):
                r = r[1]
            # (a `.0` of a checked operation or of a call result is not a place)
            if r[0] in ("var", "arg", "tmp"):
                fields.add((r[2] if r[0] != "tmp" else r[1], x[2]))
    # ... and anything else read through a `&mut` reference (`v.len()` with v: &mut Vec): changed by whoever is handed v mutably
    mroots = set()
    for x in M.subterms(sym):
        if x[0] == "deref":
            r = x[1]
            while r[0] in ("field", "deref", "ref", "index", "downcast"):
                r = r[1]
            l_ = r[2] if r[0] in ("var", "arg") and len(r) > 2 else (r[1] if r[0] == "tmp" else None)
            if isinstance(l_, int) and (B.local_ty(l_) or "").lstrip().startswith("&mut"):
                mroots.add(l_)
    # ... and owned values the test looks at (`v.len()` of a local Vec): changed by whoever is handed `&mut v` in between
    for x in M.subterms(sym):
        if x[0] in ("var", "arg") and len(x) > 2 and isinstance(x[2], int) and x[2] in B.mut_borrows():
            mroots.add(x[2])
    cells = any(x[0] == "call" and x[1] and REFCELL_RX.match(x[1]) for x in M.subterms(sym))
    if not locs and not fields and not mroots and not cells:
        return False
    key = ("_between", d, chosen, site_bb)
    if key not in B._cache:
        fwd = B.reachable(chosen, avoid=[d])
        between = {b for b in fwd if b == site_bb or site_bb in B.reachable(b, avoid=[d])}
        B._cache[key] = between
    between = B._cache[key]
    for l in locs:
        for (bi, si, node) in B.defs().get(l, []):
            if bi in between:
                if bi == site_bb and si == "term":
                    continue     # the site's own result
                return True
    if cells:
        # read through a RefCell: an exclusive borrow taken in between — here or in a repository function called in between —
        # may change what was read
        for bi in between:
            tt = B.blocks[bi]["term"]
            if tt["k"] == "call" and bi != site_bb and not B.blocks[bi].get("cleanup"):
                cal = tt.get("callee")
                if cal and REFCELL_RX.match(cal) and not cal.endswith("::borrow"):
                    return True
                if cal is None or (F is not None and cal in F.fns and _borrows_excl(F, cal)):
                    return True
    if fields or mroots:
        names = {n for _, n in fields}
        roots = {r for r, _ in fields} | mroots
        for bi in between:
            blk = B.blocks[bi]
            if blk.get("cleanup"):
                continue
            for st in blk["stmts"]:
                if st["k"] == "assign" and st["lhs"]["p"]:
                    if any(isinstance(pe, dict) and "f" in pe and ((pe.get("n") or str(pe.get("f"))) in names) for pe in st["lhs"]["p"]):
                        return True
            tt = blk["term"]
            if tt["k"] == "call" and bi != site_bb:
                # a callee handed a mutable borrow rooted at the same object may write the field
                for a in tt.get("args", []):
                    if a.get("k") in ("copy", "move") and not a["pl"]["p"]:
                        for (b2, s2, n2) in B.defs().get(a["pl"]["l"], []):
                            rv = n2.get("rv") if s2 != "term" else None
                            if rv and rv["k"] == "ref" and rv.get("mut"):
                                root = rv["pl"]["l"]
                                borrowed = {pe.get("n") for pe in rv["pl"]["p"] if isinstance(pe, dict) and pe.get("n")}
                                cal = tt.get("callee")
                                if root in mroots and not names:
                                    pass         # the whole value behind the reference is at the callee's mercy
                                elif borrowed:
                                    # `&mut self.stack` exposes that field only
                                    if not (borrowed & names) and not (cal in (F.fns if F is not None else {}) and (_writes(F, cal) & (names | {"*"}))):
                                        continue
                                elif cal is not None and F is not None and cal in F.fns and not (_writes(F, cal) & (names | {"*"})):
                                    continue     # the callee (and what it calls) never assigns these fields
                                # through a reborrow chain to the root local
                                for _ in range(4):
                                    dd = B.defs().get(root, [])
                                    if len(dd) == 1 and dd[0][1] != "term" and dd[0][2]["rv"]["k"] in ("ref", "use") and (dd[0][2]["rv"].get("pl") or dd[0][2]["rv"].get("a", {}).get("pl")):
                                        pl_ = dd[0][2]["rv"].get("pl") or dd[0][2]["rv"]["a"]["pl"]
                                        root = pl_["l"]
                                    else:
                                        break
                                if root in roots:
                                    return True
    return False


def edge_facts(B, cx, site_bb, _depth=0):
    """facts holding at entry of site_bb from dominating conditional edges"""
    dom = B.dominators()
    preds = B.preds()
    facts = []
    variants = []
    for d in dom.get(site_bb, ()):
        t = B.blocks[d]["term"]
        if t["k"] != "switch":
            continue
        # which successor edge dominates the site?
        succs = list(dict.fromkeys(t["ts"] + [t["otherwise"]]))
        chosen = None
        for s in succs:
            if s == site_bb or (B.dominates(s, site_bb) and len(preds[s]) == 1):
                if len(preds[s]) == 1:
                    chosen = s if chosen is None else "ambiguous"
        if chosen is None or chosen == "ambiguous":
            # the site may be reachable only when the switch did NOT take some edges: use reachability
            reach_without = {}
            cand = []
            for s in succs:
                others = [x for x in succs if x != s]
                # site reachable from s without passing d again?
                if site_bb in B.reachable(s, avoid=[d]):
                    cand.append(s)
            if len(cand) == 1:
                chosen = cand[0]
            else:
                continue
        sym = B.sym_op(t["d"], through_vars="pure")
        # a condition on a local that is assigned again on the way from the test to the site says nothing about the
        # value the site sees (`if i < v.len() { i += 5; v[i] }`)
        if _stale(B, sym, d, chosen, site_bb, cx.F):
            continue
        vals = [v for v, tt in zip(t["vals"], t["ts"]) if tt == chosen]
        is_other = chosen == t["otherwise"] and chosen not in [tt for tt in t["ts"]]
        if t.get("dty") == "bool":
            if vals == [0]:
                facts += cond_facts(cx, sym, False)
            elif is_other or vals == [1]:
                facts += cond_facts(cx, sym, True)
        else:
            if sym[0] == "discr":
                # `helper(args..)?` continued on its success edge (discriminant 0 of ControlFlow = Continue): the helper's
                # Ok-summary holds here
                inner = strip_refs(sym[1])
                if inner[0] == "call" and (inner[1] or "").endswith("Try>::branch") and len(inner[2]) == 1 and vals == [0] and cx.F is not None and _depth < 2:
                    hc = strip_refs(inner[2][0])
                    if hc[0] == "call" and hc[1] in cx.F.fns:
                        gh = cx.F.fns[hc[1]]
                        if gh.get("mir"):
                            Bh = M.Body(gh)
                            mapping = {}
                            for i, a in enumerate(hc[2]):
                                if i + 1 <= Bh.arg_count:
                                    pa = M.show(("arg", Bh.local_name(i + 1) or "_%d" % (i + 1), i + 1))
                                    mapping[pa] = _canon_atom(M.show(strip_refs(a), -24))
                            for l, rel in ok_facts(cx.F, hc[1], _depth):
                                l2 = _subst_atoms(l, mapping)
                                for a in l2.c:
                                    if a.startswith("len("):
                                        cx.nonneg.add(a)
                                facts.append((l2, rel))
                # `match xs.first() { None => .., Some(x) => .. }` (also through .cloned() / .copied()): the slice is empty / is not
                fo = strip_refs(sym[1])
                while fo[0] == "call" and fo[1] and re.search(r"Option::<(&|&mut )?T>::(cloned|copied|as_ref|as_deref)$|Option::<T>::(as_ref|as_deref)$", fo[1]) and len(fo[2]) == 1:
                    fo = strip_refs(fo[2][0])
                if fo[0] == "call" and fo[1] and re.search(r"core::slice::<impl \[T\]>::(first|last|split_first|split_last)$", fo[1]) and len(fo[2]) == 1:
                    a_ = len_atom(fo[2][0])
                    cx.nonneg.add(a_)
                    is_none = (len(vals) == 1 and vals[0] == 0 and not is_other) or (is_other and 1 in t["vals"])
                    is_some = (len(vals) == 1 and vals[0] == 1 and not is_other) or (is_other and 0 in t["vals"])
                    if is_none:
                        facts.append((Lin({a_: 1}), "=="))
                    elif is_some:
                        facts.append((Lin({a_: 1}, -1), ">="))
                if is_other:
                    variants.append((M.show(strip_refs(sym[1])), "not", tuple(t["vals"])))
                elif len(vals) == 1:
                    variants.append((M.show(strip_refs(sym[1])), "is", vals[0]))
            else:
                l = cx.lin(sym)
                if len(vals) == 1 and not is_other:
                    facts.append((l.add(Lin(k=vals[0]), -1), "=="))
                elif len(vals) > 1 and not is_other and all(isinstance(v, int) for v in vals):
                    # `match n { 1 | 2 => .. }`: one of the listed values, so between the least and the greatest of them
                    facts.append((l.add(Lin(k=min(vals)), -1), ">="))
                    facts.append((Lin(k=max(vals)).add(l, -1), ">="))
                elif is_other:
                    for v in t["vals"]:
                        if isinstance(v, int):
                            facts.append((l.add(Lin(k=v), -1), "!="))
    return facts, variants


class _Facts(list):
    """edge facts plus the intrinsic facts a Ctx discovers lazily while linearising"""

    def __init__(self, base, cx):
        super().__init__(base)
        self.cx = cx

    def __iter__(self):
        return iter(list.__iter__(self).__class__ and (list(list.__iter__(self)) + list(self.cx.extra)))


def prove_ge0(goal, facts, nonneg, _rec=False):
    """goal >= 0 from facts (syntactic difference bounds, one or two facts)"""
    def residual_ok(r):
        # r = goal - combination; need r >= 0: every atom with positive coef must be nonneg, none negative
        for a, v in r.c.items():
            if v < 0 or a not in nonneg:
                return False
        return r.k >= 0
    if residual_ok(goal):
        return "arith"
    ge = []
    for l, op in facts:
        if op == ">=":
            ge.append(l)
        elif op == "==":
            ge.append(l)
            ge.append(l.scale(-1))
    for f in ge:
        if residual_ok(goal.add(f, -1)):
            return "guard"
    for i, f in enumerate(ge):
        for g in ge[i:]:
            if residual_ok(goal.add(f, -1).add(g, -1)):
                return "guards"
    # l != 0 together with l >= 0 (provable) gives l - 1 >= 0
    ne = [l for l, op in facts if op == "!="]
    if ne and not _rec:
        base = [(l, op) for l, op in facts if op != "!="]
        for l in ne:
            for cand in (l, l.scale(-1)):
                if prove_ge0(cand, base, nonneg, _rec=True):
                    if residual_ok(goal.add(cand.add(Lin(k=1), -1), -1)):
                        return "guard(!=)"
    for l, op in facts:
        if op == "!=":
            for f in ge + [Lin({a: 1}) for a in nonneg]:
                # f >= 0 and l != 0 with f == l  ⇒ f - 1 >= 0
                if f.c == l.c and f.k == l.k:
                    if residual_ok(goal.add(f.add(Lin(k=1), -1), -1)):
                        return "guard(!=)"
                    for g in ge:
                        if residual_ok(goal.add(f.add(Lin(k=1), -1), -1).add(g, -1)):
                            return "guards(!=)"
    return None


def prove_ne0(lin, facts, nonneg):
    for l, op in facts:
        if op == "!=" and l.c == lin.c and l.k == lin.k:
            return "guard"
        if op == "!=" and l.c == {a: -v for a, v in lin.c.items()} and l.k == -lin.k:
            return "guard"
    # lin - 1 >= 0 also implies != 0
    r = prove_ge0(lin.add(Lin(k=1), -1), facts, nonneg)
    if r:
        return r
    return None


# ---------------------------------------------------------------------------
# the audit
# ---------------------------------------------------------------------------
class Site:
    __slots__ = ("fn", "bb", "kind", "what", "operands", "line", "key", "verdict", "reason", "exp", "cls")

    def __init__(self, fn, bb, kind, what, operands, line, exp):
        self.fn, self.bb, self.kind, self.what, self.operands, self.line, self.exp = fn, bb, kind, what, operands, line, exp
        self.key = None
        self.verdict = None
        self.reason = ""
        self.cls = ""


class Audit:
    def __init__(self, F, cg=None):
        self.F = F
        self.cg = cg or M.CallGraph(F)
        self.callees = load_table("std_callees.json")
        self.never = [re.compile(p) for p in self.callees["never"]]
        self.onargs = [(re.compile(e["rx"]), e) for e in self.callees["on_args"]]
        self.memory = [re.compile(p) for p in self.callees["memory"]]
        self.os = [re.compile(p) for p in self.callees["os"]]
        jt = load_table("justified_sites.json")
        self.justified = jt["sites"]
        self.groups = jt.get("groups", [])
        self.group_hits = defaultdict(list)
        self.bodies = {}
        self.unclassified = defaultdict(list)
        self.used_justifications = set()

    def body(self, p):
        if p not in self.bodies:
            self.bodies[p] = M.Body(self.F.fns[p])
        return self.bodies[p]

    def callers_of(self, p):
        if not hasattr(self, "_callers"):
            self._callers = defaultdict(list)
            for q, f in self.F.fns.items():
                for bi, b in enumerate(f["mir"]["blocks"]):
                    t = b["term"]
                    if t["k"] == "call" and t.get("callee") in self.F.fns and not b.get("cleanup"):
                        self._callers[t["callee"]].append((q, bi))
            self._addr = set()
            for q, v in self.cg.addr_taken.items():
                self._addr |= set(v)
        return self._callers.get(p, []), (p in self._addr)

    def param_facts(self, p):
        """facts about parameters that hold at every (direct) call site: a constant value, or a
        constant length for slice/array-reference parameters.  None for address-taken functions."""
        if not hasattr(self, "_pf"):
            self._pf = {}
        if p in self._pf:
            return self._pf[p]
        self._pf[p] = []
        sites, addr = self.callers_of(p)
        if addr or not sites:
            return []
        B = self.body(p)
        out = []
        for i in range(1, B.arg_count + 1):
            name = B.local_name(i)
            vals, lens = set(), set()
            for (q, bi) in sites:
                Bq = self.body(q)
                t = Bq.blocks[bi]["term"]
                if i - 1 >= len(t["args"]):
                    vals.add("?")
                    lens.add("?")
                    continue
                a = Bq.sym_op(t["args"][i - 1], through_vars="pure")
                cq = Ctx(Bq, self.F)
                la = cq.lin(a)
                vals.add(la.k if la.is_const() else "?")
                ll = cq.lin(("un", "PtrMetadata", a))
                lens.add(ll.k if ll.is_const() else "?")
            atom = M.show(("arg", name or "_%d" % i, i))
            if len(vals) == 1 and "?" not in vals:
                out.append((Lin({atom: 1}, -list(vals)[0]), "=="))
            if len(lens) == 1 and "?" not in lens:
                out.append((Lin({"len(%s)" % atom: 1}, -list(lens)[0]), "=="))
            elif lens and "?" not in lens:
                out.append((Lin({"len(%s)" % atom: 1}, -min(lens)), ">="))
        self._pf[p] = out
        return out

    def classify_callee(self, c):
        for rx, e in self.onargs:
            if rx.search(c):
                return "on_args", e
        for rx in self.never:
            if rx.search(c):
                return "never", None
        for rx in self.memory:
            if rx.search(c):
                return "memory", None
        for rx in self.os:
            if rx.search(c):
                return "os", None
        return None, None

    def sites_of(self, p):
        f = self.F.fns[p]
        B = self.body(p)
        out = []
        live = B.reachable(0)
        for bi, b in enumerate(B.blocks):
            if b.get("cleanup") or bi not in live:
                continue
            t = b["term"]
            if t["k"] == "assert":
                k = t["msg"]["k"]
                if k in ("Misaligned", "NullDeref", "Other"):
                    continue
                out.append(Site(p, bi, "assert", k + (":" + t["msg"]["op"] if k == "Overflow" else ""), t["msg"], t.get("line"), t.get("exp", False)))
            elif t["k"] == "call":
                c = t.get("callee") or t.get("decl")
                if c is None:
                    continue  # indirect: targets are in the call graph through address-taken functions
                if c in self.F.fns:
                    continue
                cls, e = self.classify_callee(c)
                if cls == "on_args":
                    out.append(Site(p, bi, "call", c, t, t.get("line"), t.get("exp", False)))
                    out[-1].cls = e["class"]
                elif cls == "os" or cls == "memory":
                    pass
                elif cls is None:
                    self.unclassified[c].append((p, t.get("line")))
        # keys: ordinal among equal (kind, what) in this function
        cnt = defaultdict(int)
        for s in out:
            k = (s.kind, s.what)
            s.key = "%s | %s | #%d" % (p, _short_what(s.what), cnt[k])
            cnt[k] += 1
        return out

    # ---- discharge -------------------------------------------------------
    def discharge(self, s):
        B = self.body(s.fn)
        cx = Ctx(B, self.F)
        if s.kind == "assert":
            r = self._assert(B, cx, s)
        else:
            r = self._call(B, cx, s)
        if r:
            s.verdict, s.reason = "discharged", r
            return
        j = self.justified.get(s.key)
        if j is None and getattr(self.F, "config", "default") != "default":
            # site numbering (#n) follows basic-block order, which differs between build configurations: in an
            # alternative configuration any reviewed site of the same function and kind carries over (the default
            # configuration is the one held to the exact key)
            pre = s.key.rsplit("#", 1)[0]
            for k2, j2 in self.justified.items():
                if k2.rsplit("#", 1)[0] == pre:
                    j = j2
                    break
        if j and j.get("desc") and (s.kind == "assert" or s.cls == "index"):
            # (for index expressions, bounds checks and checked arithmetic: there the operands are what was reviewed; an
            # `unwrap()` on a write into a Vec is safe whatever the capacity expression reads like)
            # the entry was reviewed for particular operands: found by its key, it still has to be about an expression of the
            # same shape (constants, operators, calls, field structure; names of locals may change freely) — `stack[sp - 1]`
            # rewritten as `stack[sp]` at the same ordinal is a different site
            cur = _shape(_norm_desc(self._describe(B, cx, s)))
            if cur not in {_shape(_norm_desc(j["desc"])), _shape(_norm_desc(j.get("desc_inl") or j["desc"]))}:
                # a different shape is a different site when the arithmetic is the same and a constant in it changed
                # (`sp - 1` → `sp - 0`); a value spelled another way (a loop item become a counter, a flag become an
                # Option's payload) keeps the entry
                sig = lambda d_: (re.findall(r"(?:Add|Sub|Mul|Div|Rem|Shl|Shr)(?:WithOverflow)?", d_), re.findall(r"(?:(?<![\w.])(\d+) )?(?:Add|Sub|Mul|Div|Rem|Shl|Shr)(?:WithOverflow)?(?: (\d+)(?![\w.]))?", d_))
                o_new = sig(_norm_desc(self._describe(B, cx, s)))
                if o_new[0] and any(o_new[0] == sig(_norm_desc(d_))[0] and o_new[1] != sig(_norm_desc(d_))[1] for d_ in (j["desc"], j.get("desc_inl") or j["desc"])):
                    j = None
        if j:
            self.used_justifications.add(s.key)
            if not hasattr(self, "descs"):
                self.descs = {}
                self.descs_inl = {}
            self.descs[s.key] = self._describe(B, cx, s)
            if getattr(self, "record_inlined", False):
                inl = self._inlined(s.fn)
                if inl is not None:
                    self.descs_inl[s.key] = self._describe(inl[2], Ctx(inl[2], self.F), s)
            missing = self._requires(s.fn, j.get("requires", []), s)
            if missing:
                s.verdict = "open"
                s.reason = "justification no longer applies: the function lacks the guard it relies on (%s); was: %s" % (missing, j["reason"][:120])
                return
            s.verdict, s.reason = "justified", j["reason"]
            return
        desc = self._describe(B, cx, s)
        if self._by_table(s, s.fn, desc):
            return
        # second attempt, with the function's calls of small repository helpers inlined (MIR): a value computed by a
        # helper (`read_u16_operand(code, ip)`) is then seen as the expression the helper computes
        if self._with_helpers_inlined(s):
            return
        s.verdict, s.reason = "open", desc
        # third attempt: a site inside a helper all of whose callers are known is evaluated in the context of each caller
        self._via_callers(s, desc)

    def _by_table(self, s, fn, desc, key=None):
        """justified by a reviewed entry of function `fn`: same content as a per-site entry (the ordinal in the key is
        only the first thing tried), or a group"""
        wn = _norm_what(s.what)
        for k2, j2 in self.justified.items():
            kp = k2.split(" | ")
            if j2.get("desc") and len(kp) == 3 and kp[0] == fn and _norm_what(kp[1]) == wn and \
                    _norm_desc(desc) in (_norm_desc(j2["desc"]), _norm_desc(j2.get("desc_inl") or j2["desc"])):
                if self._requires(fn, j2.get("requires", []), s):
                    continue
                self.used_justifications.add(k2)
                s.verdict, s.reason = "justified", "[same site as %s] %s" % (k2.rsplit(" | ", 1)[1], j2["reason"])
                return True
        # the same expression up to the names of locals and the way an operand value is spelled (`num_args` a parameter in the
        # reviewed code, `args.len()` now): one reviewed site of this function and kind has this shape
        sh = _shape(_norm_desc(desc))
        same = [(k2, j2) for k2, j2 in self.justified.items() if j2.get("desc") and len(k2.split(" | ")) == 3 and k2.split(" | ")[0] == fn
                and _norm_what(k2.split(" | ")[1]) == wn and sh in (_shape(_norm_desc(j2["desc"])), _shape(_norm_desc(j2.get("desc_inl") or j2["desc"])))]
        if len(same) == 1 and not self._requires(fn, same[0][1].get("requires", []), s):
            self.used_justifications.add(same[0][0])
            s.verdict, s.reason = "justified", "[same shape as site %s] %s" % (same[0][0].rsplit(" | ", 1)[1], same[0][1]["reason"])
            return True
        # the site moved from a helper into the helper's only caller (`let args = self.stack[sp-n..sp].to_vec()` taken out of
        # call_builtin and done by exec_call before the call): same operands, and the helper has no other caller, so the
        # context the entry was reviewed in is the context of that caller
        for c_ in sorted(self.cg.edges.get(fn, ())):
            if c_ == fn or c_ not in self.F.fns:
                continue
            cl_, addr_ = self.callers_of(c_)
            if addr_ or {q_ for q_, _ in cl_} != {fn}:
                continue
            for k2, j2 in self.justified.items():
                kp = k2.split(" | ")
                if j2.get("desc") and len(kp) == 3 and kp[0] == c_ and _norm_what(kp[1]) == wn and _norm_desc(desc) == _norm_desc(j2["desc"]) \
                        and not j2.get("requires"):
                    self.used_justifications.add(k2)
                    s.verdict, s.reason = "justified", "[same site as %s %s, moved into its only caller] %s" % (M.short_callee(c_), kp[2], j2["reason"])
                    return True
        if "::{closure" in fn:
            # the site moved into a closure of the function its entry is about (`with_one_arg(args, |arg| ..)`): the same
            # panicking callee, one such site before and one now, and the guards the entry relies on still in the function
            parent = fn.split("::{closure")[0]
            cands = [(k2, j2) for k2, j2 in self.justified.items() if k2.split(" | ")[0] == parent and len(k2.split(" | ")) == 3
                     and _norm_what(k2.split(" | ")[1]) == wn]
            if len(cands) == 1:
                now = [x for q in self.F.fns if q == parent or q.startswith(parent + "::{closure") for x in self.sites_of(q) if _norm_what(x.what) == wn]
                if len(now) == 1 and not self._requires(parent, cands[0][1].get("requires", [])):
                    self.used_justifications.add(cands[0][0])
                    s.verdict, s.reason = "justified", "[same site as %s, now in a closure of the function] %s" % (cands[0][0].rsplit(" | ", 1)[1], cands[0][1]["reason"])
                    return True
        for gi, g in enumerate(self.groups):
            if (fn == g.get("fn") or ("fn_rx" in g and re.search(g["fn_rx"], fn))) and \
                    (re.search(g["what"], _short_what(s.what)) or re.search(g["what"], wn)) and re.search(g["operands"], _norm_desc(desc)):
                self.group_hits[gi].append(key or s.key)
                s.verdict, s.reason = "justified", "[group %s] %s" % (g["name"], g["reason"])
                return True
        return False

    INLINE_MAX = 120

    def _inlined(self, q, must=None, only=False):
        """(fn', where, Body) of q with its calls of small repository functions (and of `must`; with `only`, of `must`
        alone, so that the rest of q reads as it does in the reviewed tables) inlined"""
        if not hasattr(self, "_inl"):
            self._inl = {}
        k = (q, must, only)
        if k not in self._inl:
            fns = self.F.fns
            elig = lambda c: c != q and (c == must or (not only and len(fns[c]["mir"]["blocks"]) <= self.INLINE_MAX))
            f2, wh = M.inline_calls(self.F, fns[q], elig, depth=1 if only else 2)
            self._inl[k] = (f2, wh, M.Body(f2)) if wh else None
        return self._inl[k]

    def _try(self, B, s):
        cx = Ctx(B, self.F)
        r = self._assert(B, cx, s) if s.kind == "assert" else self._call(B, cx, s)
        return r, cx

    def _with_helpers_inlined(self, s):
        inl = self._inlined(s.fn)
        if inl is None:
            return False
        f2, wh, B2 = inl
        r, cx2 = self._try(B2, s)
        if r:
            s.verdict, s.reason = "discharged", r + " (helpers inlined)"
            return True
        return self._by_table(s, s.fn, self._describe(B2, cx2, s))

    def _via_callers(self, s, desc):
        p = s.fn
        if p.startswith("<") or "{closure" in p or "::<impl " in p and " for " in p:
            return False
        sites, addr = self.callers_of(p)
        if addr or not sites or len(sites) > 40:
            return False
        for q, f in self.F.fns.items():
            for b in f["mir"]["blocks"]:
                t = b["term"]
                if t["k"] == "call" and t.get("callee") is None and t.get("decl") == p:
                    return False
        reasons = []
        for (q, bi) in sites:
            if q == p:
                return False
            done, d2 = False, ""
            for only in (True, False):
                inl = self._inlined(q, must=p, only=only)
                if inl is None or (bi, p) not in inl[1]:
                    return False
                f2, wh, B2 = inl
                nb = wh[(bi, p)] + s.bb
                t = B2.blocks[nb]["term"]
                s2 = Site(q, nb, s.kind, s.what, t["msg"] if s.kind == "assert" else t, s.line, s.exp)
                s2.cls, s2.key = s.cls, s.key
                r, cx2 = self._try(B2, s2)
                if r:
                    reasons.append("%s: %s" % (M.short_callee(q), r))
                    done = True
                    break
                d2 = self._describe(B2, cx2, s2)
                if self._by_table(s2, q, d2, key=s.key + " @ " + q):
                    reasons.append("%s: %s" % (M.short_callee(q), s2.reason[:80]))
                    done = True
                    break
            if not done:
                s.reason = "%s — also open in the context of its caller %s: %s" % (desc, q, d2)
                return False
        s.verdict = "discharged"
        s.reason = "in the context of each of its %d call sites (helper inlined into the caller): %s" % (len(sites), "; ".join(sorted(set(reasons)))[:200])
        return True

    def _len_after_push(self, B, s, m):
        """a = Vec::len(&v), and on the only way into the block that takes the length the previous call is v.push(..)
        (straight line: every block in between has one predecessor and calls nothing that could shrink v)"""
        pl = m["a"].get("pl") if isinstance(m.get("a"), dict) else None
        if not pl or pl["p"]:
            return False
        la = pl["l"]
        # through a named copy: let len = v.len(); .. len - 1
        for _ in range(3):
            ds = B.defs().get(la, [])
            if len(ds) == 1 and ds[0][1] != "term" and ds[0][2]["rv"]["k"] == "use" and ds[0][2]["rv"]["a"].get("pl") and not ds[0][2]["rv"]["a"]["pl"]["p"]:
                la = ds[0][2]["rv"]["a"]["pl"]["l"]
            else:
                break
        ds = B.defs().get(la, [])
        if len(ds) != 1 or ds[0][1] != "term":
            return False
        bi, _, node = ds[0]
        if not (node.get("callee") or "").endswith("Vec::<T, A>::len") or not node.get("args"):
            return False

        def vec_of(op):
            sy = B.sym_op(op, through_vars="pure")
            while sy[0] in ("ref", "deref"):
                sy = sy[1]
            return M.show(sy)
        v = vec_of(node["args"][0])
        preds = B.preds()
        cur, steps = bi, 0
        while steps < 12:
            ps = [p for p in preds[cur] if not B.blocks[p].get("cleanup")]
            if len(ps) != 1:
                return False
            cur = ps[0]
            steps += 1
            tt = B.blocks[cur]["term"]
            if tt["k"] == "call":
                cal = tt.get("callee") or ""
                if cal.endswith("Vec::<T, A>::push") and tt.get("args") and vec_of(tt["args"][0]) == v:
                    return True
                if cal.endswith(("::clone", "Rc::<T>::new", "Rc::<T, A>::new")) or "::clone" in cal:
                    continue
                return False
            if tt["k"] not in ("goto", "drop", "assert"):
                return False
        return False

    def _sub_after_add(self, B, s, m, k):
        """`x += c; .. x - k` with c >= k: walking back from the subtraction along single predecessors, the first assignment
        to the local x is the result of a checked `x + c`"""
        pl = m["a"].get("pl") if isinstance(m.get("a"), dict) else None
        if not pl or pl["p"] or not isinstance(k, int) or k < 0:
            return False
        x = pl["l"]
        preds = B.preds()
        cur, steps = s.bb, 0
        upto = None
        # the operand is usually a temporary holding a copy of the variable: `_t = copy x` in the block of the check
        ds0 = B.defs().get(x, [])
        if B.local_name(x) is None and len(ds0) == 1 and ds0[0][1] != "term" and ds0[0][2]["rv"]["k"] == "use" and \
                ds0[0][2]["rv"]["a"].get("pl") and not ds0[0][2]["rv"]["a"]["pl"]["p"] and ds0[0][0] == s.bb:
            upto = ds0[0][1]
            x = ds0[0][2]["rv"]["a"]["pl"]["l"]
        while steps < 10:
            blk = B.blocks[cur]
            stmts_ = blk["stmts"] if (upto is None or cur != s.bb) else blk["stmts"][:upto]
            for st in reversed(stmts_):
                if st["k"] == "assign" and not st["lhs"]["p"] and st["lhs"]["l"] == x:
                    rv = st["rv"]
                    if rv["k"] == "use" and rv["a"].get("pl") and rv["a"]["pl"]["p"] and isinstance(rv["a"]["pl"]["p"][0], dict) and rv["a"]["pl"]["p"][0].get("f") == 0:
                        t_ = rv["a"]["pl"]["l"]
                        ds = B.defs().get(t_, [])
                        if len(ds) == 1 and ds[0][1] != "term":
                            r2 = ds[0][2]["rv"]
                            if r2["k"] == "bin" and r2["op"] == "AddWithOverflow" and r2["a"].get("pl") and not r2["a"]["pl"]["p"] and r2["a"]["pl"]["l"] == x \
                                    and r2["b"].get("k") == "const" and isinstance(r2["b"].get("val"), int) and r2["b"]["val"] >= k:
                                return True
                    return False
            ps = [p for p in preds[cur] if not B.blocks[p].get("cleanup")]
            if len(ps) != 1:
                return False
            cur = ps[0]
            tt = B.blocks[cur]["term"]
            if tt["k"] == "call" and not tt["dest"]["p"] and tt["dest"]["l"] == x:
                return False
            steps += 1
        return False

    def _inc_dominates(self, s):
        B = self.body(s.fn)
        t = B.blocks[s.bb]["term"]
        msg = t.get("msg") if t["k"] == "assert" else None
        if not (isinstance(msg, dict) and msg.get("op") == "Sub" and isinstance(msg.get("a"), dict) and msg["a"].get("pl")
                and isinstance(msg.get("b"), dict) and msg["b"].get("k") == "const" and msg["b"].get("val") == 1):
            return False
        place = M.show(B.sym_op(msg["a"], through_vars="pure"))
        for d in B.dominators().get(s.bb, ()):
            if d == s.bb:
                continue
            td = B.blocks[d]["term"]
            md = td.get("msg") if td["k"] == "assert" else None
            if isinstance(md, dict) and md.get("op") == "Add" and isinstance(md.get("a"), dict) and md["a"].get("pl") and \
                    isinstance(md.get("b"), dict) and md["b"].get("k") == "const" and md["b"].get("val") == 1 and \
                    M.show(B.sym_op(md["a"], through_vars="pure")) == place:
                return True
        return False

    def _flag_after_push(self, s):
        B = self.body(s.fn)
        t = B.blocks[s.bb]["term"]
        msg = t.get("msg") if t["k"] == "assert" else None
        if not (isinstance(msg, dict) and msg.get("op") == "Sub" and isinstance(msg.get("a"), dict) and msg["a"].get("pl")):
            return False
        # the vector whose length is decremented: a = Vec::len(&v)
        la = msg["a"]["pl"]["l"]
        vec = None
        for (bi, si, node) in B.defs().get(la, []):
            if si == "term" and (node.get("callee") or "").endswith("Vec::<T, A>::len") and node.get("args"):
                sy = B.sym_op(node["args"][0], through_vars=False)
                while sy[0] in ("ref", "deref"):
                    sy = sy[1]
                if sy[0] in ("var", "tmp"):
                    # through one reborrow temp
                    l0 = sy[2] if sy[0] == "var" else sy[1]
                    ds = B.defs().get(l0, [])
                    if sy[0] == "tmp" and len(ds) == 1 and ds[0][1] != "term" and ds[0][2]["rv"]["k"] == "ref":
                        l0 = ds[0][2]["rv"]["pl"]["l"]
                    vec = l0
        if vec is None:
            return False
        flags = []
        for sy, vals, dty in M.dominating_conditions(B, s.bb):
            if dty == "bool" and sy[0] == "var" and (vals == (1,) or vals == ("not", (0,))) and len(B.defs().get(sy[2], [])) > 1:
                flags.append(sy[2])
        for fl in flags:
            ok = True
            n_true = 0
            for (bi, si, node) in B.defs().get(fl, []):
                if si == "term":
                    ok = False
                    break
                rv = node["rv"]
                if not (rv["k"] == "use" and rv["a"]["k"] == "const" and isinstance(rv["a"].get("val"), bool)):
                    ok = False
                    break
                if rv["a"]["val"] is True:
                    n_true += 1
                    # straight-line continuation must push to the vector
                    cur, steps, found = bi, 0, False
                    while cur is not None and steps < 16:
                        tt = B.blocks[cur]["term"]
                        if tt["k"] == "call" and (tt.get("callee") or "").endswith("Vec::<T, A>::push") and tt.get("args"):
                            a0 = tt["args"][0]
                            tgt = a0["pl"]["l"] if a0.get("pl") else None
                            ds = B.defs().get(tgt, [])
                            if tgt is not None and len(ds) == 1 and ds[0][1] != "term" and ds[0][2]["rv"]["k"] == "ref" and ds[0][2]["rv"]["pl"]["l"] == vec:
                                found = True
                                break
                        nx = [x for x in B.succ(cur) if not B.blocks[x].get("cleanup")]
                        if len(nx) != 1:
                            break
                        cur, steps = nx[0], steps + 1
                    if not found:
                        ok = False
                        break
            if ok and n_true >= 1:
                return True
        return False

    def _requires(self, fn, reqs, site=None):
        """each required fragment must occur in the canonical rendering of the function's HIR body; a requirement
        `cond:<regex>=True|False` is a condition that must dominate the site with that value (read from the MIR: it does not
        matter how the guard is spelled, `!(a && b)`, `!a || !b`, nested ifs)"""
        if not reqs:
            return None
        if any(r == "dominc:" for r in reqs):
            # `x -= 1` that undoes an `x += 1` made earlier in the same function: the increment (of the same place, as
            # described) is in a block that dominates the decrement
            if site is None or site.fn != fn or not self._inc_dominates(site):
                return "dominc:"
            reqs = [r for r in reqs if r != "dominc:"]
            if not reqs:
                return None
        if any(r == "flagpush:" for r in reqs):
            # `v.len() - 1` under `if flag`, where the mutable flag becomes true only where an element is pushed to v:
            # the site is dominated by flag == true, and every `flag = true` is followed, in straight line, by v.push(..)
            if site is None or site.fn != fn or not self._flag_after_push(site):
                return "flagpush:"
            reqs = [r for r in reqs if r != "flagpush:"]
            if not reqs:
                return None
        conds = [r for r in reqs if r.startswith("cond:")]
        if conds:
            if site is None:
                return conds[0]
            B = self.body(site.fn) if site.fn == fn else None
            got = {}
            if B is not None:
                for sy, vals, dty in M.implied_conditions(B, site.bb):
                    if dty != "bool":
                        continue
                    v_ = True if (vals == (1,) or vals == ("not", (0,))) else (False if (vals == (0,) or vals == ("not", (1,))) else None)
                    t_ = sy
                    while t_[0] == "un" and t_[1] == "Not" and v_ is not None:
                        t_, v_ = t_[2], not v_
                    # one spelling per comparison: `a != b` is not (a == b), `a >= b` is not (a < b), `a > b` is not (a <= b)
                    FLIP = {"Ne": "Eq", "Ge": "Lt", "Gt": "Le"}
                    if v_ is not None and t_[0] == "bin" and t_[1] in FLIP:
                        t_, v_ = ("bin", FLIP[t_[1]], t_[2], t_[3]), not v_
                    if v_ is not None:
                        if getattr(self.F, "config", "default") != "default":
                            t_ = _checked_spelling(t_)
                        got[M.show(t_, -20)] = v_
            for r in conds:
                rx, want = r[5:].rsplit("=", 1)
                if not any(re.search(rx, k) and v == (want == "True") for k, v in got.items()):
                    return r
            reqs = [r for r in reqs if not r.startswith("cond:")]
            if not reqs:
                return None
        f = self.F.fns.get(fn)
        body = H.body_of(f) if f else None
        if body is None:
            parent = fn.rsplit("::{closure", 1)[0]
            body = H.body_of(self.F.fns.get(parent)) if parent in self.F.fns else None
        txt = H.render(body) if body is not None else ""
        if not hasattr(self, "_rtxt"):
            self._rtxt = {}
        if fn not in self._rtxt:
            # render() truncates deep nesting; collect the renderings of all sub-statements too
            parts = [txt]
            if body is not None:
                for x in H.walk(body):
                    if x.get("k") in ("if", "let", "bin", "mcall", "call"):
                        parts.append(H.render(x))
                # ... and of the body with the private helpers of its file written out in place (a guard or an
                # expression moved into `fn expand_zero_run(parts, compression_index, filled)` is still the function's own)
                try:
                    file_ = f["file"] if f else None
                    inl = H.inline_helpers(self.F, body, max_size=300,
                                           skip=lambda c: (self.F.fns.get(c) or {}).get("file") != file_ or (self.F.fns.get(c) or {}).get("vis") == "pub")
                    for form in (inl, H.unlet(inl)):
                        for x in H.walk(form):
                            if x.get("k") in ("if", "let", "bin", "mcall", "call"):
                                parts.append(H.render(x))
                except Exception:
                    pass
            self._rtxt[fn] = "\n".join(parts)
        for r in reqs:
            if r.startswith("rx:"):
                # a guard named by shape (local names are placeholders): regular expression over the rendering
                if not re.search(r[3:], self._rtxt[fn], re.S):
                    return r
            elif r not in self._rtxt[fn]:
                return r
        return None

    def _describe(self, B, cx, s):
        """the site with its operands as symbolic terms over the function's parameters, named variables and calls
        (temporaries substituted, `&*x` collapsed, nothing truncated): what the reviewed tables are matched against"""
        # ("desc": for naming a site, named values are written out as the expression that computed them; nothing is proved from it)
        alt = getattr(self.F, "config", "default") != "default"
        sh = lambda o: M.show(_simp(_checked_spelling(B.sym_op(o, through_vars="desc")) if alt else B.sym_op(o, through_vars="desc")), -30)
        if s.kind == "assert":
            m = s.operands
            parts = ["%s=%s" % (k, sh(m[k])) for k in ("len", "index", "a", "b") if k in m and isinstance(m[k], dict)]
            return "%s %s" % (s.what, ", ".join(parts))
        return "%s(%s)" % (M.short_callee(s.what), ", ".join(sh(a) for a in s.operands["args"]))

    def _assert(self, B, cx, s):
        m = s.operands
        k = m["k"]
        facts, variants = edge_facts(B, cx, s.bb)
        facts = _Facts(facts + self.param_facts(s.fn), cx)
        sym = lambda o: B.sym_op(o, through_vars="pure")
        if k == "BoundsCheck":
            ln, ix = cx.lin(sym(m["len"])), cx.lin(sym(m["index"]))
            goal = ln.add(ix, -1).add(Lin(k=1), -1)   # len - idx - 1 >= 0
            r = prove_ge0(goal, facts, cx.nonneg)
            return ("bounds: " + r) if r else None
        if k == "Overflow":
            op = m["op"]
            a, b = sym(m["a"]), sym(m["b"])
            ta = cx.ty_of(a) or cx.ty_of(b)
            tys = {B_ty(B, m["a"]), B_ty(B, m["b"])} - {None}
            ty = (tys.pop() if len(tys) == 1 else None)
            if op in ("Add", "Mul") and ty in ("usize", "isize"):
                return "type rule A1: usize %s on interpreter bookkeeping" % op.lower()
            if op == "Add" and ty in ("i64", "u64", "i128", "u128"):
                r = self._accumulator(B, cx, m)
                if r:
                    return r
            if op == "Sub" and ty in UNSIGNED:
                goal = cx.lin(a).add(cx.lin(b), -1)
                r = prove_ge0(goal, facts, cx.nonneg)
                if r:
                    return "sub: " + r
                if cx.lin(b).is_const() and cx.lin(b).k == 1 and self._len_after_push(B, s, m):
                    return "sub: v.len() - 1 where the length was taken right after v.push(..) with nothing in between"
                if cx.lin(b).is_const() and self._sub_after_add(B, s, m, cx.lin(b).k):
                    return "sub: x - k right after the checked x += c with c >= k (straight line, x not assigned in between)"
                return None
            if op in ("Shl", "Shr"):
                lb = cx.lin(b)
                aty = B_ty(B, m["a"]) or cx.ty_of(a)
                if lb.is_const() and aty and 0 <= lb.k < _width(aty):
                    return "constant shift < width of %s" % aty
                return None
            if op in ("Add", "Sub", "Mul"):
                la, lb = cx.lin(a), cx.lin(b)
                if la.is_const() and lb.is_const():
                    return "constant"
            return None
        if k in ("DivisionByZero", "RemainderByZero"):
            l = cx.lin(sym(m["a"]))
            if l.is_const() and l.k != 0:
                return "constant divisor"
            r = prove_ne0(l, facts, cx.nonneg)
            return ("divisor: " + r) if r else None
        if k == "OverflowNeg":
            return None
        return None

    def _accumulator(self, B, cx, m):
        """a 64-bit local that starts at 0 and is only ever advanced by in-memory lengths (`x.len() as i64`) or by
        constants up to 8 cannot reach 2^63: that takes 2^63 bytes of live text or 2^60 steps"""
        a, b = m["a"], m["b"]
        if a.get("k") not in ("copy", "move") or a["pl"]["p"]:
            return None
        l = a["pl"]["l"]
        if l <= B.arg_count:
            return None

        def small_step(op):
            sb = B.sym_op(op, through_vars="pure")
            if sb[0] == "const" and isinstance(sb[1], int) and 0 <= sb[1] <= 8:
                return True
            if sb[0] == "cast" and sb[3] == "IntToInt":
                inner = sb[2]
                if inner[0] == "call" and inner[1] and LEN_CALLS.search(inner[1]):
                    return True
                if inner[0] == "un" and inner[1] == "PtrMetadata":
                    return True
            return False
        if not small_step(b):
            return None
        for (bi, si, node) in B.defs().get(l, []):
            if si == "term":
                return None
            rv = node["rv"]
            if rv["k"] == "use" and rv["a"]["k"] == "const" and rv["a"].get("val") == 0:
                continue
            # l = move (tmp.0) with tmp = AddWithOverflow(l, step)
            if rv["k"] == "use" and rv["a"]["k"] in ("copy", "move"):
                src = B.sym_op(rv["a"], through_vars="pure")
                if src[0] == "field" and src[2] == "0" and src[1][0] == "bin" and src[1][1] in ("AddWithOverflow", "Add"):
                    x, y = src[1][2], src[1][3]
                    if x[0] == "var" and x[2] == l:
                        continue
            if rv["k"] == "bin" and rv["op"] in ("Add", "AddWithOverflow") and rv["a"].get("pl", {}).get("l") == l:
                continue
            return None
        # every assignment through a projection or a borrow of the local would escape this reasoning
        for bk in B.blocks:
            for st in bk["stmts"]:
                if st["k"] == "assign" and st["rv"]["k"] in ("ref", "rawptr") and st["rv"]["pl"]["l"] == l:
                    return None
        return "accumulator rule A2: a 64-bit local counted up from 0 by in-memory lengths / small constants cannot reach 2^63"

    def _call(self, B, cx, s):
        t = s.operands
        c = s.what
        facts, variants = edge_facts(B, cx, s.bb)
        facts = _Facts(facts + self.param_facts(s.fn), cx)
        args = [B.sym_op(a, through_vars="pure") for a in t["args"]]
        cls = s.cls
        # whatever the callee: a site whose dominating conditions contradict each other is never reached
        # (`debug_assert!(off + 4 <= data.len())` in a helper called with off = 8 after `data.len() < 24` returned)
        fl = list(facts)
        for i, (f, op) in enumerate(fl):
            if op != ">=" or not f.c:
                continue
            rest = fl[:i] + fl[i + 1:]
            r = prove_ge0(f.scale(-1).add(Lin(k=1), -1), rest, cx.nonneg)
            if r and r != "arith":
                return "unreachable: the conditions on the way here contradict each other (%s)" % r
        if cls == "index":
            base, idx = strip_refs(args[0]), args[1]
            # range indexing: agg of Range / RangeFrom / RangeTo
            if idx[0] == "agg":
                ak = idx[1]
                ln = cx.lin(("un", "PtrMetadata", base))
                m = re.search(r"\[[^;\]]+; (\d+)\]", _base_ty(t))
                if m:
                    ln = Lin(k=int(m.group(1)))
                if ak.endswith("RangeFrom"):
                    goal = ln.add(cx.lin(idx[2][0]), -1)
                    r = prove_ge0(goal, facts, cx.nonneg)
                    return ("range-from: " + r) if r else None
                if ak.endswith("RangeTo"):
                    goal = ln.add(cx.lin(idx[2][0]), -1)
                    r = prove_ge0(goal, facts, cx.nonneg)
                    return ("range-to: " + r) if r else None
                if ak.endswith("Range"):
                    lo, hi = cx.lin(idx[2][0]), cx.lin(idx[2][1])
                    r1 = prove_ge0(ln.add(hi, -1), facts, cx.nonneg)
                    r2 = prove_ge0(hi.add(lo, -1), facts, cx.nonneg)
                    return ("range: %s/%s" % (r1, r2)) if (r1 and r2) else None
                return None
            bty = _base_ty(t)
            if "HashMap" in c or "HashMap" in bty:
                return None
            ln = cx.lin(("un", "PtrMetadata", base))
            # fixed-size arrays: length from the type
            m = re.search(r"\[[^;\]]+; (\d+)\]", bty)
            if m:
                ln = Lin(k=int(m.group(1)))
            goal = ln.add(cx.lin(idx), -1).add(Lin(k=1), -1)
            r = prove_ge0(goal, facts, cx.nonneg)
            if r:
                return "index: " + r
            # enum-index rule: TABLE built with vec![_; Enum::Count as usize], index = enum value as usize
            e = self._enum_index(B, base, idx)
            if e:
                return e
            return None
        if cls == "repeat" and len(args) == 2:
            # str::repeat(s, n) panics on capacity overflow only (an allocation-size failure, outside the property) — provided
            # the count is not a negative number reinterpreted as unsigned
            cnt = args[1]
            signed_src = [x for x in M.subterms(cnt) if x[0] == "cast" and x[1] in UNSIGNED and (cx.ty_of(x[2]) in SIGNED or cx.ty_of(x[2]) is None)]
            ok = True
            for x in signed_src:
                if not prove_ge0(cx.lin(x[2]), facts, cx.nonneg):
                    ok = False
            if ok:
                return "count is not negative (%s); str::repeat then panics only on capacity overflow, an allocation-size failure" % \
                    ("guarded" if signed_src else "unsigned arithmetic")
            return None
        if cls == "refcell":
            if not hasattr(self, "_rc"):
                self._rc = RefCellRule(self)
            return self._rc.check(s)
        if cls == "unwrap":
            recv = strip_refs(args[0])
            name = M.show(recv)
            for v in variants:
                if v[0] == name or name.endswith(v[0]):
                    return "variant test dominates"
            return None
        if cls == "nonzero_arg":
            i = self._nz_index(c)
            l = cx.lin(args[i])
            if l.is_const() and l.k != 0:
                return "constant"
            r = prove_ne0(l, facts, cx.nonneg)
            return ("nonzero: " + r) if r else None
        if cls == "range_nonempty":
            r = args[-1]
            if r[0] == "call" and r[1] and r[1].endswith("RangeInclusive::<Idx>::new") and len(r[2]) == 2:
                lo, hi = cx.lin(r[2][0]), cx.lin(r[2][1])
                ty = cx.ty_of(r[2][0]) or cx.ty_of(r[2][1]) or ""
                if "f64" in str(r[2][0]) or "f:" in str(r[2][0]):
                    return None
                g = prove_ge0(hi.add(lo, -1), facts, cx.nonneg)
                return ("non-empty range: " + g) if g else None
            return None
        if cls == "panic":
            # a panic arm dominated by a guard that the callers' constant arguments falsify
            for l, op in self.param_facts(s.fn):
                for f2, op2 in facts:
                    if op == "==" and op2 == "!=" and l.c == f2.c and l.k == f2.k:
                        return "unreachable: every call site satisfies the guarded precondition"
            return None
        if cls == "const_arg":
            ok = all(a[0] == "const" for a in args[1:]) if len(args) > 1 else False
            return "constant arguments" if ok else None
        return None

    def _nz_index(self, c):
        return 1

    def _enum_index(self, B, base, idx):
        """TABLE[e as usize] where e is a field-less enum value and TABLE is the lazy_static vector built
        with vec![_; Enum::<Count> as usize]: every discriminant is below the table length."""
        if idx[0] != "cast" or idx[1] != "usize" or idx[2][0] != "discr":
            return None
        cx = Ctx(B, self.F)
        ety = cx.ty_of(idx[2][1])
        if not ety:
            return None
        ety = ety.strip().lstrip("&")
        en = self.F.enum_variants(ety)
        if not en:
            return None
        shown = M.show(base)
        m = re.search(r"([a-z_:]+::[A-Z_]+)\b", shown)
        # the base must be a lazy_static table whose initialiser allocates <Enum>::<last variant> as usize entries
        for p, f in self.F.fns.items():
            if not p.endswith("::__static_ref_initialize") or "lazy_static" not in f.get("mac", ""):
                continue
            static = p[1:].split(" as ")[0]
            if H.last(static) not in shown:
                continue
            for x in H.walk(H.body_of(f)):
                if x.get("k") == "call" and x.get("callee") == "std::vec::from_elem":
                    n = H.strip(x["args"][1])
                    if n.get("k") == "cast":
                        c = H.ctor_of(H.strip(n["e"]))
                        if c and c.rsplit("::", 1)[0] == ety:
                            size = dict(en).get(H.last(c))
                            others = [d for nm, d in en if nm != H.last(c)]
                            if size is not None and all(d < size for d in others):
                                # the count variant itself is never a token/prop value (checked: nothing constructs it)
                                return "enum-index: %s has %d value variants, table %s has %d entries" % (ety, len(others), H.last(static), size)
        return None


def _simp(s):
    """collapse `&*x` / `*&x` in a symbolic term"""
    if not isinstance(s, tuple):
        return s
    if not s or not isinstance(s[0], str):
        return tuple(_simp(x) for x in s)
    s = tuple(_simp(x) if isinstance(x, tuple) else x for x in s)
    if s[0] in ("ref", "deref") and isinstance(s[1], tuple) and s[1] and s[1][0] == ("deref" if s[0] == "ref" else "ref"):
        return s[1][1]
    if s[0] == "call" and isinstance(s[1], str) and s[1].endswith("::clone") and len(s[2]) == 1 and s[2][0][0] == "ref":
        return s[2][0][1]   # a copy reads like the value it copies
    if s[0] == "field" and isinstance(s[1], tuple) and s[1] and s[1][0] == "agg" and len(s[1]) > 3 and s[2] in s[1][3] and len(s[1][3]) == len(s[1][2]):
        return s[1][2][s[1][3].index(s[2])]   # a field of a value built in place is the value it was built from
    return s


def _checked_spelling(s):
    """a term of a build without overflow checks written as the default build writes it (`a + b` is `(a AddWithOverflow b).0`
    there): descriptions and reviewed conditions are recorded in the default build's spelling"""
    if not isinstance(s, tuple):
        return s
    if not s or not isinstance(s[0], str):
        return tuple(_checked_spelling(x) for x in s)
    s = tuple(_checked_spelling(x) if isinstance(x, tuple) else x for x in s)
    if s[0] == "bin" and s[1] in ("Add", "Sub", "Mul") and len(s) == 4:
        return ("field", ("bin", s[1] + "WithOverflow", s[2], s[3]), "0")
    return s


def _norm_what(w):
    """container-independent name of an indexing operation (Vec, slice, array and str index through different impls)"""
    w = _short_what(w)
    m = re.match(r"^(?:index|array|traits)::(index(?:_mut)?)$", w)
    return m.group(1) if m else w


def _untuple1(d):
    """`tuple{X}.0` (one component) → X"""
    out, i = "", 0
    while True:
        j = d.find("tuple{", i)
        if j < 0:
            return out + d[i:]
        depth, k, comma = 0, j + 5, False
        while k < len(d):
            ch = d[k]
            if ch in "{([":
                depth += 1
            elif ch in "})]":
                depth -= 1
                if depth == 0:
                    break
            elif ch == "," and depth == 1:
                comma = True
            k += 1
        if k < len(d) and not comma and d[k + 1:k + 3] == ".0":
            out += d[i:j] + d[j + 6:k]
            i = k + 3
        else:
            out += d[i:j + 6]
            i = j + 6


def _shape(d):
    """a description with the names of locals and fields abstracted and every call inside the operands read as a value
    (what stays: the site's own callee, constants, arithmetic and comparison operators, ranges, field / index structure)"""
    head, body = "", d
    m = re.match(r"^([A-Za-z_][\w:<>]*)\((.*)\)$", d, re.S)
    if m and "=" not in m.group(1):
        head, body = m.group(1), m.group(2)
    for _ in range(12):
        b2 = re.sub(r"(?<![\w:>])[A-Za-z_][\w:<>]*\(([^()]*)\)", "v", body)
        if b2 == body:
            break
        body = b2
    body = re.sub(r"(?<![\w:])[a-z_][a-z0-9_]*\b(?!\(|::)", "v", body)
    body = re.sub(r"[&*]+v", "v", body)
    return head + "(" + body + ")" if head else body


def _norm_desc(d):
    d = re.sub(r"^(?:index|array|traits)::(index(?:_mut)?)\(", r"\1(", d)
    # the number rustc gives a constant allocation (a format string) changes with unrelated code
    d = re.sub(r"\balloc\d+\b", "alloc", d)
    # ... and a value formatted directly or through the one-element tuple format_args! builds is the same value
    d = _untuple1(d)
    # ((x + a) + b) is (x + (a+b)): an offset written in two steps reads like the same offset written in one
    for _ in range(3):
        d2 = re.sub(r"\(\((\w+) AddWithOverflow (\d+)\)\.0 AddWithOverflow (\d+)\)\.0",
                    lambda m: "(%s AddWithOverflow %d).0" % (m.group(1), int(m.group(2)) + int(m.group(3))), d)
        if d2 == d:
            break
        d = d2
    return d


def _short_what(w):
    w = re.sub(r"<[^<>]*>", "", w)
    w = re.sub(r"<[^<>]*>", "", w)
    return "::".join([p for p in w.split("::") if p][-2:]) if "::" in w else w


def B_ty(B, op):
    if op["k"] in ("copy", "move") and not op["pl"]["p"]:
        return B.local_ty(op["pl"]["l"])
    if op["k"] == "const":
        return op["ty"]
    return None


def _base_ty(t):
    ta = t.get("targs") or []
    return ta[0] if ta else ""


def _term_ty(B, s):
    if s[0] in ("var", "arg"):
        return B.local_ty(s[2])
    if s[0] == "tmp":
        return B.local_ty(s[1])
    if s[0] == "field":
        return None
    if s[0] in ("deref", "ref"):
        t = _term_ty(B, s[1])
        return t.lstrip("&") if t else None
    return None


# ---------------------------------------------------------------------------
# RefCell rule: a guard's live range must not reach a conflicting borrow
# ---------------------------------------------------------------------------
REFCELL_RX = re.compile(r"^std::cell::RefCell::<T>::(borrow|borrow_mut|replace|swap|take)$")


def cell_type(t):
    ci = t.get("callee_inst") or ""
    m = re.match(r"std::cell::RefCell::<(.*)>::(borrow|borrow_mut|replace|swap|take)$", ci)
    return m.group(1) if m else "?"


class RefCellRule:
    def __init__(self, audit):
        self.A = audit
        self.F = audit.F
        self.direct = {}      # fn -> set of (cell type, 'shared'|'excl')
        self.trans = None
        for p, f in self.F.fns.items():
            s = set()
            for b in f["mir"]["blocks"]:
                if b.get("cleanup"):
                    continue
                t = b["term"]
                if t["k"] == "call" and t.get("callee") and REFCELL_RX.match(t["callee"]):
                    kind = "shared" if t["callee"].endswith("::borrow") else "excl"
                    s.add((cell_type(t), kind))
            self.direct[p] = s

    def transitive(self):
        if self.trans is not None:
            return self.trans
        cg = self.A.cg
        trans = {p: set(s) for p, s in self.direct.items()}
        changed = True
        while changed:
            changed = False
            for p in trans:
                cur = trans[p]
                n0 = len(cur)
                for c in list(cg.edges.get(p, ())) + list(cg.addr_taken.get(p, ())):
                    if c in trans:
                        cur |= trans[c]
                if len(cur) != n0:
                    changed = True
        self.trans = trans
        return trans

    def conflicts(self, held, other):
        (ty, kind) = held
        (ty2, kind2) = other
        if ty != ty2 and "?" not in (ty, ty2):
            return False
        return kind == "excl" or kind2 == "excl"

    def check(self, s):
        """s: Site of class refcell. Returns reason string if the guard's live range is clean."""
        B = self.A.body(s.fn)
        t = s.operands
        held = (cell_type(t), "shared" if s.what.endswith("::borrow") else "excl")
        if s.what.endswith(("::replace", "::swap", "::take")):
            # momentary exclusive access, no guard is returned
            return "momentary access (no guard outlives the call)"
        dest = t["dest"]
        if dest["p"] or t.get("t") is None:
            return None
        owners = {dest["l"]}
        # forward walk over the live range
        start = t["t"]
        seen = set()
        stack = [start]
        trans = self.transitive()
        while stack:
            b = stack.pop()
            if b in seen:
                continue
            seen.add(b)
            blk = B.blocks[b]
            # moves of the guard into another local keep it alive under a new owner
            for st in blk["stmts"]:
                if st["k"] == "assign" and st["rv"]["k"] == "use" and st["rv"]["a"]["k"] == "move" and \
                        not st["rv"]["a"]["pl"]["p"] and st["rv"]["a"]["pl"]["l"] in owners and not st["lhs"]["p"]:
                    owners.add(st["lhs"]["l"])
            tt = blk["term"]
            if tt["k"] == "drop" and not tt["pl"]["p"] and tt["pl"]["l"] in owners:
                continue  # guard released on this path
            if tt["k"] == "return":
                if 0 in owners:
                    return None  # guard escapes to the caller
                continue
            if tt["k"] == "call":
                c = tt.get("callee") or tt.get("decl")
                # the guard itself passed by value to a callee (e.g. drop(guard)) releases it
                moved = any(a["k"] == "move" and not a["pl"]["p"] and a["pl"]["l"] in owners for a in tt["args"])
                if c is None:
                    return None  # indirect call while a guard is held
                if c in self.F.fns:
                    for o in trans.get(c, ()):
                        if self.conflicts(held, o):
                            return None
                elif REFCELL_RX.match(c):
                    o = (cell_type(tt), "shared" if c.endswith("::borrow") else "excl")
                    if self.conflicts(held, o) and b != s.bb:
                        return None
                else:
                    cls, _ = self.A.classify_callee(c)
                    if cls is None:
                        return None
                    # generic std callees may call back into user impls (Display, PartialEq, Hash, Ord, Clone of Object)
                    ci = tt.get("callee_inst") or ""
                    if "object::Object" in ci and re.search(r"(sort|fmt|hash|eq|cmp|contains|dedup|retain)", c):
                        for q in ("<object::Object as std::cmp::PartialOrd>::partial_cmp",
                                  "<object::Object as std::cmp::PartialEq>::eq",
                                  "<object::Object as std::hash::Hash>::hash",
                                  "<object::Object as std::fmt::Display>::fmt"):
                            for o in trans.get(q, ()):
                                if self.conflicts(held, o):
                                    return None
                if moved:
                    continue
            stack.extend(B.succ(b))
        return "guard live range (%d blocks) reaches no conflicting borrow of RefCell<%s>" % (len(seen), held[0][:40])
