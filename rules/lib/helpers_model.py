"""Agreement between the emission verifier's model of the compiler's primitive
helpers (emit, patch_jump, remove_last_pop, ...) and their code.

Each helper is straight-line code; it is executed symbolically (locals are
replaced by their initialisers, places written earlier by the value written) and
the resulting writes / calls / result are compared with what the model assumes.
Local names and statement grouping do not matter; what is written where does.
"""
import re

from . import hir as H

C = "compiler::Compiler::"
S = "self.scopes[self.scope_index]"


def straightline(body):
    """→ (store {place: value}, calls [text], result text) or None when the body is not straight-line"""
    env = {}
    store = {}
    calls = []

    def rd(e):
        txt = H.render(e)
        for p in sorted(store, key=len, reverse=True):
            txt = txt.replace(p, "«%s»" % store[p]) if False else txt
        for nm in sorted(env, key=len, reverse=True):
            txt = re.sub(r"(?<![\w.])%s\b" % re.escape(nm), lambda m: env[nm], txt)
        # a borrowed place used as a place (`(&mut self.scopes[i].instructions).code.push(..)`) is that place
        def unborrow(m):
            nxt = txt[m.end():m.end() + 1]
            return m.group(1) if nxt in ("(", "[") else m.group(0)
        txt = re.sub(r"&(?:mut )?(self\.scopes\[self\.scope_index\](?:\.\w+)*)", unborrow, txt)
        return txt

    if body.get("k") != "block":
        return store, calls, rd(body)
    for s in body.get("stmts", []):
        if s["k"] == "let":
            if s["pat"].get("k") != "bind" or s.get("init") is None:
                return None
            init = s["init"]
            if init.get("k") in ("if", "match", "loop") and not H.is_try(init):
                return None
            v = rd(init)
            si = H.strip(init)
            if init.get("k") == "ref" and si.get("k") in ("field", "index", "path"):
                v = rd(si)          # `let scope = &mut self.scopes[i]` names a place: uses of the alias are uses of the place
            if any(c.get("k") in ("call", "mcall") and (c.get("callee") or "").startswith(C) and H.last(c["callee"]) not in ("get_curr_instructions",)
                   for c in H.walk(init)):
                calls.append(v)
            env[s["pat"]["name"]] = v
        else:
            e = s["e"]
            k = e.get("k")
            if k == "assign":
                store[rd(e["l"])] = rd(e["r"])
            elif k == "assignop":
                store[rd(e["l"])] = "%s %s %s" % (rd(e["l"]), e["op"], rd(e["r"]))
            elif k in ("call", "mcall"):
                calls.append(rd(e))
            elif k == "match" and e.get("src", "").startswith("ForLoopDesugar"):
                calls.append("for:" + rd(e))
            elif k == "if":
                calls.append("if:" + rd(e))
            else:
                return None
    res = rd(body["expr"]) if body.get("expr") is not None else ""
    return store, calls, res


def unborrow_text(txt):
    def unborrow(m):
        nxt = txt[m.end():m.end() + 1]
        return m.group(1) if nxt in ("(", "[") else m.group(0)
    return re.sub(r"&(?:mut )?(self\.scopes\[self\.scope_index\](?:\.\w+)*)", unborrow, txt)


def _flatten(n):
    """blocks that only wrap a value (what inlining a one-expression function leaves) replaced by the value"""
    if isinstance(n, list):
        return [_flatten(x) for x in n]
    if not isinstance(n, dict):
        return n
    n = {k: _flatten(v) for k, v in n.items()}
    if n.get("k") == "block" and n.get("inlined") and not n.get("stmts") and n.get("expr") is not None:
        return n["expr"]
    return n


def check(F, R, defs=None):
    def fn(name):
        f = F.fn(C + name)
        R.anchor(C + name, f)
        return f

    def tiny(c_):
        g_ = F.fns.get(c_)
        b_ = H.body_of(g_) if g_ else None
        return not (c_.startswith(C) and b_ is not None and b_.get("k") == "block" and not b_.get("stmts") and b_.get("expr") is not None
                    and H.last(c_) != "get_curr_instructions" and H._size(b_) <= 14)

    def hbody(f):
        return _flatten(H.inline_helpers(F, H.body_of(f), max_size=14, skip=tiny, depth=1))

    # methods of the compiler that hand their own (opcode, operands, line) on to definitions::make (a range-checking
    # `make_checked` wrapper): in the model they are the encoder
    fwd = set()
    for p_, g_ in F.fns.items():
        if not p_.startswith(C) or H.body_of(g_) is None or not g_.get("hir"):
            continue
        pids = [pr.get("id") for pr in g_["hir"]["params"] if pr.get("k") == "bind"]
        for c_ in H.walk(H.body_of(g_)):
            if c_.get("k") == "call" and c_.get("callee") == "code::definitions::make" and len(c_.get("args", [])) == 3 and \
                    all(H.local_id(H.strip(a_)) in pids for a_ in c_["args"]):
                fwd.add(H.last(p_))
    # ... and whether replace_instruction takes the bytes or the whole instruction
    ri = F.fn(C + "replace_instruction")
    ri_whole = bool(ri and ri.get("mir") and "Instructions" in (ri["mir"]["locals"][3].get("ty") if len(ri["mir"]["locals"]) > 3 else ""))

    def as_make(txt):
        for w in fwd:
            txt = txt.replace("self.%s(" % w, "definitions::make(")
        if ri_whole:
            txt = re.sub(r"(self\.replace_instruction\([^,]+, &definitions::make\(.*\))\)$", r"\1.code)", txt)
        return txt

    def sl(name):
        f = fn(name)
        if f is None:
            return None, None
        # one-expression accessors of the compiler (`fn curr_instructions_mut(&mut self) -> &mut Instructions { &mut self.scopes[..].instructions }`)
        # are read as the place / value they stand for
        body = hbody(f)
        r = straightline(body)
        if r is not None and (fwd or ri_whole):
            st_, calls_, res_ = r
            r = ({k_: as_make(v_) for k_, v_ in st_.items()}, [as_make(c_) for c_ in calls_], as_make(res_))
        if r is None:
            R.ob("helper-model", name, False, "the helper is no longer straight-line code; the emission verifier's model of it must be re-derived", F.loc(f))
        return f, r

    f, r = sl("set_last_instruction")
    if r:
        st, calls, res = r
        ok = (st.get(S + ".prev_ins") == S + ".last_ins.clone()" and re.fullmatch(r"EmittedInstruction::new\(op, pos\)", st.get(S + ".last_ins", "")) is not None) or \
            st.get(S + ".prev_ins") == "mem::replace(&mut %s.last_ins, EmittedInstruction::new(op, pos))" % S
        R.ob("helper-model", "set_last_instruction: prev_ins ← last_ins, last_ins ← (op, pos)", ok, str(st), F.loc(f))
    f, r = sl("emit")
    if r:
        st, calls, res = r
        ok = any(re.search(r"self\.add_instruction\(definitions::make\(op, operands, line\)\)", c) for c in calls) and \
            any(re.fullmatch(r"self\.set_last_instruction\(op, self\.add_instruction\(definitions::make\(op, operands, line\)\)\)", c) for c in calls) and \
            res == "self.add_instruction(definitions::make(op, operands, line))"
        R.ob("helper-model", "emit: appends make(op, operands, line), records it as the last instruction, returns its position", ok, "calls %s → %s" % (calls, res), F.loc(f))
    f, r = sl("add_instruction")
    if r:
        st, calls, res = r
        ok = res in ("self.get_curr_instructions().len()", S + ".instructions.len()", S + ".instructions.code.len()") and \
            any("code.extend_from_slice(&ins.code)" in c for c in calls) and any("lines.extend_from_slice(&ins.lines)" in c for c in calls) and \
            (st.get(S + ".instructions") == "self.get_curr_instructions()" or                       # copy, extend, store back
             (any(c.startswith(S + ".instructions.code.extend_from_slice(") for c in calls) and     # or extend the scope's vectors in place
              any(c.startswith(S + ".instructions.lines.extend_from_slice(") for c in calls)))
        R.ob("helper-model", "add_instruction: appends code and lines, returns the previous length", ok, "%s %s → %s" % (st, calls, res), F.loc(f))
    f, r = sl("patch_jump")
    if r:
        st, calls, res = r
        ok = calls in (["self.change_operand(pos, self.get_curr_instructions().len())"], ["self.change_operand(pos, %s.instructions.len())" % S],
                       ["self.change_operand(pos, %s.instructions.code.len())" % S]) and not st
        R.ob("helper-model", "patch_jump(pos): operand ← current end of the instruction stream", ok, str(calls), F.loc(f))
    f, r = sl("change_operand")
    if r:
        st, calls, res = r
        INSRX = r"(?:self\.get_curr_instructions\(\)|%s\.instructions)" % re.escape(S)
        ok = any(re.fullmatch(r"self\.replace_instruction\(op_pos, &definitions::make\(::from\(" + INSRX + r"\.code\[op_pos\]\), &(?:\[operand\]|\[operand\]), .*\)\.code\)", c) for c in calls)
        R.ob("helper-model", "change_operand: re-encodes the instruction found at op_pos with the new operand, in place", ok, str(calls), F.loc(f))
    f, r = sl("remove_last_pop")
    if r:
        st, calls, res = r
        ins = st.get(S + ".instructions", "")
        copy_form = re.search(r"code: self\.get_curr_instructions\(\)\.code\[ops::RangeTo\{end: %s\.last_ins\.clone\(\)\.position\}\]\.to_vec\(\)" % re.escape(S), ins) is not None and \
            re.search(r"lines: self\.get_curr_instructions\(\)\.lines\[ops::RangeTo\{end: %s\.last_ins\.clone\(\)\.position\}\]\.to_vec\(\)" % re.escape(S), ins) is not None
        cut = lambda fld: [re.fullmatch(re.escape(S) + r"\.instructions\." + fld + r"\.truncate\((.*)\)", c) for c in calls]
        cc, cl = [m.group(1) for m in cut("code") if m], [m.group(1) for m in cut("lines") if m]
        inplace_form = len(cc) == 1 and cc == cl and cc[0] in (S + ".last_ins.position", S + ".last_ins.clone().position")
        ok = st.get(S + ".last_ins") == S + ".prev_ins.clone()" and (copy_form or inplace_form)
        R.ob("helper-model", "remove_last_pop: truncates code and lines at last_ins.position, last_ins ← prev_ins", ok, str(st)[:300], F.loc(f))
    f, r = sl("replace_last_pop_with_return")
    if r:
        st, calls, res = r
        ok = st.get(S + ".last_ins.opcode") == "Opcode::ReturnValue" and \
            any(re.fullmatch(r"self\.replace_instruction\(%s\.last_ins\.position, &definitions::make\(Opcode::ReturnValue, &\[0\], \d+\)\.code\)" % re.escape(S), c) for c in calls)
        R.ob("helper-model", "replace_last_pop_with_return: overwrites the last instruction with ReturnValue", ok, "%s %s" % (st, calls), F.loc(f))
        if defs is not None:
            R.ob("helper-model", "Pop and ReturnValue have the same encoded length (in-place replacement)", defs.get("Pop", {}).get("widths") == defs.get("ReturnValue", {}).get("widths"),
                 "%s / %s" % (defs.get("Pop"), defs.get("ReturnValue")))
    f = fn("is_last_instruction")
    if f is not None:
        leaves = H.return_leaves(hbody(f))
        got = sorted((unborrow_text(H.render(e)), unborrow_text(H.guard_text(g))) for e, g in leaves)
        want = [("(%s.last_ins.opcode == opcode)" % S, "!%s.instructions.code.is_empty()" % S), ("false", "%s.instructions.code.is_empty()" % S)]
        R.ob("helper-model", "is_last_instruction: false on an empty stream, else last_ins.opcode == opcode", got == want, str(got), F.loc(f))
    f, r = sl("enter_scope")
    if r:
        st, calls, res = r
        ok = any(c == "self.scopes.push(::default())" for c in calls) and st.get("self.scope_index") == "self.scope_index += 1"
        R.ob("helper-model", "enter_scope: pushes a default scope and selects it", ok, "%s %s" % (st, calls), F.loc(f))
    f, r = sl("leave_scope")
    if r:
        st, calls, res = r
        ok = res == "self.get_curr_instructions()" and st.get("self.scope_index") == "self.scope_index -= 1" and \
            any(c == "self.scopes.truncate((self.scopes.len() - 1))" for c in calls)
        R.ob("helper-model", "leave_scope: returns the scope's instructions, drops the scope, selects the enclosing one", ok, "%s %s → %s" % (st, calls, res), F.loc(f))
    f = F.fn("parser::ast::stmt::Statement::is_expression")
    if R.anchor("Statement::is_expression", f):
        from .e5 import Engine
        vs = Engine(F, {}).matches_variants(f)
        R.ob("helper-model", "Statement::is_expression is true exactly for Statement::Expr", vs == {"Expr"}, str(vs), F.loc(f))
