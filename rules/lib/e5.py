"""E5 — emission verifier: abstract interpretation of the compiler's own code.

The functions of `Compiler` that emit bytecode are executed abstractly over
their HIR.  The abstract state tracks, for the code emitted so far in the
current compilation scope:

  h        the operand-stack height the emitted code has at the current end of
           the instruction stream, relative to the height at the start of the
           construct being compiled (affine in the lengths of AST lists);
           None = the end of the stream is not reachable by fall-through
  last     class of `last_ins` (Pop / ReturnValue / Return / other / none)
  pending  jump placeholders emitted with operand 0xFFFF and not yet patched,
           each with the height its jump carries to the landing site
  loops    what was pushed on / popped from loop_stack
  facts    what the path has learned about the AST (variant of a node, Some/None
           of an optional part, shape of a block's last statement)

The effect of each `emit(op, operands)` is the opcode's stack effect computed by
E6 from VM::run.  Recursive calls (compile_expression / compile_statement /
compile_block_statement) are replaced by their summaries; the summaries are then
verified arm by arm (induction over the AST).  Every unknown condition forks.
"""
from . import hir as H
from .vmeffects import Lin, sym_of, lmin

C = "compiler::Compiler::"
SUMMARY_FNS = {"compile_expression", "compile_statement", "compile_block_statement"}
JUMPS = {"Jump", "JumpIfFalse", "JumpIfFalseNoPop"}
PLACEHOLDER = 0xFFFF

# block shapes: (empty, last statement is an expression statement, class of the last emitted instruction)
SHAPES = [(True, False, "Inherit"), (False, True, "Pop"), (False, False, "Pop"), (False, False, "Other"), (False, False, "Inherit")]


class Unsupported(Exception):
    pass


class St:
    __slots__ = ("h", "last", "prev", "landed", "env", "facts", "pend", "ph", "stack", "kind", "ls", "events", "order", "emits",
                 "transferred", "minh", "od")

    def __init__(self):
        self.h = Lin(0)
        self.last = "Other"
        self.prev = "Unknown"
        self.landed = True
        self.env = {}
        self.facts = {}
        self.pend = frozenset()
        self.ph = {}
        self.stack = ()
        self.kind = "main"
        self.ls = 0
        self.events = ()
        self.order = ()
        self.emits = ()
        self.transferred = frozenset()
        self.od = Lin(0, {"od0": 1})  # the compiler's own count of pending operands (CompilationScope.operand_depth), relative
        self.minh = Lin(0)          # lowest height any emitted instruction reaches into, relative to the start of the construct

    def copy(self):
        s = St.__new__(St)
        for f in St.__slots__:
            setattr(s, f, getattr(self, f))
        s.env = dict(self.env)
        s.facts = dict(self.facts)
        s.ph = dict(self.ph)
        return s

    def key(self):
        return (None if self.h is None else self.h.key(), self.last, self.prev, self.landed,
                tuple(sorted((k, repr(v)) for k, v in self.env.items())),
                tuple(sorted((k, repr(v)) for k, v in self.facts.items())), tuple(sorted(self.pend)),
                tuple(sorted((k, repr(v)) for k, v in self.ph.items())), repr(self.stack), self.kind, self.ls, self.events, self.order,
                self.emits, tuple(sorted(self.transferred)), self.minh.key(), self.od.key())


UNK = ("unk",)
UNIT = ("unit",)


def cls_of(op):
    return {"Pop": "Pop", "ReturnValue": "Ret", "Return": "RetN"}.get(op, "Other")


def canon(s, key, pname, _depth=0):
    """Name-independent form of an AST key.  The verifier names AST nodes by the compiler's own bindings
    (`binary.left`, `arg`); rules compare roles: `$` is the node the arm compiles, `:Variant` the payload bound by a
    pattern, `[]` an element of a child list (`[].0` / `[].1` for tuple elements), so `$:Binary.left`,
    `$:Call.args[]`, `$:Hash.pairs[].0`.  Renaming a local or moving code into a helper leaves these unchanged."""
    if key is None or _depth > 12:
        return key
    head, dot, rest = key.partition(".")
    tail = (dot + rest) if dot else ""
    pv = s.facts.get("payload:" + head)
    if pv is not None:
        parent = "$" if pv[0] == head or pv[0] == pname else canon(s, pv[0], pname, _depth + 1)
        return "%s:%s%s" % (parent, pv[1], tail)
    al = s.facts.get("alias:" + head)
    if al is not None and al != head:
        return canon(s, al, pname, _depth + 1) + tail
    el = s.facts.get("elem:" + head)
    if el is not None and el[0] != head:
        return "%s[]%s%s" % (canon(s, el[0], pname, _depth + 1), "" if el[1] is None else ".%d" % el[1], tail)
    if head == pname:
        return "$" + tail
    return key


class Engine:
    def __init__(self, F, effects, need=None):
        self.F = F
        self.eff = effects          # opcode -> Lin over op0/op1 (E6)
        self.need = need or {}      # opcode -> operands the instruction consumes / inspects (E6)
        self.viol = []              # (rule, key, detail, line)
        self.inline_stack = []
        self.cur = ""               # label of the arm under analysis
        self.expr_table = {}        # (variant, access) -> expected effect (filled by the caller)
        self.notes = set()
        self.visited = set()        # compiler methods whose bodies were interpreted
        self.sites = {}
        self.pred_stack = []
        self.site_count = {}
        self.top = ""
        self.pname = None           # name of the AST parameter of the function whose arms are being verified

    # ------------------------------------------------------------------------------------------------------------------
    def v(self, rule, what, detail="", line=None, st=None):
        facts = {}
        if st is not None:
            for k, v_ in st.facts.items():
                if k.startswith(("v:", "some:", "shape:")):
                    pre, key = k.split(":", 1)
                    facts[pre + ":" + canon(st, key, self.pname)] = v_
        self.viol.append((rule, "%s: %s" % (self.cur, what), detail, line, facts))

    def site_name(self, n, op):
        """stable name of a placeholder emit site: function, opcode, ordinal (no line numbers)"""
        k = id(n)
        if k not in self.sites:
            fn = self.inline_stack[-1] if self.inline_stack else self.top
            c = self.site_count.get((fn, op), 0)
            self.site_count[(fn, op)] = c + 1
            self.sites[k] = "%s:%s#%d" % (fn.replace("compile_", ""), op, c)
        return self.sites[k]

    # ---- AST keys -----------------------------------------------------------------------------------------------------
    def ast_key(self, n, st):
        """canonical key of an AST-valued expression (locals, fields, derefs, clones), or None"""
        n = H.strip(n)
        k = n.get("k")
        if k == "path" and n["res"]["r"] == "local":
            v = st.env.get(n["res"]["id"])
            if v is not None and v[0] == "ast":
                return v[1]
            return None
        if k == "field":
            b = self.ast_key(n["e"], st)
            if b is not None:
                return b + "." + n["name"]
        return None

    def is_enum_ty(self, ty):
        ty = (ty or "").lstrip("&").replace("mut ", "").strip()
        if ty.startswith("std::boxed::Box<"):
            ty = ty[len("std::boxed::Box<"):-1]
        a = self.F.adts.get(ty)
        return ty if a and a["kind"] == "enum" else None

    def variants(self, ty):
        return [v for v, _ in self.F.enum_variants(ty)]

    # ---- forking on facts ------------------------------------------------------------------------------------------------
    def fork(self, st, key, choices):
        if key in st.facts:
            return [(st, st.facts[key])]
        out = []
        for c in choices:
            s = st.copy()
            s.facts[key] = c
            out.append((s, c))
        return out

    # ---- evaluation ---------------------------------------------------------------------------------------------------------
    def block(self, n, st):
        """→ [(ctl, st, val)]"""
        cur = [st]
        out = []
        items = list(n.get("stmts", []))
        for s in items:
            nxt = []
            for c in cur:
                if s["k"] == "let":
                    if s.get("init") is None:
                        nxt.append(c)
                        continue
                    for ctl, s2, val in self.ev(s["init"], c):
                        if ctl != "n":
                            out.append((ctl, s2, val))
                            continue
                        if s.get("els") is not None:
                            # let PAT = init else { diverges }
                            for s3, matched in self.match_pat(s["pat"], val, s2, s["init"]):
                                if matched:
                                    nxt.append(s3)
                                else:
                                    for ctl2, s4, v4 in self.block(s["els"], s3):
                                        if ctl2 == "n":
                                            raise Unsupported("let-else whose else block falls through")
                                        out.append((ctl2, s4, v4))
                            continue
                        self.bind(s["pat"], val, s2)
                        nxt.append(s2)
                else:
                    for ctl, s2, val in self.ev(s["e"], c):
                        if ctl != "n":
                            out.append((ctl, s2, val))
                            continue
                        if val and val[0] in ("res_ok", "res_err") and s["k"] == "semi":
                            self.v("compile-error-dropped", "a Result of %s is discarded" % H.render(s["e"])[:60], "", s["e"].get("line"))
                        nxt.append(s2)
            cur = self.dedup(nxt)
        if n.get("expr") is not None:
            for c in cur:
                out.extend(self.ev(n["expr"], c))
        else:
            out.extend(("n", c, UNIT) for c in cur)
        return out

    def dedup(self, sts):
        seen, out = set(), []
        for s in sts:
            k = s.key()
            if k not in seen:
                seen.add(k)
                out.append(s)
        return out

    def bind(self, pat, val, st):
        k = pat.get("k")
        if k == "bind":
            st.env[pat["id"]] = val
            if val and val[0] == "ast" and val[1] == pat["name"]:
                # a fresh AST element under this name: forget what was known about the previous one
                for fk in [fk for fk in st.facts if fk.split(":", 1)[-1] == pat["name"] or fk.split(":", 1)[-1].startswith(pat["name"] + ".")]:
                    del st.facts[fk]
        elif k == "tuple":
            vs = val[1] if val and val[0] == "tuple" else [UNK] * len(pat["pats"])
            for p, x in zip(pat["pats"], vs):
                self.bind(p, x, st)
        elif k in ("ref", "deref"):
            self.bind(pat["pat"], val, st)
        elif k in ("wild",):
            pass
        elif k in ("ts", "struct"):
            subs = pat.get("pats") or [f["pat"] for f in pat.get("fields", [])]
            for p in subs:
                self.bind(p, UNK, st)
        else:
            pass

    def truth(self, val):
        if val and val[0] == "bool":
            return val[1]
        return None

    def ev(self, n, st):
        if n is None:
            return [("n", st, UNIT)]
        k = n.get("k")
        m = getattr(self, "ev_" + k, None)
        if m is None:
            raise Unsupported("HIR node kind %s at line %s" % (k, n.get("line")))
        return m(n, st)

    # -- leaves
    def ev_lit(self, n, st):
        if n["lk"] == "int":
            return [("n", st, ("lin", Lin(n["v"])))]
        if n["lk"] == "bool":
            return [("n", st, ("bool", bool(n["v"])))]
        if n["lk"] == "str":
            return [("n", st, ("str", n["v"]))]
        return [("n", st, UNK)]

    def ev_path(self, n, st):
        r = n["res"]
        if r["r"] == "local":
            if r["id"] in st.env:
                return [("n", st, st.env[r["id"]])]
            if r["name"] == "self":
                return [("n", st, ("self",))]
            return [("n", st, UNK)]
        if r["r"] in ("ctor", "variant") and r.get("path"):
            return [("n", st, ("variant", r["path"]))]
        return [("n", st, UNK)]

    def ev_closure(self, n, st):
        return [("n", st, ("closure", n))]

    def rtext(self, n, st):
        """rendering of n with locals that merely name a value of the AST replaced by that value's path"""
        env = {}
        for x in H.walk(n):
            lid = H.local_id(x) if isinstance(x, dict) and x.get("k") == "path" else None
            v = st.env.get(lid) if lid is not None else None
            if isinstance(v, tuple) and len(v) > 1 and v[0] == "ast" and isinstance(v[1], str) and v[1] != x["res"].get("name"):
                env[lid] = {"k": "path", "res": {"r": "local", "name": v[1], "id": ("ast", v[1])}}
        return H.render(H._subst(n, env) if env else n)

    def call_closure(self, clo, args, st):
        """evaluate a closure value on abstract arguments: → [(ctl, st, val)]"""
        n = clo[1]
        s = st.copy()
        for p, a in zip(n.get("params", []), args):
            self.bind(p, a, s)
        out = []
        for ctl, s2, v in self.ev(n["body"], s):
            out.append(("n", s2, v) if ctl in ("n", "ret") else (ctl, s2, v))
        return out

    def ev_struct(self, n, st):
        cur = [(st, [])]
        for f in n.get("fields", []):
            nxt = []
            for s, vs in cur:
                for ctl, s2, val in self.ev(f["e"], s):
                    if ctl == "n":
                        nxt.append((s2, vs + [val]))
            cur = nxt
        return [("n", s, UNK) for s, _ in cur]

    def ev_array(self, n, st):
        return self.ev_list(n.get("es", []), st, lambda vs: ("arr", vs))

    def ev_tup(self, n, st):
        return self.ev_list(n.get("es", []), st, lambda vs: ("tuple", vs))

    def ev_repeat(self, n, st):
        return [("n", st, UNK)]

    def ev_other(self, n, st):
        return [("n", st, UNK)]

    def ev_list(self, es, st, mk):
        cur = [(st, [])]
        out = []
        for e in es:
            nxt = []
            for s, vs in cur:
                for ctl, s2, val in self.ev(e, s):
                    if ctl == "n":
                        nxt.append((s2, vs + [val]))
                    else:
                        out.append((ctl, s2, val))
            cur = nxt
        return out + [("n", s, mk(vs)) for s, vs in cur]

    def ev_ref(self, n, st):
        return self.ev(n["e"], st)

    def ev_cast(self, n, st):
        return [(c, s, v if v and v[0] == "lin" else UNK) for c, s, v in self.ev(n["e"], st)]

    def ev_un(self, n, st):
        out = []
        for ctl, s, v in self.ev(n["e"], st):
            if ctl != "n":
                out.append((ctl, s, v))
            elif n["op"] == "!":
                t = self.truth(v)
                out.append(("n", s, ("bool", not t) if t is not None else UNK))
            elif n["op"] == "*":
                out.append(("n", s, v))
            else:
                out.append(("n", s, UNK))
        return out

    def ev_field(self, n, st):
        key = self.ast_key(n, st)
        if key is not None:
            return [("n", st, ("ast", key))]
        txt = H.render(n)
        if txt == "self.scope_index":
            return [("n", st, ("scope_index",))]
        if txt.endswith(".loop_stack") and txt.startswith("self.scopes["):
            return [("n", st, ("loopstack",))]
        if txt.startswith("self.scopes[") and (txt.endswith(".instructions") or txt.endswith(".instructions.code") or txt.endswith(".instructions.lines")):
            # the current scope's instruction stream, read directly instead of through get_curr_instructions()
            return [("n", st, ("instrs",))]
        if txt.endswith(".is_filter") and txt.startswith("self.scopes["):
            return [("n", st, ("bool", st.kind == "filter"))]
        if txt.endswith(".operand_depth") and txt.startswith("self.scopes["):
            return [("n", st, ("lin", st.od))]
        out = []
        for ctl, s, v in self.ev(n["e"], st):
            if ctl != "n":
                out.append((ctl, s, v))
                continue
            if v and v[0] == "loopctx":
                if n["name"] == "begin":
                    out.append(("n", s, ("loopbegin", v[1])))
                elif n["name"] == "break_positions":
                    out.append(("n", s, ("breakvec", v[1])))
                elif n["name"] == "operand_depth":
                    out.append(("n", s, ("lin", v[2] if len(v) > 2 and v[2] is not None else Lin(0, {"od0": 1, "od(loop)": 1}))))
                elif n["name"] == "label":
                    out.append(("n", s, ("opt", "?", ("looplabel",))))
                else:
                    out.append(("n", s, UNK))
            elif v and v[0] == "scope" and n["name"] == "loop_stack":
                out.append(("n", s, ("loopstack",)))
            elif v and v[0] == "scope" and n["name"] == "instructions":
                out.append(("n", s, ("instrs",)))
            elif v and v[0] == "instrs" and n["name"] in ("code", "lines"):
                out.append(("n", s, ("instrs",)))
            elif v and v[0] == "scope" and n["name"] == "is_filter":
                out.append(("n", s, ("bool", s.kind == "filter")))
            elif v and v[0] == "scope" and n["name"] == "operand_depth":
                out.append(("n", s, ("lin", s.od)))
            else:
                out.append(("n", s, UNK))
        return out

    def ev_index(self, n, st):
        txt = H.render(n)
        if txt == "self.scopes[self.scope_index]":
            return [("n", st, ("scope",))]
        return [(c, s, UNK) for c, s, v in self.ev_list([n["e"], n["i"]], st, lambda vs: UNK)]

    def ev_bin(self, n, st):
        op = n["op"]
        out = []
        if op in ("&&", "||"):
            for ctl, s, v in self.ev(n["l"], st):
                if ctl != "n":
                    out.append((ctl, s, v))
                    continue
                t = self.truth(v)
                if t is not None and ((op == "&&" and not t) or (op == "||" and t)):
                    out.append(("n", s, ("bool", t)))
                    continue
                for ctl2, s2, v2 in self.ev(n["r"], s):
                    if ctl2 != "n":
                        out.append((ctl2, s2, v2))
                        continue
                    t2 = self.truth(v2)
                    if t is not None:
                        out.append(("n", s2, ("bool", t2) if t2 is not None else UNK))
                    elif t2 is not None and ((op == "&&" and not t2) or (op == "||" and t2)):
                        out.append(("n", s2, ("bool", t2)))
                    else:
                        out.append(("n", s2, UNK))
            return out
        for ctl, s, vs in self.ev_list([n["l"], n["r"]], st, lambda vs: ("pair", vs)):
            if ctl != "n":
                out.append((ctl, s, vs))
                continue
            a, b = vs[1]
            val = UNK
            if a and b and a[0] == "lin" and b[0] == "lin":
                if op == "+":
                    val = ("lin", a[1] + b[1])
                elif op == "-":
                    val = ("lin", a[1] - b[1])
                elif op == "*" and (a[1].is_const() or b[1].is_const()):
                    val = ("lin", b[1].scale(a[1].c) if a[1].is_const() else a[1].scale(b[1].c))
                elif op in ("==", "!=") and a[1].is_const() and b[1].is_const():
                    val = ("bool", (a[1].c == b[1].c) == (op == "=="))
            elif op in ("==", "!=") and a and b and a[0] == "scope_index" and b[0] == "lin" and b[1] == Lin(0):
                val = ("bool", (s.kind == "main") == (op == "=="))
            elif op in ("==", "!=") and a and b and a[0] == "ast" and b[0] == "variant":
                ty = self.is_enum_ty(n["l"].get("ty"))
                if ty:
                    for s2, c in self.fork(s, "v:" + a[1], self.variants(ty)):
                        out.append(("n", s2, ("bool", (c == H.last(b[1])) == (op == "=="))))
                    continue
            elif op == "==" and a and b and "looplabel" in (a[0], b[0]):
                # does this enclosing loop carry the statement's label?  (one fact for the whole search)
                if s.facts.get("ls_label_found") is False:
                    out.append(("n", s, ("bool", False)))
                else:
                    s1, s2 = s.copy(), s.copy()
                    s1.facts["ls_label_found"] = True
                    out.append(("n", s1, ("bool", True)))
                    out.append(("n", s2, ("bool", False)))
                continue
            elif op in ("==", "!=") and a and b and a[0] == "ast" and b[0] == "str":
                for s2, c in self.fork(s, "streq:%s:%s" % (a[1], b[1]), [True, False]):
                    out.append(("n", s2, ("bool", c == (op == "=="))))
                continue
            elif op in ("==", "!=") and a and b and a[0] == "enumval" and b[0] == "variant":
                for s2, c in self.fork(s, "v:" + a[1], a[2]):
                    out.append(("n", s2, ("bool", (c == H.last(b[1])) == (op == "=="))))
                continue
            out.append(("n", s, val))
        return out

    def ev_assign(self, n, st):
        out = []
        ltxt = H.render(n["l"])
        for ctl, s, v in self.ev(n["r"], st):
            if ctl != "n":
                out.append((ctl, s, v))
                continue
            if ltxt.endswith(".operand_depth") and ltxt.startswith("self.scopes["):
                s = s.copy()
                if v and v[0] == "lin":
                    s.od = v[1]
                else:
                    self.v("operand-depth-bookkeeping", "operand_depth is assigned a value the analysis cannot follow: %s" % H.render(n["r"])[:60], "", n.get("line"))
            elif ltxt.endswith(".is_filter") and ltxt.startswith("self.scopes["):
                t = self.truth(v)
                s = s.copy()
                s.kind = "filter" if t else s.kind
            elif n["l"].get("k") == "path" and n["l"]["res"]["r"] == "local":
                s = s.copy()
                s.env[n["l"]["res"]["id"]] = v
            out.append(("n", s, UNIT))
        return out

    def ev_assignop(self, n, st):
        ltxt = H.render(n["l"])
        out = []
        for c, s, v in self.ev(n["r"], st):
            if c != "n":
                out.append((c, s, v))
                continue
            if ltxt.endswith(".operand_depth") and ltxt.startswith("self.scopes["):
                s = s.copy()
                if v and v[0] == "lin" and n["op"] in ("+=", "-="):
                    s.od = s.od + v[1] if n["op"] == "+=" else s.od - v[1]
                else:
                    self.v("operand-depth-bookkeeping", "operand_depth %s a value the analysis cannot follow" % n["op"], "", n.get("line"))
            out.append(("n", s, UNIT))
        return out

    def ev_ret(self, n, st):
        out = []
        if n.get("e") is None:
            return [("ret", st, UNIT)]
        for ctl, s, v in self.ev(n["e"], st):
            out.append(("ret", s, v) if ctl == "n" else (ctl, s, v))
        return out

    def ev_break(self, n, st):
        return [("brk", st, UNIT)]

    def ev_continue(self, n, st):
        return [("cont", st, UNIT)]

    def ev_block(self, n, st):
        return self.block(n, st)

    def ev_let(self, n, st):
        """`let PAT = init` as a condition → bool value; binds on the true branch"""
        out = []
        for ctl, s, v in self.ev(n["init"], st):
            if ctl != "n":
                out.append((ctl, s, v))
                continue
            for s2, matched in self.match_pat(n["pat"], v, s, n["init"]):
                out.append(("n", s2, ("bool", matched)))
        return out

    def match_pat(self, pat, val, st, scrut_node):
        """→ [(st', matched?)] ; binds pattern variables when matched"""
        pk = pat.get("k")
        if pk in ("bind", "wild"):
            s = st.copy()
            self.bind(pat, val, s)
            return [(s, True)]
        if pk in ("ref", "deref"):
            return self.match_pat(pat["pat"], val, st, scrut_node)
        if pk == "or" and any(a.get("k") in ("tuple", "or") for a in pat["pats"]):
            out, remaining = [], [st]
            for alt in pat["pats"]:
                nxt = []
                for r in remaining:
                    for s2, m in self.match_pat(alt, val, r, scrut_node):
                        (out if m else nxt).append((s2, m) if m else s2)
                remaining = nxt
            return out + [(r, False) for r in remaining]
        if pk == "tuple" and val and val[0] == "tuple" and len(val[1]) == len(pat["pats"]):
            sn = H.strip(scrut_node) if isinstance(scrut_node, dict) else {}
            comps = sn.get("es") if sn.get("k") == "tup" else None
            results = [(st, True)]
            for i, (p_i, v_i) in enumerate(zip(pat["pats"], val[1])):
                nxt = []
                for s2, m in results:
                    if not m:
                        nxt.append((s2, False))
                        continue
                    node_i = comps[i] if comps else {"ty": ""}
                    nxt.extend(self.match_pat(p_i, v_i, s2, node_i))
                results = nxt
            return results
        pv = [H.last(x) for x in H.pat_variants(pat)]
        # Option
        if val and val[0] == "opt":
            out = []
            _, key, inner = val
            for s, some in self.opt_fork(st, key):
                s = s.copy()
                if ("Some" in pv) == some:
                    if some and pat.get("k") == "ts" and pat.get("pats"):
                        self.bind(pat["pats"][0], inner, s)
                    out.append((s, True))
                else:
                    out.append((s, False))
            return out
        if val and val[0] == "optval":
            s = st.copy()
            if ("Some" in pv) == bool(val[1]):
                if val[1] and pat.get("k") == "ts" and pat.get("pats"):
                    self.bind(pat["pats"][0], val[2], s)
                return [(s, True)]
            return [(s, False)]
        if val and val[0] in ("ast", "enumval"):
            key = val[1]
            ty = self.is_enum_ty(scrut_node.get("ty")) if val[0] == "ast" else None
            vs = self.variants(ty) if ty else (val[2] if val[0] == "enumval" else None)
            if vs:
                out = []
                for s, c in self.fork(st, "v:" + key, vs):
                    s = s.copy()
                    if c in pv or "*" in pv:
                        if pat.get("k") == "ts" and pat.get("pats"):
                            for p in pat["pats"]:
                                if p.get("k") == "bind":
                                    self.bind(p, ("ast", self.fresh_key(p["name"], s)), s)
                                    s.facts["payload:" + s.env[p["id"]][1]] = (key, c)
                                else:
                                    self.bind(p, UNK, s)
                        out.append((s, True))
                    else:
                        out.append((s, False))
                return out
            if H.last((scrut_node.get("ty") or "").split("<")[0]) == "Option" or (scrut_node.get("ty") or "").lstrip("&").startswith("std::option::Option<"):
                out = []
                for s, some in self.fork(st, "some:" + key, [True, False]):
                    s = s.copy()
                    if ("Some" in pv) == some:
                        if some and pat.get("k") == "ts" and pat.get("pats"):
                            for p in pat["pats"]:
                                if p.get("k") == "bind":
                                    self.bind(p, ("ast", self.fresh_key(p["name"], s)), s)
                                    s.facts["alias:" + s.env[p["id"]][1]] = key
                                else:
                                    self.bind(p, UNK, s)
                        out.append((s, True))
                    else:
                        out.append((s, False))
                return out
        if pat.get("k") == "plit" and pat["lit"].get("lk") == "bool" and val and val[0] == "ast":
            # `match node.flag { true => .., false => .. }`: the same decision an `if node.flag` records
            ck = "cond:" + val[1]
            want = bool(pat["lit"]["v"])
            if ck in st.facts:
                return [(st.copy(), st.facts[ck] == want)]
            a, b = st.copy(), st.copy()
            a.facts[ck] = want
            b.facts[ck] = not want
            return [(a, True), (b, False)]
        # unknown: both
        a, b = st.copy(), st.copy()
        self.bind(pat, UNK, a)
        lits = self.str_lits(pat)
        if lits and val and val[0] == "ast":
            k = "strpat:" + val[1]
            a.facts[k] = a.facts.get(k, ()) + (lits,)
            k = "strnot:" + val[1]
            b.facts[k] = b.facts.get(k, ()) + lits
        return [(a, True), (b, False)]

    def str_lits(self, pat):
        if pat.get("k") == "plit" and pat["lit"].get("lk") == "str":
            return (pat["lit"]["v"],)
        if pat.get("k") == "or":
            out = ()
            for p in pat["pats"]:
                l = self.str_lits(p)
                if not l:
                    return ()
                out += l
            return out
        return ()

    def fresh_key(self, name, st):
        """key of a payload binding: the binding's name, made unique when an outer payload binding of the same name is
        still described by the path's facts (`ElseIfExpr::ElseIf(else_if)` then `Expression::If(else_if)`)"""
        if ("payload:" + name) not in st.facts and ("alias:" + name) not in st.facts:
            return name
        i = 2
        while ("payload:%s'%d" % (name, i)) in st.facts or ("alias:%s'%d" % (name, i)) in st.facts:
            i += 1
        return "%s'%d" % (name, i)

    def opt_fork(self, st, key):
        if key == "?":
            return [(st.copy(), True), (st.copy(), False)]
        if key.startswith("shape-nonempty:"):
            bk = key.split(":", 1)[1]
            return [(s, not sh[0]) for s, sh in self.fork(st, "shape:" + bk, SHAPES)]
        if key == "ls_label_found":
            return self.fork(st, "ls_label_found", [True, False])
        if key == "ls_nonempty":
            return [(s, not e) for s, e in self.fork(st, "ls_empty", [True, False])]
        return self.fork(st, "some:" + key, [True, False])

    def ev_if(self, n, st):
        out = []
        for ctl, s, v in self.ev(n["c"], st):
            if ctl != "n":
                out.append((ctl, s, v))
                continue
            t = self.truth(v)
            ctxt = None
            if t is None and H.strip(n["c"]).get("k") != "let":
                # a decision on a value of the AST is named after that value, however the program got hold of it
                # (`if b.value`, or `let value = b.value; .. if value`)
                ctxt = "cond:" + (v[1] if (isinstance(v, tuple) and len(v) > 1 and v[0] == "ast" and isinstance(v[1], str)) else H.render(n["c"])[:80])
                if ctxt in s.facts:
                    t = s.facts[ctxt]
            if t is None or t:
                s1 = s.copy()
                if t is None and ctxt:
                    s1.facts[ctxt] = True
                out.extend(self.ev(n["t"], s1))
            if t is None or not t:
                s1 = s.copy()
                if t is None and ctxt:
                    s1.facts[ctxt] = False
                if n.get("e") is not None:
                    out.extend(self.ev(n["e"], s1))
                else:
                    out.append(("n", s1, UNIT))
        return out

    def ev_match(self, n, st):
        if H.is_try(n):
            inner = n["scrut"]["args"][0]
            out = []
            for ctl, s, v in self.ev(inner, st):
                if ctl != "n":
                    out.append((ctl, s, v))
                elif v and v[0] == "res_err":
                    out.append(("ret", s, v))
                elif v and v[0] == "res_ok":
                    out.append(("n", s, v[1]))
                else:
                    out.append(("n", s, UNK))
            return out
        if n.get("src", "").startswith("ForLoopDesugar"):
            return self.for_loop(n, st)
        out = []
        for ctl, s, v in self.ev(n["scrut"], st):
            if ctl != "n":
                out.append((ctl, s, v))
                continue
            remaining = [s]
            for a in n["arms"]:
                nxt = []
                for r in remaining:
                    for s2, matched in self.match_pat(a["pat"], v, r, n["scrut"]):
                        if matched:
                            if a.get("guard") is not None:
                                # `PAT if cond =>`: the arm is taken when the guard holds, otherwise the later arms are tried
                                for ctl3, s3, gv in self.ev(a["guard"], s2):
                                    if ctl3 != "n":
                                        out.append((ctl3, s3, gv))
                                        continue
                                    t = self.truth(gv)
                                    ctxt = None
                                    if t is None and H.strip(a["guard"]).get("k") != "let":
                                        ctxt = "cond:" + H.render(a["guard"])[:80]
                                        if ctxt in s3.facts:
                                            t = s3.facts[ctxt]
                                    if t is None or t:
                                        s4 = s3.copy()
                                        if t is None and ctxt:
                                            s4.facts[ctxt] = True
                                        out.extend(self.ev(a["body"], s4))
                                    if t is None or not t:
                                        s4 = s3.copy()
                                        if t is None and ctxt:
                                            s4.facts[ctxt] = False
                                        nxt.append(s4)
                                continue
                            out.extend(self.ev(a["body"], s2))
                        else:
                            nxt.append(s2)
                remaining = self.dedup(nxt)
        return out

    def definite(self, pat, val, scrut_node):
        return pat.get("k") in ("bind", "wild") or (val and val[0] in ("ast", "opt", "enumval"))

    # ---- loops -----------------------------------------------------------------------------------------------------------
    def for_loop(self, n, st):
        coll_node = n["scrut"]["args"][0]
        loop = n["arms"][0]["body"]
        inner = loop["body"]["stmts"][0]["e"] if loop["body"].get("stmts") else loop["body"]["expr"]
        some_arm = [a for a in inner["arms"] if "Some" in [H.last(x) for x in H.pat_variants(a["pat"])]][0]
        pat = some_arm["pat"]["pats"][0] if some_arm["pat"].get("pats") else some_arm["pat"]["fields"][0]["pat"]
        body = some_arm["body"]
        out = []
        cn = H.strip(coll_node)
        if cn.get("k") == "struct" and H.last(cn["res"].get("path")) == "Range":
            fl = {fd["name"]: fd["e"] for fd in cn["fields"]}
            for ctl, s, ev_ in self.ev(fl["end"], st):
                if ctl != "n":
                    out.append((ctl, s, ev_))
                    continue
                st0 = H.strip(fl["start"])
                zero = st0.get("k") == "lit" and st0.get("v") == 0
                out.extend(self.run_loop(("range", ev_[1] if ev_ and ev_[0] == "lin" and zero else None), coll_node, pat, body, s))
            return out
        for ctl, s, coll in self.ev(coll_node, st):
            if ctl != "n":
                out.append((ctl, s, coll))
                continue
            out.extend(self.run_loop(coll, coll_node, pat, body, s))
        return out

    def elem_value(self, coll, pat, idx=None):
        if coll and coll[0] == "enumerate":
            return ("tuple", [("lin", idx) if idx is not None else UNK, self.elem_value(coll[1], pat["pats"][1] if pat.get("k") == "tuple" else pat)])
        if coll and coll[0] == "loopstack-iter":
            return ("loopctx", None)
        if pat.get("k") == "tuple":
            return ("tuple", [self.elem_value(coll, p) for p in pat["pats"]])
        if pat.get("k") == "bind":
            return ("ast", pat["name"])
        return UNK

    def note_elems(self, coll, pat, st):
        """record where a loop's element bindings come from (`elem:<binding>` = (key of the list, tuple position)), so
        rules can name a child by its role instead of by the compiler's local variable names"""
        base = coll
        while base and base[0] in ("enumerate", "rev") and len(base) > 1:
            base = base[1]
            if pat.get("k") == "tuple" and len(pat["pats"]) == 2:
                pat = pat["pats"][1]
        if not (base and base[0] in ("ast", "coll") and isinstance(base[1], str)):
            return
        if pat.get("k") == "bind":
            st.facts["elem:" + pat["name"]] = (base[1], None)
        elif pat.get("k") == "tuple":
            for i, p in enumerate(pat["pats"]):
                if p.get("k") == "bind":
                    st.facts["elem:" + p["name"]] = (base[1], i)

    def run_loop(self, coll, coll_node, pat, body, st):
        out = []
        # 1. vectors of jump placeholders: patch each member in turn
        if coll and coll[0] == "phvec":
            cur = [st]
            for pid in sorted(coll[1]):
                nxt = []
                for s in cur:
                    s = s.copy()
                    self.bind(pat, ("ph", pid), s)
                    for ctl, s2, v in self.ev(body, s):
                        if ctl in ("n", "cont"):
                            nxt.append(s2)
                        else:
                            out.append((ctl, s2, v))
                cur = nxt
            return out + [("n", s, UNIT) for s in cur]
        if coll and coll[0] == "breakvec":
            s = st.copy()
            self.bind(pat, ("breakpos", coll[1]), s)
            res = []
            for ctl, s2, v in self.ev(body, s):
                res.append(("n", s2, UNIT) if ctl in ("n", "cont") else (ctl, s2, v))
            return res
        probe = coll
        while probe and probe[0] in ("enumerate", "rev") and len(probe) > 1:
            if probe[0] == "rev":
                self.v("child-order", "a list of AST children is compiled in reverse order: %s" % H.render(H.strip(coll_node))[:80], "", coll_node.get("line"))
                coll = coll[1] if coll[0] == "rev" else ("enumerate", coll[1][1])
                break
            probe = probe[1]
        inner = coll[1] if coll and coll[0] == "enumerate" else coll
        if inner and inner[0] in ("list", "arr"):
            # a literal list (`vec![key, value]`, `[a, b]`): unrolled
            cur = [st]
            for idx, ev_ in enumerate(inner[1]):
                nxt = []
                for s in cur:
                    s = s.copy()
                    self.bind(pat, ("tuple", [("lin", Lin(idx)), ev_]) if coll[0] == "enumerate" else ev_, s)
                    for ctl, s2, v in self.ev(body, s):
                        if ctl in ("n", "cont"):
                            nxt.append(s2)
                        elif ctl == "brk":
                            out.append(("n", s2, UNIT))
                        else:
                            out.append((ctl, s2, v))
                cur = self.dedup(nxt)
            return out + [("n", s, UNIT) for s in cur]
        if coll and coll[0] == "range" and coll[1] is not None:
            # `for _ in 0..n`: n iterations of a body with a constant effect
            s = st.copy()
            self.bind(pat, UNK, s)
            ends = [s2 for ctl, s2, v in self.ev(body, s) if ctl in ("n", "cont")]
            if not ends:
                return [("n", st, UNIT)]
            j = self.join(ends)
            if st.h is not None and j.h is not None:
                d = j.h - st.h
                if not d.is_const():
                    self.v("loop-height", "a counted loop changes the height by a non-constant %s per iteration" % d)
                j.h = st.h + coll[1].scale(d.c)
                j.minh = lmin(st.minh, j.h) if d.c < 0 else st.minh
            j = self.join([st.copy(), j]) if False else j
            if not (j.last == st.last):
                j.last = "Unknown" if "Pop" in (j.last, st.last) else j.last
            return [("n", j, UNIT)]
        # 2. generic collection of unknown length
        lenkey = "len(%s)" % (coll[1] if coll and coll[0] in ("ast", "coll") else H.render(H.strip(coll_node)))
        if coll and coll[0] == "enumerate":
            lenkey = "len(%s)" % (coll[1][1] if coll[1] and coll[1][0] in ("ast", "coll") else H.render(H.strip(coll_node)))
        head = st
        exits = []
        for rnd in range(8):
            s = head.copy()
            self.bind(pat, self.elem_value(coll, pat, Lin(0)), s)
            self.note_elems(coll, pat, s)
            ends = []
            for ctl, s2, v in self.ev(body, s):
                if ctl in ("n", "cont"):
                    ends.append(s2)
                elif ctl == "brk":
                    exits.append(s2)
                else:
                    out.append((ctl, s2, v))
            if not ends:
                break
            hs = {None if e.h is None else e.h.key() for e in ends}
            if head.h is not None and len(hs) == 1 and ends[0].h is not None and not (ends[0].h == head.h):
                d = ends[0].h - head.h
                if not d.is_const():
                    self.v("loop-height", "a loop over %s changes the height by a non-constant %s" % (lenkey, d))
                    break
                # every iteration adds d: run the body once more at a generic iteration `i` (height head.h + d·i),
                # then leave the loop with the symbolic multiple head.h + d·len
                isym = "i(%s)" % lenkey[4:-1]
                s = head.copy()
                s.h = head.h + Lin(0, {isym: d.c})
                self.bind(pat, self.elem_value(coll, pat, Lin(0, {isym: 1})), s)
                self.note_elems(coll, pat, s)
                ends2 = []
                for ctl, s2, v in self.ev(body, s):
                    if ctl in ("n", "cont"):
                        ends2.append(s2)
                    elif ctl == "brk":
                        exits.append(s2)
                    else:
                        out.append((ctl, s2, v))
                if ends2 and all(e.h is not None and (e.h - s.h) == d for e in ends2):
                    ends = ends2
                else:
                    self.v("loop-height", "the per-iteration effect of the loop over %s depends on the iteration" % lenkey)
                j = self.join(ends)
                j.h = head.h + Lin(0, {lenkey: d.c})
                if j.od != head.od:
                    self.v("operand-depth-bookkeeping", "operand_depth is not restored by an iteration of the loop over %s" % lenkey)
                h0 = head.copy()
                h0.h = j.h
                exits.append(h0)
                exits.append(j)
                head = None
                break
            j = self.join([head] + ends)
            if j.key() == head.key():
                break
            head = j
        else:
            self.v("loop-fixpoint", "no fixpoint for the loop over %s" % lenkey)
        if head is not None:
            exits.append(head)
        return out + [("n", s, UNIT) for s in self.dedup(exits)]

    def join(self, sts):
        base = sts[0].copy()
        for o in sts[1:]:
            if base.h is None:
                base.h = o.h          # an unreachable end of stream joins with anything
            elif o.h is not None and not (base.h == o.h):
                self.v("join-height", "paths meet with different heights %s / %s" % (base.h, o.h))
            if base.last != o.last:
                base.last = "Unknown" if "Pop" in (base.last, o.last) or "Unknown" in (base.last, o.last) else "Other"
            if base.prev != o.prev:
                base.prev = "Unknown"
            base.landed = base.landed or o.landed
            for k in list(base.env):
                a, b = base.env[k], o.env.get(k)
                if a == b:
                    continue
                if a and b and a[0] == "phvec" and b[0] == "phvec":
                    base.env[k] = ("phvec", a[1] | b[1])
                else:
                    base.env[k] = UNK
            for k, v in o.env.items():
                if k not in base.env:
                    base.env[k] = v
            for k in list(base.facts):
                if o.facts.get(k) != base.facts[k]:
                    del base.facts[k]
            base.pend = base.pend | o.pend
            base.transferred = base.transferred | o.transferred
            for k, v in o.ph.items():
                if k in base.ph and not (base.ph[k] == v):
                    self.v("join-height", "placeholder %s carries different heights" % k)
                base.ph.setdefault(k, v)
            if base.ls != o.ls or base.kind != o.kind or len(base.stack) != len(o.stack):
                self.v("join-scope", "paths meet in different scopes / loop-stack depths")
            base.minh = lmin(base.minh, o.minh)
            base.events = tuple(sorted(set(base.events) | set(o.events), key=repr))
            if base.order != o.order and (not base.order or base.order[-1] != ("…",)):
                base.order = base.order + (("…",),)
            if base.emits != o.emits and (not base.emits or base.emits[-1] != ("…",)):
                base.emits = base.emits + (("…",),)
        return base

    def ev_loop(self, n, st):
        raise Unsupported("bare loop in compiler code at line %s" % n.get("line"))

    # ---- calls -----------------------------------------------------------------------------------------------------------
    def ev_call(self, n, st):
        cal = n.get("callee") or ""
        ctor = n.get("ctor")
        if ctor:
            nm = H.last(ctor)
            out = []
            for ctl, s, vs in self.ev_list(n.get("args", []), st, lambda vs: ("args", vs)):
                if ctl != "n":
                    out.append((ctl, s, vs))
                    continue
                a = vs[1]
                if nm == "Ok":
                    out.append(("n", s, ("res_ok", a[0] if a else UNIT)))
                elif nm == "Err":
                    out.append(("n", s, ("res_err",)))
                elif nm == "Some":
                    out.append(("n", s, ("optval", True, a[0] if a else UNK)))
                else:
                    out.append(("n", s, ("ctor", self.rtext(n, s))))
            return out
        if cal.startswith(C):
            return self.compiler_call(H.last(cal), n, None, n.get("args", []), st)
        if H.last(cal) == "new" and "LoopContext" in cal:
            out = []
            for ctl, s, vs in self.ev_list(n.get("args", []), st, lambda vs: ("args", vs)):
                if ctl != "n":
                    out.append((ctl, s, vs))
                else:
                    lb = vs[1][1] if len(vs[1]) > 1 else None
                    dv = vs[1][2] if len(vs[1]) > 2 else None
                    od = dv[1] if dv and dv[0] == "lin" else None
                    s = s.copy()
                    s.events = s.events + (("loop-begin", lb[2] if lb and lb[0] == "label" and len(lb) > 2 else None, None if od is None else (od - Lin(0, {"od0": 1})).key()),)
                    out.append(("n", s, ("loopctx", lb, od)))
            return out
        if cal.endswith("box_assume_init_into_vec_unsafe") or cal.endswith("slice::<impl [T]>::into_vec"):
            # `vec![a, b, ..]`: a list of known length
            arrs = [x for x in H.walk(n) if x.get("k") == "array"]
            if len(arrs) == 1:
                return self.ev_list(arrs[0].get("es", []), st, lambda vs: ("list", vs))
        if cal.endswith("Vec::<T>::new") or cal.endswith("Vec::<T, A>::new") or H.last(cal) in ("new",) and "Vec" in cal:
            return [("n", st, ("phvec", frozenset()))]
        # a closure handed to a helper of the compiler and called there (`emit_body(self)`, `emit_skip(self, pos)`), or called
        # where it was written
        fnode = H.strip(n["f"]) if isinstance(n.get("f"), dict) else {}
        clo = None
        if fnode.get("k") == "closure":
            clo = ("closure", fnode)
        elif H.local_id(fnode) is not None and isinstance(st.env.get(H.local_id(fnode)), tuple) and st.env[H.local_id(fnode)][:1] == ("closure",):
            clo = st.env[H.local_id(fnode)]
        if clo is not None:
            out = []
            for ctl, s, vs in self.ev_list(n.get("args", []), st, lambda vs: ("args", vs)):
                if ctl != "n":
                    out.append((ctl, s, vs))
                else:
                    out.extend(self.call_closure(clo, vs[1], s))
            return out
        return [(c, s, UNK) if c == "n" else (c, s, v) for c, s, v in self.ev_list(n.get("args", []), st, lambda vs: UNK)]

    def ev_mcall(self, n, st):
        cal = n.get("callee") or ""
        m = n["m"]
        if cal.startswith(C):
            return self.compiler_call(m, n, n["recv"], n.get("args", []), st)
        out = []
        for ctl, s, rv in self.ev(n["recv"], st):
            if ctl != "n":
                out.append((ctl, s, rv))
                continue
            for ctl2, s2, avs in self.ev_list(n.get("args", []), s, lambda vs: ("args", vs)):
                if ctl2 != "n":
                    out.append((ctl2, s2, avs))
                    continue
                out.extend(self.method(m, n, rv, avs[1], s2))
        return out

    def method(self, m, n, rv, args, st):
        r0 = rv[0] if rv else None
        # the AST is compiled as written: a child list is neither reordered nor edited before it is compiled
        base = rv
        while base and base[0] in ("enumerate", "rev") and len(base) > 1:
            base = base[1]
        if base and base[0] == "ast" and not H.last(base[1]).endswith("()"):
            rty = (n.get("recv_ty") or "")
            if rty.startswith("&mut") and m not in ("iter_mut", "as_mut", "as_mut_slice", "borrow_mut", "deref_mut", "next", "by_ref", "get_mut", "first_mut", "last_mut"):
                self.v("child-order", "a list of AST children is modified in place before it is compiled: %s.%s(..)" % (base[1], m), "", n.get("line"))
            if m == "rev":
                return [("n", st, ("rev", rv))]
        # transparent adaptors
        if m in ("clone", "as_ref", "as_str", "as_mut", "iter", "iter_mut", "rev", "into_iter", "to_string", "borrow", "to_owned", "to_vec"):
            if r0 == "loopstack" and m in ("iter", "iter_mut"):
                return [("n", st, ("loopstack-iter",))]
            return [("n", st, rv)]
        if m == "enumerate":
            return [("n", st, ("enumerate", rv))]
        if r0 == "loopstack-iter" and m in ("find", "rfind"):
            return [("n", st, ("opt", "ls_label_found", ("loopctx", None, None)))]
        if r0 == "lin" and m in ("saturating_sub", "wrapping_sub") and args and args[0] and args[0][0] == "lin":
            return [("n", st, ("lin", rv[1] - args[0][1]))]
        if r0 == "ast":
            key = rv[1]
            if m == "len":
                return [("n", st, ("lin", Lin(0, {"len(%s)" % key: 1})))]
            if m == "last" and key.endswith(".statements"):
                bk = key[:-len(".statements")]
                return [("n", st, ("opt", "shape-nonempty:" + bk, ("stmtref", bk)))]
            if m in ("first", "last", "get"):
                return [("n", st, ("opt", key + "." + m, ("ast", key + "." + m + "()")))]
            if m == "unwrap":
                return [("n", st, rv)]
            if m == "is_empty":
                return [("n", st, UNK)]
            cal = n.get("callee") or ""
            f = self.F.fn(cal)
            if f is not None and "parser::ast" in cal:
                vs = self.matches_variants(f)
                ty = self.is_enum_ty(n.get("recv_ty") or n["recv"].get("ty"))
                if vs is not None and ty:
                    return [("n", s, ("bool", c in vs)) for s, c in self.fork(st, "v:" + key, self.variants(ty))]
                if H.body_of(f) is not None and n.get("ty") == "bool" and cal not in self.pred_stack:
                    # a pure predicate over the AST: evaluate its body
                    self.pred_stack.append(cal)
                    try:
                        return self.inline(H.last(cal), f, args, st, recv=rv)
                    except Unsupported:
                        return [("n", st, UNK)]
                    finally:
                        self.pred_stack.pop()
                return [("n", st, UNK)]
            return [("n", st, UNK)]
        if r0 in ("opt", "optval") and m in ("flat_map",) and args and args[0] and args[0][0] == "closure":
            # `opt.into_iter().flat_map(|x| list_of(x))`: the list of the payload, or nothing
            inner = rv[2] if len(rv) > 2 else UNK
            out = []
            forks = self.opt_fork(st, rv[1]) if r0 == "opt" else [(st, bool(rv[1]))]
            for s1, some in forks:
                if not some:
                    out.append(("n", s1, ("list", [])))
                    continue
                out.extend(self.call_closure(args[0], [inner], s1))
            return out
        if r0 in ("opt", "optval") and m in ("map_or_else", "map_or") and len(args) == 2 and args[1] and args[1][0] == "closure":
            # Option::map_or_else(default, f) / map_or(default_value, f): f on the payload, or the default
            inner = rv[2] if len(rv) > 2 else UNK
            out = []
            forks = self.opt_fork(st, rv[1]) if r0 == "opt" else [(st, bool(rv[1]))]
            for s1, some in forks:
                if some:
                    out.extend(self.call_closure(args[1], [inner], s1))
                elif m == "map_or":
                    out.append(("n", s1, args[0]))
                elif args[0] and args[0][0] == "closure":
                    out.extend(self.call_closure(args[0], [], s1))
                else:
                    dn = H.render(H.strip(n["args"][0]))
                    out.append(("n", s1, ("list", []) if dn.endswith(("Vec::new", "default", "Vec::default")) else UNK))
            return out
        if r0 in ("opt", "optval") and m in ("unwrap_or_default", "unwrap_or_else", "unwrap_or") and (m == "unwrap_or_default" or args):
            inner = rv[2] if len(rv) > 2 else UNK
            out = []
            forks = self.opt_fork(st, rv[1]) if r0 == "opt" else [(st, bool(rv[1]))]
            for s1, some in forks:
                if some:
                    out.append(("n", s1, inner))
                elif m == "unwrap_or":
                    out.append(("n", s1, args[0]))
                elif m == "unwrap_or_else" and args[0] and args[0][0] == "closure":
                    out.extend(self.call_closure(args[0], [], s1))
                else:
                    out.append(("n", s1, ("list", []) if "Vec<" in (n.get("ty") or "") else UNK))
            return out
        if r0 in ("opt", "optval") and m in ("map", "and_then", "inspect") and args and args[0] and args[0][0] == "closure":
            # Option::map(|x| f(x)): the closure runs on the payload when there is one; Some-ness is unchanged
            inner = rv[2] if len(rv) > 2 else UNK
            if r0 == "optval" and not rv[1]:
                return [("n", st, rv)]
            out = []
            if r0 == "opt":
                for s1, some in self.opt_fork(st, rv[1]):
                    if not some:
                        out.append(("n", s1, rv))
                        continue
                    for ctl, s2, v in self.call_closure(args[0], [inner], s1):
                        if ctl != "n":
                            out.append((ctl, s2, v))
                        elif m == "map":
                            out.append(("n", s2, ("opt", rv[1], v)))
                        elif m == "inspect":
                            out.append(("n", s2, rv))
                        else:
                            out.append(("n", s2, v if v and v[0] in ("opt", "optval") else UNK))
                return out
            for ctl, s2, v in self.call_closure(args[0], [inner], st):
                if ctl != "n":
                    out.append((ctl, s2, v))
                elif m == "map":
                    out.append(("n", s2, ("optval", True, v)))
                elif m == "inspect":
                    out.append(("n", s2, rv))
                else:
                    out.append(("n", s2, v if v and v[0] in ("opt", "optval") else UNK))
            return out
        if r0 == "opt":
            if m == "unwrap":
                return [("n", st, rv[2])]
            if m in ("is_some", "is_none"):
                return [("n", s, ("bool", some == (m == "is_some"))) for s, some in self.opt_fork(st, rv[1])]
        if r0 == "stmtref" and m == "is_expression":
            return [("n", s, ("bool", sh[1])) for s, sh in self.fork(st, "shape:" + rv[1], SHAPES)]
        if r0 == "loopstack":
            if m == "is_empty":
                return [("n", s, ("bool", e)) for s, e in self.fork(st, "ls_empty", [True, False])]
            if m == "push":
                s = st.copy()
                s.ls += 1
                s.facts["ls_empty"] = False
                s.facts["ls_top"] = args[0] if args else UNK
                return [("n", s, UNIT)]
            if m == "pop":
                s = st.copy()
                s.ls -= 1
                top = s.facts.pop("ls_top", None)
                if top is not None:
                    s.facts.pop("ls_empty", None)
                    return [("n", s, ("optval", True, top))]
                return [("n", s, ("opt", "ls_nonempty", ("loopctx", None)))]
            if m in ("last", "last_mut"):
                return [("n", st, ("opt", "ls_nonempty", st.facts.get("ls_top", ("loopctx", None))))]
        if r0 == "breakvec" and m == "push":
            a = args[0] if args else None
            if a and a[0] == "ph":
                s = st.copy()
                s.pend = s.pend - {a[1]}
                s.transferred = s.transferred | {a[1]}
                s.events = s.events + (("break", s.ph[a[1]].key() if s.ph.get(a[1]) is not None else None),)
                return [("n", s, UNIT)]
            self.v("break-bookkeeping", "break_positions.push of a value that is not a fresh jump placeholder")
            return [("n", st, UNIT)]
        if r0 == "phvec" and m == "push":
            a = args[0] if args else None
            if a and a[0] == "ph":
                s = st.copy()
                rn = H.strip(n["recv"])
                if rn.get("k") == "path":
                    s.env[rn["res"]["id"]] = ("phvec", rv[1] | {a[1]})
                return [("n", s, UNIT)]
            return [("n", st, UNIT)]
        if r0 == "instrs" and m == "len":
            return [("n", st, ("label", st.h, len(st.emits) + len(st.order)))]
        if r0 == "lin" and m == "len":
            return [("n", st, rv)]
        if r0 in ("list", "arr") and m == "len":
            return [("n", st, ("lin", Lin(len(rv[1]))))]
        if m == "len":
            return [("n", st, ("lin", Lin(0, {"len(%s)" % H.render(H.strip(n["recv"])): 1})))]
        if r0 == "optval":
            if m == "unwrap":
                return [("n", st, rv[2])]
        return [("n", st, UNK)]

    def matches_variants(self, f):
        """variants for which a `matches!(self, A | B)`-style predicate is true, or None"""
        b = H.body_of(f)
        ms = [x for x in H.walk(b) if x.get("k") == "match" and not H.is_try(x)]
        if len(ms) != 1 or H.render(H.strip(ms[0]["scrut"])) != "self":
            return None
        vs = set()
        for a in ms[0]["arms"]:
            t = H.strip(a["body"])
            if t.get("k") == "lit" and t.get("lk") == "bool":
                if t["v"]:
                    vs |= {H.last(x) for x in H.pat_variants(a["pat"])}
            else:
                return None
        return vs

    # ---- the compiler's own methods -----------------------------------------------------------------------------------------
    def compiler_call(self, name, n, recv, argnodes, st):
        out = []
        if name == "get_curr_instructions":
            return [("n", st, ("instrs",))]
        for ctl, s, avs in self.ev_list(argnodes, st, lambda vs: ("args", vs)):
            if ctl != "n":
                out.append((ctl, s, avs))
                continue
            args = avs[1]
            out.extend(self.compiler_method(name, n, args, argnodes, s))
        return out

    def ev_len_of_instrs(self, st):
        return ("label", st.h)

    def compiler_method(self, name, n, args, argnodes, st):
        line = n.get("line")
        if name == "emit":
            return self.do_emit(n, args, argnodes, st)
        if name == "patch_jump":
            return self.do_patch(args[0] if args else UNK, st, line)
        if name == "is_last_instruction":
            op = H.last(args[0][1]) if args and args[0] and args[0][0] == "variant" else None
            want = cls_of(op) if op else None
            if st.last == "Unknown":
                self.v("peephole-state", "is_last_instruction(%s) is asked where the last instruction is not determined" % op, "", line)
                return [("n", st.copy(), ("bool", True)), ("n", st.copy(), ("bool", False))]
            if want == "Other":
                return [("n", st, UNK)]
            return [("n", st, ("bool", st.last == want))]
        if name == "remove_last_pop":
            s = st.copy()
            if s.last != "Pop":
                self.v("peephole-remove", "remove_last_pop() where the last instruction is %s, not Pop" % s.last, "", line)
            if s.landed:
                self.v("peephole-remove", "remove_last_pop() after a jump was patched to land behind that Pop", "", line)
            if s.h is not None:
                s.h = s.h + Lin(1)
            s.last, s.prev = s.prev, "Unknown"
            s.emits = s.emits + (("-Pop",),)
            return [("n", s, UNIT)]
        if name == "replace_last_pop_with_return":
            s = st.copy()
            if s.last != "Pop":
                self.v("peephole-remove", "replace_last_pop_with_return() where the last instruction is %s" % s.last, "", line)
            if s.kind != "fn":
                self.v("return-guard", "ReturnValue is produced outside a function scope (%s)" % s.kind, "", line)
            s.h = None
            s.last = "Ret"
            return [("n", s, UNIT)]
        if name == "enter_scope":
            s = st.copy()
            s.stack = s.stack + ((s.h, s.last, s.prev, s.landed, s.kind, s.ls, s.facts.get("ls_empty"), s.facts.get("ls_top"), s.pend, s.events, s.minh, s.od),)
            s.h, s.last, s.prev, s.landed, s.kind, s.ls = Lin(0), "None", "None", False, "fn", 0
            s.minh = Lin(0)
            s.od = Lin(0)
            s.facts["ls_empty"] = True
            s.facts.pop("ls_top", None)
            s.pend = frozenset()
            s.events = ()
            return [("n", s, UNIT)]
        if name == "leave_scope":
            s = st.copy()
            if not s.stack:
                self.v("scope-pairing", "leave_scope() without enter_scope()", "", line)
                return [("n", s, UNK)]
            if s.kind == "filter":
                if s.h is not None and not (s.h == Lin(1)):
                    self.v("filter-result", "a filter scope ends with %s values on the stack; pop_filter_frame pops exactly one" % s.h, "", line, st=s)
            elif s.kind == "fn":
                if s.last not in ("Ret", "RetN"):
                    self.v("function-ends-with-return", "a function scope can end with last instruction class %s" % s.last, "", line)
            if s.pend:
                self.v("jump-patched-once", "scope left with unpatched jump placeholders %s" % sorted(s.pend), "", line)
            if s.ls != 0:
                self.v("loop-stack-balance", "scope left with loop_stack depth %+d" % s.ls, "", line)
            if not (lmin(s.minh, Lin(0)) == Lin(0)):
                self.v("operand-underflow", "code of a %s scope consumes %s operand(s) it did not push (below the frame's base)" % (s.kind, -s.minh), "", line)
            h, last, prev, landed, kind, ls, lse, lst, pend, events, minh, od = s.stack[-1]
            s.minh = minh
            s.od = od
            s.stack = s.stack[:-1]
            s.h, s.last, s.prev, s.landed, s.kind, s.ls, s.pend, s.events = h, last, prev, landed, kind, ls, pend, events
            s.facts.pop("ls_empty", None)
            s.facts.pop("ls_top", None)
            if lse is not None:
                s.facts["ls_empty"] = lse
            if lst is not None:
                s.facts["ls_top"] = lst
            return [("n", s, UNK)]
        if name == "add_constant":
            a0 = args[0] if args else None
            return [("n", st, ("const", a0[1] if a0 and a0[0] == "ctor" else (H.render(argnodes[0]) if argnodes else "?")))]
        if name in SUMMARY_FNS or (name in self.inline_stack):
            return self.summary(name, n, args, argnodes, st)
        # inline every other method of the compiler
        f = self.F.fn(C + name)
        if f is None or H.body_of(f) is None:
            raise Unsupported("compiler method %s has no body" % name)
        return self.inline(name, f, args, st)

    def inline(self, name, f, args, st, recv=None):
        s = st.copy()
        if recv is None:
            self.visited.add(name)
        params = f["hir"]["params"]
        pvals = list(args)
        if params and params[0].get("name") == "self":
            pvals = [recv if recv is not None else ("self",)] + pvals
        saved = {}
        for p, v in zip(params, pvals):
            if p.get("k") == "bind":
                s.env[p["id"]] = v
        self.inline_stack.append(name)
        try:
            res = self.ev(H.body_of(f), s)
        finally:
            self.inline_stack.pop()
        out = []
        for ctl, s2, v in res:
            if ctl in ("n", "ret"):
                out.append(("n", s2, v))
            else:
                raise Unsupported("control %s escapes %s" % (ctl, name))
        return out

    def do_emit(self, n, args, argnodes, st):
        line = n.get("line")
        opv = args[0]
        if not (opv and opv[0] == "variant"):
            raise Unsupported("emit with a computed opcode at line %s" % line)
        op = H.last(opv[1])
        ops = args[1][1] if args[1] and args[1][0] == "arr" else []
        e = self.eff.get(op)
        s = st.copy()
        if e is None:
            self.v("opcode-effect", "emit(%s): the VM's stack effect for this opcode is not determined" % op, "", line)
            e = Lin(0)
        # substitute operands
        sub = {}
        for i, o in enumerate(ops):
            if o and o[0] == "lin":
                sub["op%d" % i] = o[1]
        e2 = e.subst(sub)
        nd = self.need.get(op)
        if nd is not None and s.h is not None:
            s.minh = lmin(s.minh, s.h - nd.subst(sub))
        if any(t.startswith("op") and t[2:].isdigit() for t in e2.t):
            self.v("opcode-effect", "emit(%s): operand %s is not an affine function of AST list lengths" % (op, H.render(argnodes[1])), "", line)
        if op in ("ReturnValue", "Return") and s.kind != "fn":
            self.v("return-guard", "%s is emitted in a %s scope (no caller frame to return to)" % (op, s.kind), "", line)
        val = UNK
        ret_like = "frame:exit" in e2.t
        if ret_like:
            e2 = Lin(-1) if op == "ReturnValue" else Lin(0)
        if s.h is not None:
            if op == "ReturnValue" and False:
                pass
            s.h = s.h + e2
            if s.h.is_const() and s.h.c < 0 and not s.stack and False:
                pass
        s.prev, s.last, s.landed = s.last, cls_of(op), False
        s.emits = s.emits + ((op, tuple(repr(o[1]) if o and o[0] == "lin" else ("const:" + o[1] if o and o[0] == "const" else (o[0] if o else "?")) for o in ops)),)
        if op in JUMPS:
            o = ops[0] if ops else None
            if o and o[0] == "lin" and o[1] == Lin(PLACEHOLDER):
                pid = self.site_name(n, op)
                if pid in s.pend and not any(v and v[0] == "phvec" and pid in v[1] for v in s.env.values()):
                    self.v("jump-patched-once", "placeholder %s is emitted again while the previous one is still unpatched" % pid, "", line)
                s.pend = s.pend | {pid}
                s.ph[pid] = s.h
                val = ("ph", pid)
            elif o and o[0] == "label":
                s.events = s.events + (("backjump", o[2] if len(o) > 2 else None),)
                if s.h is not None and o[1] is not None and not (s.h == o[1]):
                    self.v("back-jump-height", "%s back to a position recorded at height %s is emitted at height %s" % (op, o[1], s.h), "", line)
            elif o and o[0] == "loopbegin":
                s.events = s.events + (("continue", None if s.h is None else s.h.key()),)
                if o[1] is not None and o[1][0] == "label" and s.h is not None and o[1][1] is not None and not (s.h == o[1][1]):
                    self.v("back-jump-height", "continue jumps to a loop start recorded at height %s from height %s" % (o[1][1], s.h), "", line)
            else:
                self.v("jump-operand", "%s with an operand that is neither the 0xFFFF placeholder nor a recorded position: %s" % (op, H.render(argnodes[1])), "", line)
            if op == "Jump":
                s.h = None
        if ret_like:
            s.h = None
        return [("n", s, val)]

    def do_patch(self, a, st, line):
        s = st.copy()
        if a and a[0] == "ph":
            pid = a[1]
            if pid not in s.pend:
                self.v("jump-patched-once", "patch_jump(%s): no such unpatched placeholder on this path (patched twice?)" % pid, "", line)
            s.pend = s.pend - {pid}
            lh = s.ph.get(pid)
            if s.h is None:
                s.h = lh
            elif lh is not None and not (s.h == lh):
                self.v("jump-landing-height", "the jump %s arrives with height %s where fall-through has %s" % (pid, lh, s.h), "", line)
            s.landed = True
            return [("n", s, UNIT)]
        if a and a[0] == "breakpos":
            ctx = a[1]
            base = ctx[1] if ctx and ctx[0] == "label" else None
            if base is not None:
                if s.h is None:
                    s.h = base
                elif not (s.h == base):
                    self.v("loop-exit-height", "breaks of this loop are patched at height %s, the loop started at %s" % (s.h, base), "", line)
            s.events = s.events + (("patch-breaks", None if base is None else base.key()),)
            s.landed = True
            return [("n", s, UNIT)]
        self.v("jump-operand", "patch_jump of a value that is not a jump placeholder", "", line)
        return [("n", s, UNIT)]

    # ---- summaries -------------------------------------------------------------------------------------------------------------
    def summary(self, name, n, args, argnodes, st):
        s = st.copy()
        a = args[0] if args else UNK
        key = a[1] if a and a[0] == "ast" else None
        line = n.get("line")
        off = None if s.h is None else s.h.key()
        if name in ("compile_expression", "compile_if_expression"):
            cls = "G"
            if name == "compile_expression" and key is not None:
                var, acc = self.known(s, key)
                if var == "Prop" and acc is None:
                    res = []
                    for s3, a3 in self.fork(s, "v:" + key + ".context.access", ["Get", "Set"]):
                        res.extend(self.summary(name, n, args, argnodes, s3))
                    return res
                cls = self.child_class(key, var, acc, s)
            eff = {"G": 1, "S": 0, "PG": 0, "PS": -1}[cls]
            if s.h is not None:
                s.minh = lmin(s.minh, s.h + Lin({"G": 0, "S": -1, "PG": -1, "PS": -2}[cls]))
                s.h = s.h + Lin(eff)
            s.last, s.prev, s.landed = "Other", "Unknown", True
            s.order = s.order + ((key or H.render(argnodes[0]), cls),)
            s.events = s.events + (("child", "expr", off, (st.od - Lin(0, {"od0": 1})).key()),)
            return [("n", s, ("res_ok", UNIT))]
        if name == "compile_block_statement":
            if key is None:
                raise Unsupported("compile_block_statement of a non-AST value at line %s" % line)
            out = []
            for s2, sh in self.fork(s, "shape:" + key, SHAPES):
                s2 = s2.copy()
                empty, is_expr, eff_last = sh
                if eff_last == "Pop":
                    s2.last, s2.prev, s2.landed = "Pop", ("Other" if is_expr else "Unknown"), (False if is_expr else True)
                elif eff_last == "Other":
                    s2.last, s2.prev, s2.landed = "Other", "Unknown", True
                s2.events = s2.events + (("child", "block", off, (st.od - Lin(0, {"od0": 1})).key()),)
                s2.order = s2.order + ((key, "block"),)
                out.append(("n", s2, ("res_ok", UNIT)))
            return out
        if name == "compile_statement":
            s.last, s.prev, s.landed = "Unknown", "Unknown", True
            s.events = s.events + (("child", "stmt", off, (st.od - Lin(0, {"od0": 1})).key()),)
            return [("n", s, ("res_ok", UNIT))]
        raise Unsupported("recursive call of %s" % name)

    def known(self, st, key):
        """(variant, access) the path has established for the AST node `key` (directly or through a payload binding)"""
        var = st.facts.get("v:" + key)
        acc = st.facts.get("v:" + key + ".context.access")
        for fk, fv in st.facts.items():
            if fk.startswith("payload:") and fv == (key, var):
                acc = acc or st.facts.get("v:" + fk[len("payload:"):] + ".context.access")
        return var, acc

    def payload_of(self, st, key, var):
        for fk, fv in st.facts.items():
            if fk.startswith("payload:") and fv == (key, var):
                return fk[len("payload:"):]
        return None

    def child_class(self, key, var, acc, st):
        """class of a child expression whose variant / access the path has established"""
        if var is None:
            return "G"
        if var == "Prop":
            return "PS" if acc == "Set" else "PG"
        if acc == "Set" and var in ("Ident", "Index"):
            return "S"
        if var == "Assign":
            # `prop = value` after a dot: value(+1) then SetProp(-1)
            p = self.payload_of(st, key, var)
            if p is not None:
                lv, la = self.known(st, p + ".left")
                if lv == "Prop":
                    return "PG"
        return "G"
