"""Tables extracted from the match arms of `impl ... for Object`."""
from . import hir as H

OBJ = "object::Object"


def variants(F):
    return [n for n, _ in (F.enum_variants(OBJ) or [])]


def top_match(f, scrut_render=None, body=None):
    """first non-`?` match of a body (optionally with the given scrutinee rendering)"""
    for m in H.walk(body if body is not None else H.body_of(f)):
        if m.get("k") == "match" and not H.is_try(m):
            if scrut_render is None or H.render(m["scrut"]) == scrut_render:
                return m
    return None


def pair_arms(m):
    """arms of `match (self, other)`: [((setA, setB) | '*', arm)] in source order"""
    out = []
    for a in m["arms"]:
        alts = a["pat"]["pats"] if a["pat"].get("k") == "or" else [a["pat"]]
        for p in alts:
            if p.get("k") == "tuple" and len(p["pats"]) == 2:
                sa = {H.last(v) for v in H.pat_variants(p["pats"][0])}
                sb = {H.last(v) for v in H.pat_variants(p["pats"][1])}
                out.append(((sa, sb), a))
            elif p.get("k") == "wild":
                out.append(("*", a))
            else:
                out.append(("?", a))
    return out


def single_arms(m):
    out = []
    for a in m["arms"]:
        vs = {H.last(v) for v in H.pat_variants(a["pat"])}
        out.append((vs, a))
    return out


def pair_lookup(arms, va, vb):
    """first arm matching the ordered variant pair"""
    for key, a in arms:
        if key == "*":
            return a
        if key == "?":
            continue
        sa, sb = key
        if (va in sa or "*" in sa) and (vb in sb or "*" in sb):
            return a
    return None


def single_lookup(arms, v):
    for vs, a in arms:
        if v in vs or "*" in vs:
            return a
    return None


def body_kind(a):
    """classify an arm body: ('const', v) | ('call', method, recv_ty, render)"""
    b = H.strip(a["body"])
    if b.get("k") == "block" and len(b.get("stmts", [])) == 1 and b.get("expr") is None and b["stmts"][0]["k"] in ("semi", "expr"):
        b = H.strip(b["stmts"][0]["e"])
    if b.get("k") == "lit":
        return ("const", b["v"])
    c = H.ctor_of(b)
    if c and not b.get("args"):
        return ("const", H.last(c))
    if b.get("k") == "mcall":
        return ("call", b["m"], (b.get("recv_ty") or "").lstrip("&"), H.render(b), b.get("callee"))
    return ("expr", H.render(b))
