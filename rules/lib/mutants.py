"""Checker self-test (thorough tier): re-run a property's rules on scratch copies
of the working tree with one catalogued change applied.

Catalogue = /verif/seeded/<name>/ (changes written by independent sub-agents,
confirmed to break the property while compiling and passing the tests) and
/verif/mutants/<name>/ (hand-written ones).  Each directory holds patch.diff and
meta.json {"property": "Cxx", "expect": "caught" | "missed", "by": [rule, ...]}.

A self-test result never decides the property: a change that no longer applies
(the repository moved on) is skipped with a note, an expected catch that is
missed is reported as a note and in the evidence (`selftest`), not as a
violation — the property is about /repo, not about the checker.
"""
import importlib
import json
import os
import shutil
import subprocess
import tempfile

from . import core
from . import facts as factsmod

VERIF = factsmod.VERIF


def catalogue(pid):
    out = []
    for base in ("seeded", "mutants"):
        d = os.path.join(VERIF, base)
        if not os.path.isdir(d):
            continue
        for name in sorted(os.listdir(d)):
            mp = os.path.join(d, name, "meta.json")
            pp = os.path.join(d, name, "patch.diff")
            if not (os.path.exists(mp) and os.path.exists(pp)):
                continue
            try:
                meta = json.load(open(mp))
            except ValueError:
                continue
            props = meta.get("checks") or [meta.get("property")]
            if pid in props:
                out.append((base + "/" + name, pp, meta))
    return out


def scratch_copy(repo):
    d = tempfile.mkdtemp(prefix="p2mut-", dir=os.environ.get("TMPDIR", "/tmp"))
    for item in ("src", "docs", "Cargo.toml", "Cargo.lock"):
        s = os.path.join(repo, item)
        if os.path.isdir(s):
            shutil.copytree(s, os.path.join(d, item))
        elif os.path.exists(s):
            shutil.copy2(s, os.path.join(d, item))
    return d


def run_on(pid, tree):
    """rule failures (rule, key) of property pid on `tree`, excluding listed known findings"""
    old = os.environ.get("P2SH_REPO")
    os.environ["P2SH_REPO"] = tree
    try:
        F = factsmod.load("default", tree)
        R = core.Report(pid)
        mod = importlib.import_module("rules.%s" % pid.lower())
        mod.run(F, R, "quick")
    finally:
        if old is None:
            os.environ.pop("P2SH_REPO", None)
        else:
            os.environ["P2SH_REPO"] = old
        # per-tree caches of the engines (keyed by the fact object) must not outlive the tree
        try:
            from . import e5run as _e5run, panics as _panics
            _e5run._cache.clear()
            _panics._OK_FACTS.clear()
        except Exception:
            pass
    known, _ = core.load_known()
    return [(o.rule, o.key, o.detail) for o in R.obls if not o.ok and (pid, o.rule, o.key) not in known]


def selftest(pid, R, only=None):
    cat = catalogue(pid)
    results = []
    repo = factsmod.repo_root()
    for name, patch, meta in cat:
        if only and only not in name:
            continue
        tree = scratch_copy(repo)
        try:
            p = subprocess.run(["git", "apply", "--unsafe-paths", "--directory=" + tree, patch], cwd="/", stdout=subprocess.PIPE, stderr=subprocess.STDOUT, text=True)
            if p.returncode != 0:
                p = subprocess.run(["patch", "-p1", "-s", "-f", "-i", patch], cwd=tree, stdout=subprocess.PIPE, stderr=subprocess.STDOUT, text=True)
            if p.returncode != 0:
                results.append({"change": name, "result": "skipped", "why": "patch no longer applies to the working tree"})
                continue
            try:
                fails = run_on(pid, tree)
            except Exception as e:  # the changed tree does not build, or the checker crashed on it
                results.append({"change": name, "result": "error", "why": str(e)[:200]})
                continue
            caught = bool(fails)
            results.append({"change": name, "expect": meta.get("expect", "caught"), "result": "caught" if caught else "missed",
                            "reports": ["%s|%s" % (r, k) for r, k, _ in fails[:6]]})
        finally:
            shutil.rmtree(tree, ignore_errors=True)
    n_c = sum(1 for r in results if r["result"] == "caught")
    R.count("self-test: catalogued changes re-analysed", len(results))
    R.count("self-test: changes reported", n_c)
    for r in results:
        if r["result"] == "missed" and r.get("expect", "caught") == "caught":
            R.note("self-test: catalogued change %s is NOT reported by this check any more" % r["change"])
        elif r["result"] in ("skipped", "error"):
            R.note("self-test: %s %s (%s)" % (r["change"], r["result"], r.get("why", "")))
        elif r["result"] == "caught" and r.get("expect") == "missed":
            R.note("self-test: %s is now reported (was recorded as missed)" % r["change"])
    R.analysed["selftest"] = results
    # the other direction: the catalogued behaviour-preserving refactorings of this property's anchored code (benign/<pid>-k)
    # must raise no alarm.  Also a note about the checker, never a verdict about /repo.
    bdir = os.path.join(VERIF, "benign")
    quiet = []
    if os.path.isdir(bdir) and not only:
        for name in sorted(os.listdir(bdir)):
            pp = os.path.join(bdir, name, "patch.diff")
            if not name.startswith(pid + "-") or not os.path.exists(pp):
                continue
            tree = scratch_copy(repo)
            try:
                p = subprocess.run(["git", "apply", "--unsafe-paths", "--directory=" + tree, pp], cwd="/", stdout=subprocess.PIPE, stderr=subprocess.STDOUT, text=True)
                if p.returncode != 0:
                    quiet.append({"change": "benign/" + name, "result": "skipped"})
                    continue
                try:
                    fails = run_on(pid, tree)
                except Exception as e:
                    quiet.append({"change": "benign/" + name, "result": "error", "why": str(e)[:200]})
                    continue
                quiet.append({"change": "benign/" + name, "result": "alarm" if fails else "silent", "reports": ["%s|%s" % (r, k) for r, k, _ in fails[:4]]})
            finally:
                shutil.rmtree(tree, ignore_errors=True)
        R.count("self-test: catalogued refactorings re-analysed", len(quiet))
        R.count("self-test: refactorings that stay silent", sum(1 for q in quiet if q["result"] == "silent"))
        for q in quiet:
            if q["result"] == "alarm":
                R.note("self-test: refactoring %s raises an alarm in this check (%s)" % (q["change"], "; ".join(q["reports"][:2])[:160]))
        R.analysed["selftest_refactorings"] = quiet
    return results
