"""Front end of the emission analyses: recognise, in the HIR of the compiler's
functions, the calls that emit bytecode or drive emission."""
from . import hir as H

COMPILER = "compiler::Compiler::"


def const_int(n):
    n = H.strip(n)
    while n.get("k") == "cast":
        n = H.strip(n["e"])
    if n.get("k") == "lit" and n["lk"] == "int":
        return n["v"]
    if n.get("k") == "path" and n["res"]["r"] == "const":
        return n["res"].get("val")
    return None


def emit_info(c):
    """(opcode name | None, [operand renderings]) of a Compiler::emit call node"""
    op = H.ctor_of(H.strip(c["args"][0]))
    arr = H.strip(c["args"][1])
    ops = []
    if arr.get("k") == "array":
        for e in arr["es"]:
            v = const_int(e)
            ops.append(str(v) if v is not None else H.render(H.strip(e)))
    else:
        ops = ["?" + H.render(arr)]
    return (H.last(op) if op else None), ops


def is_emit(c):
    return c.get("k") in ("call", "mcall") and c.get("callee") == COMPILER + "emit"


def all_emits(body):
    """opcode names of every emit call in evaluation (pre-order ≈ source) order"""
    out = []
    for c in eval_order(body):
        if is_emit(c):
            out.append(emit_info(c)[0] or "?")
    return out


def eval_order(n):
    """Nodes of an expression tree in Rust evaluation order (operands before the
    operation, statements in sequence).  Closures are not entered."""
    if isinstance(n, list):
        for x in n:
            yield from eval_order(x)
        return
    if not isinstance(n, dict):
        return
    k = n.get("k")
    if k is None:
        for v in n.values():
            if isinstance(v, (dict, list)):
                yield from eval_order(v)
        return
    if k == "closure":
        return
    if k == "call":
        if "ctor" not in n and n["f"].get("k") != "path":
            yield from eval_order(n["f"])
        yield from eval_order(n["args"])
        yield n
    elif k == "mcall":
        yield from eval_order(n["recv"])
        yield from eval_order(n["args"])
        yield n
    elif k == "block":
        for s in n.get("stmts", []):
            if s["k"] == "let":
                if "init" in s:
                    yield from eval_order(s["init"])
                yield s
                if "els" in s:
                    yield from eval_order(s["els"])
            else:
                yield from eval_order(s["e"])
        if n.get("expr") is not None:
            yield from eval_order(n["expr"])
    elif k == "assign":
        yield from eval_order(n["r"])
        yield from eval_order(n["l"])
        yield n
    elif k == "if":
        yield from eval_order(n["c"])
        yield n
        yield from eval_order(n["t"])
        if "e" in n:
            yield from eval_order(n["e"])
    elif k == "match":
        yield from eval_order(n["scrut"])
        yield n
        for a in n["arms"]:
            if "guard" in a:
                yield from eval_order(a["guard"])
            yield from eval_order(a["body"])
    elif k == "let":
        yield from eval_order(n["init"])
        yield n
    else:
        for key in ("e", "l", "r", "i", "es", "fields", "base", "body", "c", "t"):
            if key in n and isinstance(n[key], (dict, list)):
                if key == "fields":
                    for f in n[key]:
                        yield from eval_order(f["e"])
                else:
                    yield from eval_order(n[key])
        yield n


def linear_events(body):
    """For a straight-line generator function: the sequence of emission events
    as strings, and whether the function really is straight-line (no branching
    other than `?`)."""
    ev = []
    straight = True
    names = {}
    pending_bind = {}
    nodes = list(eval_order(body))
    # map emit call node id -> local name it is bound to
    for s in nodes:
        if s.get("k") == "let" and s.get("pat", {}).get("k") == "bind" and "init" in s:
            init = H.untry(H.strip(s["init"]))
            if is_emit(init):
                pending_bind[id(init)] = s["pat"]["id"]
    for x in nodes:
        k = x.get("k")
        if k in ("if", "loop") or (k == "match" and not H.is_try(x)):
            straight = False
        if k in ("call", "mcall") and x.get("callee", "") and x["callee"].startswith(COMPILER):
            nm = H.last(x["callee"])
            if nm == "emit":
                op, ops = emit_info(x)
                s = "emit(%s,[%s])" % (op, ",".join(ops))
                if id(x) in pending_bind:
                    names[pending_bind[id(x)]] = "p%d" % len(names)
                    s = "%s=%s" % (names[pending_bind[id(x)]], s)
                ev.append(s)
            elif nm == "patch_jump":
                a = H.strip(x["args"][0])
                ev.append("patch(%s)" % names.get(H.local_id(a), H.render(a)))
            elif nm.startswith("compile_"):
                ev.append("%s(%s)" % (nm, ",".join(H.render(H.strip(a)).lstrip("*") for a in x["args"])))
            elif nm in ("enter_scope", "leave_scope", "remove_last_pop", "replace_last_pop_with_return", "add_constant"):
                ev.append(nm)
    return ev, straight


def num_locals_rule(F, R, fn_name, what):
    """The frame size of a compiled function / filter is the definition count of its *own* symbol table: it is read
    between enter_scope and leave_scope (after leave_scope `self.symtab` is the enclosing table again) and it is what
    CompiledFunction::new receives."""
    from . import hir as H
    g = F.fn("compiler::Compiler::" + fn_name)
    if not R.anchor("compiler::Compiler::" + fn_name, g):
        return
    b = H.body_of(g)
    seq = []
    for st in b.get("stmts", []):
        e = st.get("init") if st["k"] == "let" else st.get("e")
        t = H.render(e) if e is not None else ""
        if "self.enter_scope()" in t:
            seq.append("enter")
        if st["k"] == "let" and st.get("pat", {}).get("name") == "num_locals":
            seq.append("num_locals" if t == "self.symtab.get_num_definitions()" else "num_locals:" + t[:40])
        if "self.leave_scope()" in t:
            seq.append("leave")
    news = [c for c in H.walk(b) if c.get("k") == "call" and (c.get("callee") or "").endswith("CompiledFunction::new")]
    arg_ok = len(news) == 1 and H.render(news[0]["args"][1]) == "num_locals"
    R.ob("frame-size-provenance", what, seq == ["enter", "num_locals", "leave"] and arg_ok,
         "statement order %s; CompiledFunction::new(_, %s, ..)" % (seq, H.render(news[0]["args"][1]) if news else "?"), F.loc(g))
