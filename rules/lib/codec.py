"""E4 — codec bit-provenance.

Abstract value of an integer expression = list of per-bit origins, LSB first:
  0 | 1 | ("in", k, j)   bit j of input byte k (relative to the header start `off`)
        | ("fld", name, j) bit j of header field `name`
        | "?"            unknown
The decoders (`from_bytes`) and encoders (`From<&XHeader> for Vec<u8>`) of p2sh
are straight-line bit selections, so the domain is exact for them.
"""
import re

from . import mir as M
from . import panics as P

TOP = "?"


def width_of(ty):
    return {"u8": 8, "i8": 8, "u16": 16, "i16": 16, "u32": 32, "i32": 32, "u64": 64, "i64": 64, "usize": 64, "isize": 64,
            "bool": 1}.get((ty or "").strip(), None)


def const_bits(v, w):
    return [(v >> i) & 1 for i in range(w)]


def is_zero(b):
    return b == 0


class BitEval:
    """Evaluates symbolic MIR terms to bit vectors."""

    def __init__(self, F, B, mode, bindings=None, audit=None):
        self.F = F
        self.B = B
        self.mode = mode              # "decode" | "encode"
        self.bind = bindings or {}    # arg name -> ("slice", lo) | ("hdr",) | ("off",)
        self.cx = P.Ctx(B, F)
        self.notes = []

    # ---- helpers ------------------------------------------------------------
    def ty(self, s):
        t = self.cx.ty_of(s)
        return t

    def lin_off(self, s):
        """value of an index expression relative to `off`: returns int k if s == off + k (or k for slices)"""
        l = self.cx.lin(s)
        atoms = dict(l.c)
        k = l.k
        for a, v in list(atoms.items()):
            if a in ("off",) and v == 1:
                atoms.pop(a)
        if atoms:
            return None
        return k

    def field_name(self, s):
        """hdr.a.b → 'a.b' when rooted at the header argument"""
        names = []
        x = s
        while True:
            while x[0] in ("deref", "ref"):
                x = x[1]
            if x[0] == "field":
                names.append(x[2])
                x = x[1]
                continue
            break
        if x[0] == "arg" and self.bind.get(x[1]) == ("hdr",):
            return ".".join(reversed(names))
        return None

    # ---- evaluation ---------------------------------------------------------------
    def bits(self, s, want=None, depth=0):
        if depth > 60:
            return [TOP] * (want or 8)
        t = s[0]
        if t in ("ref", "deref"):
            return self.bits(s[1], want, depth + 1)
        if t == "const":
            w = width_of(s[2]) or want or 64
            v = s[1]
            if isinstance(v, bool):
                v = int(v)
            if isinstance(v, int):
                return const_bits(v & ((1 << w) - 1), w)
            return [TOP] * w
        if t == "cast":
            w = width_of(s[1])
            inner = self.bits(s[2], None, depth + 1)
            if w is None:
                return inner
            src_ty = self.ty(s[2]) or ""
            if len(inner) >= w:
                return inner[:w]
            ext = 0
            if src_ty.strip().startswith("i"):
                ext = TOP if inner[-1] not in (0,) else 0
            return inner + [ext] * (w - len(inner))
        if t == "index":
            # byte of the input buffer / of a slice parameter
            base = P.strip_refs(s[1])
            k = self.index_of(base, s[2])
            if k is not None:
                return [("in", k, j) for j in range(8)]
            return [TOP] * 8
        if t == "field":
            # field of a WithOverflow pair
            if s[2] == "0" and s[1][0] == "bin" and s[1][1].endswith("WithOverflow"):
                return self.bits(("bin", s[1][1][:-12], s[1][2], s[1][3]), want, depth + 1)
            fn = self.field_name(s)
            if fn is not None:
                w = width_of(self.ty(s)) or want
                if w is None:
                    # newtype / nested struct: resolved by the caller through further projections
                    w = want or 8
                out = [("fld", fn, j) for j in range(w)]
                known = getattr(self, "known", None)
                if known:
                    # on a read-only path a header field still holds what the decoder put there: bits the
                    # decoder fixed to a constant (e.g. the upper nibble of `ihl`) are that constant
                    kn = fn
                    while kn not in known and kn.endswith(".0"):
                        kn = kn[:-2]
                    d = known.get(kn)
                    if isinstance(d, list):
                        out = [(d[j] if j < len(d) and d[j] in (0, 1) else o) for j, o in enumerate(out)]
                return out
            # field of an aggregate value (newtype wrapper): ADT(x).0
            inner = s[1]
            while inner[0] in ("deref", "ref"):
                inner = inner[1]
            if inner[0] == "agg" and s[2].isdigit() and int(s[2]) < len(inner[2]):
                return self.bits(inner[2][int(s[2])], want, depth + 1)
            if inner[0] == "downcast":
                return [TOP] * (want or 8)
            return [TOP] * (want or width_of(self.ty(s)) or 8)
        if t == "agg":
            # single-field newtype: EtherType(x), Protocol(x), ClassOfService(x)
            if len(s[2]) == 1:
                return self.bits(s[2][0], want, depth + 1)
            return [TOP] * (want or 8)
        if t == "bin":
            op = s[1]
            a = self.bits(s[2], want, depth + 1)
            if op in ("Shl", "ShlUnchecked", "Shr", "ShrUnchecked"):
                n = self.cx.lin(s[3])
                if not n.is_const():
                    return [TOP] * len(a)
                n = n.k
                if op.startswith("Shl"):
                    return ([0] * n + a)[:len(a)]
                return a[n:] + [0] * min(n, len(a))
            b = self.bits(s[3], len(a), depth + 1)
            w = max(len(a), len(b))
            a = a + [0] * (w - len(a))
            b = b + [0] * (w - len(b))
            if op == "BitAnd":
                return [0 if (x == 0 or y == 0) else (x if y == 1 else (y if x == 1 else (x if x == y else TOP))) for x, y in zip(a, b)]
            if op == "BitOr":
                return [y if x == 0 else (x if y == 0 else (1 if 1 in (x, y) else (x if x == y else TOP))) for x, y in zip(a, b)]
            if op == "BitXor":
                return [y if x == 0 else (x if y == 0 else TOP) for x, y in zip(a, b)]
            if op in ("Eq", "Ne"):
                # (x == 1) for a value with a single live bit at position 0
                live = [i for i, x in enumerate(a) if x != 0]
                cb = self.cx.lin(s[3])
                if cb.is_const() and live == [0]:
                    if (op == "Eq" and cb.k == 1) or (op == "Ne" and cb.k == 0):
                        return [a[0]]
                return [TOP]
            return [TOP] * w
        if t == "call":
            c = s[1] or ""
            m = re.search(r"core::num::<impl (u|i)(\d+)>::from_(be|le)_bytes$", c)
            if m:
                arr = s[2][0]
                while arr[0] in ("ref", "deref"):
                    arr = arr[1]
                if arr[0] == "agg" and arr[1] == "array":
                    bs = [self.bits(e, 8, depth + 1)[:8] for e in arr[2]]
                    if m.group(3) == "be":
                        bs = bs[::-1]
                    out = []
                    for b in bs:
                        out += b
                    return out
                if arr[0] == "call":
                    # `i32::from_le_bytes(v.to_le_bytes())`: the bits of v, reordered when the two byte orders differ
                    m2 = re.search(r"core::num::<impl (u|i)(\d+)>::to_(be|le)_bytes$", arr[1] or "")
                    if m2 and m2.group(2) == m.group(2) and len(arr[2]) == 1:
                        vb = self.bits(arr[2][0], int(m.group(2)), depth + 1)
                        if len(vb) == int(m.group(2)):
                            if m2.group(3) == m.group(3):
                                return vb
                            bs = [vb[i * 8:(i + 1) * 8] for i in range(len(vb) // 8)][::-1]
                            return [x for b in bs for x in b]
                return [TOP] * int(m.group(2))
            if c.endswith("::clone") and len(s[2]) == 1:
                return self.bits(s[2][0], want, depth + 1)
            if re.search(r"as std::convert::(From|Into)<.*>>::(from|into)$", c) and len(s[2]) == 1:
                return self.bits(s[2][0], want, depth + 1)
            return [TOP] * (want or 8)
        if t == "var" or t == "tmp" or t == "arg":
            w = width_of(self.ty(s)) or want or 8
            return [TOP] * w
        return [TOP] * (want or 8)

    def index_of(self, base, idx):
        """byte index (relative to off) of base[idx] when base is the input buffer, a bound slice, or a sub-slice
        `&buf[off+a .. off+b]` / `&buf[off+a ..]` of the input buffer taken first (`let fixed = &rawdata[off..off+20]`)"""
        base = P.strip_refs(base)
        while base[0] in ("deref", "ref"):
            base = base[1]
        li = self.cx.lin(idx)
        if base[0] == "index" and base[2][0] == "agg" and (base[2][1].endswith("::Range") or base[2][1].endswith("::RangeFrom")) and li.is_const():
            lo = self.index_of(base[1], base[2][2][0])
            if lo is not None:
                if base[2][1].endswith("::Range"):
                    hi = self.index_of(base[1], base[2][2][1])
                    if hi is not None and not (lo + li.k < hi):
                        return None
                return lo + li.k
            return None
        if base[0] == "call" and base[1] and re.search(r"Index<.*>>::index$|slice::index::.*::index$", base[1]) and len(base[2]) == 2 and li.is_const():
            rng = P.strip_refs(base[2][1])
            if rng[0] == "agg" and (rng[1].endswith("::Range") or rng[1].endswith("::RangeFrom")):
                lo = self.index_of(base[2][0], rng[2][0])
                if lo is not None:
                    return lo + li.k
            return None
        if base[0] == "arg":
            b = self.bind.get(base[1])
            if b == ("buf",):
                atoms = {a: v for a, v in li.c.items()}
                if atoms == {"off": 1}:
                    return li.k
                if not atoms and self.bind.get("__off_zero"):
                    return li.k
                return None
            if b and b[0] == "slice" and li.is_const():
                return b[1] + li.k
        return None


# ---------------------------------------------------------------------------
# decoder / encoder drivers
# ---------------------------------------------------------------------------
def _buf_arg(B):
    """name of the input-buffer argument and of the offset argument (None for slice decoders)"""
    buf = off = None
    for i in range(1, B.arg_count + 1):
        ty = B.local_ty(i)
        nm = B.local_name(i)
        if "Vec<u8>" in ty or ty.strip() in ("&[u8]",):
            buf = nm
        elif ty.strip() == "usize":
            off = nm
    return buf, off


def find_aggs(B, suffix_rx):
    out = []
    for bi, b in enumerate(B.blocks):
        if b.get("cleanup"):
            continue
        for s in b["stmts"]:
            if s["k"] == "assign" and s["rv"]["k"] == "agg" and re.search(suffix_rx, s["rv"]["ak"]):
                out.append((bi, s))
    return out


def _with_private_helpers(F, f):
    """f with its calls of small private helpers of the same source file spliced in (`XHeader::parse(rawdata, off)`,
    `header.append_to(&mut bytes)`): the codec is read as one function however it is split"""
    fl = f.get("file")
    stop = ("from_bytes", "from_str")
    elig = lambda c: F.fns[c].get("file") == fl and H_last(c) not in stop and len(F.fns[c]["mir"]["blocks"]) <= 200 and not c.startswith("<")
    try:
        f2, wh = M.inline_calls(F, f, elig, depth=2)
    except Exception:
        return f
    return f2 if wh else f


def H_last(p):
    return p.rsplit("::", 1)[-1]


def decode_struct(F, fn_path, struct_rx, bind=None, prefix="", depth=0):
    """{field path: bits | ('raw', lo, hi_text)} for the struct literal built by a decoder"""
    f = F.fn(fn_path)
    if f is None:
        return None, "decoder %s not found" % fn_path
    f = _with_private_helpers(F, f)
    B = M.Body(f)
    buf, off = _buf_arg(B)
    if bind is None:
        bind = {buf: ("buf",)}
        if off:
            bind[off] = ("off",)
        else:
            bind["__off_zero"] = True
    ev = BitEval(F, B, "decode", bind)
    aggs = find_aggs(B, struct_rx)
    if len(aggs) != 1:
        return None, "%d struct literals matching %s in %s" % (len(aggs), struct_rx, fn_path)
    _, st = aggs[0]
    out = {}
    for name, op in zip(st["rv"]["fields"], st["rv"]["ops"]):
        s = B.sym_op(op, through_vars=True)
        fty = None
        sx = s
        while sx[0] in ("ref", "deref"):
            sx = sx[1]
        if sx[0] == "call" and sx[1] in F.fns and len(sx[2]) == 1 and depth < 3:
            # nested decoder over a sub-slice: X::from_bytes(&buf[off+a .. off+b])
            a = P.strip_refs(sx[2][0])
            if a[0] == "call" and a[1] and re.search(r"Index<.*>>::index$|slice::index::.*::index$", a[1]) and len(a[2]) == 2:
                # `&slice[a..b]` of a slice value is an Index::index call in MIR: same shape as the place projection
                a = ("index", a[2][0], P.strip_refs(a[2][1]))
            if a[0] == "index" and a[2][0] == "agg" and a[2][1].endswith("::Range"):
                lo = ev.lin_off(a[2][2][0]) if not bind.get("__off_zero") else ev.cx.lin(a[2][2][0]).k
                hi = ev.lin_off(a[2][2][1]) if not bind.get("__off_zero") else ev.cx.lin(a[2][2][1]).k
                inner_base = P.strip_refs(a[1])
                if inner_base[0] in ("index", "call") and ev.cx.lin(a[2][2][0]).is_const() and ev.cx.lin(a[2][2][1]).is_const():
                    # a sub-slice of a sub-slice taken earlier (`&fixed[12..16]` with fixed = &rawdata[off..off+20])
                    base0 = ev.index_of(a[1], ("const", 0, "usize"))
                    if base0 is not None:
                        lo, hi = base0 + ev.cx.lin(a[2][2][0]).k, base0 + ev.cx.lin(a[2][2][1]).k
                callee = F.fn(sx[1])
                Bc = M.Body(callee)
                pname = Bc.local_name(1)
                sub, err = decode_struct(F, sx[1], r"adt:[A-Za-z_:0-9]+$", {pname: ("slice", lo)}, prefix + name + ".", depth + 1)
                if sub is None:
                    out[prefix + name] = [TOP]
                else:
                    out.update(sub)
                    out[prefix + name + ".__len"] = (hi - lo) if (lo is not None and hi is not None) else None
                continue
        if sx[0] == "call" and sx[1] and sx[1].endswith("to_vec") and len(sx[2]) == 1:
            a = P.strip_refs(sx[2][0])
            if a[0] == "index" and a[2][0] == "agg" and a[2][1].endswith("::Range"):
                lo = ev.cx.lin(a[2][2][0])
                hi = ev.cx.lin(a[2][2][1])
                out[prefix + name] = ("raw", repr(lo), repr(hi))
                continue
        w = None
        out[prefix + name] = ev.bits(s)
    # consumed length: the `offset` field of the enclosing packet struct, when there is one
    return out, None


def header_length(F, fn_path, pkt_struct_rx):
    """linear form (string) of the payload offset the decoder stores, relative to nothing"""
    f = _with_private_helpers(F, F.fn(fn_path))
    B = M.Body(f)
    cx = P.Ctx(B, F)
    for _, st in find_aggs(B, pkt_struct_rx):
        for name, op in zip(st["rv"]["fields"], st["rv"]["ops"]):
            if name == "offset":
                return cx.lin(B.sym_op(op, through_vars=True))
    return None


def offset_form(F, fn_path, pkt_struct_rx):
    """Normal form of the payload offset a decoder stores in its packet struct (`offset: off + ...`):
         ("const", K)                         off + K
         ("scaled", K, unit, bits)            off + max(unit * V, K), V = the number whose bits (LSB first) are `bits`
         ("other", text)                      anything else (clamps against other fields, unmasked shifts, ...)
       bits are origins ("in", byte, bit) of the input relative to `off`."""
    f = F.fn(fn_path)
    if f is None or not f.get("mir"):
        return None
    f = _with_private_helpers(F, f)
    B = M.Body(f)
    cx = P.Ctx(B, F)
    buf, off = _buf_arg(B)
    bind = {buf: ("buf",)}
    if off:
        bind[off] = ("off",)
    else:
        bind["__off_zero"] = True
    ev = BitEval(F, B, "decode", bind)

    def unwrap(t):
        while True:
            if t[0] == "field" and t[2] == "0" and t[1][0] == "bin" and t[1][1].endswith("WithOverflow"):
                t = ("bin", t[1][1][:-12], t[1][2], t[1][3])
            elif t[0] in ("ref", "deref"):
                t = t[1]
            elif t[0] == "cast" and t[1] == "usize":
                inner = unwrap(t[2])
                if inner[0] == "const":
                    return inner
                return t
            else:
                return t

    def is_off(t):
        t = unwrap(t)
        return t[0] == "arg" and t[1] == "off"

    def const_of(t):
        t = unwrap(t)
        if t[0] == "const" and isinstance(t[1], int) and not isinstance(t[1], bool):
            return t[1]
        return None

    def scaled(t):
        """(unit, bits) if t == unit * V for a constant unit"""
        t = unwrap(t)
        if t[0] == "bin" and t[1] in ("Mul", "MulUnchecked"):
            for a, b in ((t[2], t[3]), (t[3], t[2])):
                k = const_of(b)
                if k is not None:
                    return k, ev.bits(unwrap(a))
        if t[0] == "bin" and t[1] in ("Shl", "ShlUnchecked"):
            k = const_of(t[3])
            if k is not None:
                return 1 << k, ev.bits(unwrap(t[2]))
        # a plain selection of input bits (e.g. `byte >> 2`): unit 1
        return 1, ev.bits(t)

    for _, st in find_aggs(B, pkt_struct_rx):
        for name, op in zip(st["rv"]["fields"], st["rv"]["ops"]):
            if name != "offset":
                continue
            t = unwrap(B.sym_op(op, through_vars=True))
            if not (t[0] == "bin" and t[1] in ("Add", "AddUnchecked")):
                return ("other", M.show(t)[:120])
            x = t[3] if is_off(t[2]) else (t[2] if is_off(t[3]) else None)
            if x is None:
                return ("other", M.show(t)[:120])
            k = const_of(x)
            if k is not None:
                return ("const", k)
            x = unwrap(x)
            if x[0] == "call" and (x[1] or "").endswith("cmp::max") and len(x[2]) == 2:
                for a, b in ((x[2][0], x[2][1]), (x[2][1], x[2][0])):
                    kb = const_of(b)
                    if kb is not None:
                        unit, bits = scaled(a)
                        while bits and bits[-1] == 0:
                            bits = bits[:-1]
                        return ("scaled", kb, unit, bits)
            return ("other", M.show(x)[:120])
    return None


def min_length_guard(F, fn_path):
    """the constant c of the prologue `if buf.len() < off + c { return Err }` (first dominating guard)"""
    f = _with_private_helpers(F, F.fn(fn_path))
    B = M.Body(f)
    cx = P.Ctx(B, F)
    best = None
    for bi, b in enumerate(B.blocks):
        t = b["term"]
        if t["k"] == "switch" and t.get("dty") == "bool":
            s = B.sym_op(t["d"], through_vars=True)
            if s[0] == "bin" and s[1] == "Lt":
                la, lb = cx.lin(s[2]), cx.lin(s[3])
                if any(a.startswith("len(") for a in la.c):
                    rest = {a: v for a, v in lb.c.items()}
                    best = lb if best is None else best
                    return lb
    return best


def encode_bytes(F, fn_path, hdr_prefix="", depth=0, known=None):
    """list of output bytes (each a list of 8 origins, LSB first) or ('rawfld', name) entries"""
    f = F.fn(fn_path)
    if f is None:
        return None, "encoder %s not found" % fn_path
    f = _with_private_helpers(F, f)
    B = M.Body(f)
    hdr = B.local_name(1)
    ev = BitEval(F, B, "encode", {hdr: ("hdr",)})
    if known:
        pre = hdr_prefix
        ev.known = {k[len(pre):]: v for k, v in known.items() if k.startswith(pre)}
    out = []
    # vec![a, b, c] style encoders: one array aggregate
    arrs = find_aggs(B, r"^array$")
    # the calls on the way to the return: the same on every path (a branch that only asserts, as the expansion of
    # `debug_assert_eq!(bytes.len(), N)` does, decides nothing about what is written)
    can_return = {x for x in range(len(B.blocks)) if any(B.blocks[y]["term"]["k"] == "return" for y in B.reachable(x))}
    # a `for x in [a, b, c, ..]` over an array written in place (`for group in [ip.0, .., ip.7] { bytes.extend(..) }`) is
    # the body once per element: such a loop is unrolled — header h ↦ (calls of the body in order, the elements, the exit)
    unroll = {}
    for h, body in M.natural_loops(B):
        th = B.blocks[h]["term"]
        if not (th["k"] == "call" and re.search(r"array::IntoIter<T, N> as std::iter::Iterator>::next$", th.get("callee") or "") and th.get("t") is not None):
            continue
        it = B.sym_op(th["args"][0], through_vars=True)
        while it[0] in ("ref", "deref"):
            it = it[1]
        if not (it[0] == "call" and (it[1] or "").endswith("into_iter") and it[2]):
            continue
        arr = it[2][0]
        while arr[0] in ("ref", "deref"):
            arr = arr[1]
        if not (arr[0] == "agg" and arr[1] == "array"):
            continue
        sw = th["t"]
        tsw = B.blocks[sw]["term"]
        if tsw["k"] != "switch":
            continue
        inside = [x for x in B.succ(sw) if x in body and not B.blocks[x].get("cleanup")]
        outside = [x for x in B.succ(sw) if x not in body and not B.blocks[x].get("cleanup") and x in can_return]
        if len(inside) != 1 or len(outside) != 1:
            continue
        # the body: a single path back to the header
        seq, cur, okb = [], inside[0], True
        while cur != h:
            if B.blocks[cur]["term"]["k"] == "call":
                seq.append(cur)
            nx = [x for x in B.succ(cur) if not B.blocks[x].get("cleanup")]
            if len(nx) != 1 or nx[0] not in body or len(seq) > 40:
                okb = False
                break
            cur = nx[0]
        if okb:
            unroll[h] = (seq, list(arr[2]), outside[0], ("call", th.get("callee"), None))
    paths, stack = [], [(0, (), frozenset())]
    while stack:
        b, cs, seen = stack.pop()
        if b in seen or len(paths) + len(stack) > 256:
            return None, "encoder %s is not loop-free (block %d)" % (fn_path, b)
        if b in unroll:
            seq, elems, exit_, _ = unroll[b]
            cs = cs + tuple((bi, b, k) for k in range(len(elems)) for bi in seq)
            stack.append((exit_, cs, seen | {b}))
            continue
        t = B.blocks[b]["term"]
        if t["k"] == "call":
            cs = cs + (b,)
        nxt = [x for x in B.succ(b) if not B.blocks[x].get("cleanup") and x in can_return]
        if t["k"] == "return" or not nxt:
            paths.append(cs)
            continue
        for x in nxt:
            stack.append((x, cs, seen | {b}))
    blk_of = lambda e: e[0] if isinstance(e, tuple) else e
    is_write = lambda e: (B.blocks[blk_of(e)]["term"].get("callee") or "").endswith(("Vec::<T, A>::push", "Vec::<T, A>::extend_from_slice"))
    wseqs = {tuple(e for e in cs if is_write(e)) for cs in paths}
    if len(wseqs) != 1:
        return None, "encoder %s is not straight-line (%d different sequences of writes over its paths)" % (fn_path, len(wseqs))
    longest = max(paths, key=len) if paths else ()
    calls = [B.blocks[blk_of(e)]["term"] for e in longest]
    tags = [(e[1], e[2]) if isinstance(e, tuple) else None for e in longest]

    def loop_value(sym, tag):
        """the term as it reads in round k of an unrolled loop: the item the iterator hands out is the k-th element"""
        if tag is None or not isinstance(sym, tuple):
            return sym
        h_, k_ = tag
        elems = unroll[h_][1]
        def go(x):
            if not isinstance(x, tuple):
                return x
            if x and x[0] == "field" and len(x) == 3 and str(x[2]) == "0" and isinstance(x[1], tuple) and x[1][0] == "downcast" and x[1][2] == "Some" \
                    and isinstance(x[1][1], tuple) and x[1][1][0] == "call" and re.search(r"array::IntoIter<T, N> as std::iter::Iterator>::next$", x[1][1][1] or ""):
                return elems[k_]
            return tuple(go(y) for y in x)
        return go(sym)

    def rename(bits):
        return [(("fld", hdr_prefix + x[1], x[2]) if isinstance(x, tuple) and x[0] == "fld" else x) for x in bits]

    pushes = [(t, tg) for t, tg in zip(calls, tags) if (t.get("callee") or "").endswith(("Vec::<T, A>::push", "Vec::<T, A>::extend_from_slice"))]
    if not pushes and len(arrs) == 1:
        _, st = arrs[0]
        for op in st["rv"]["ops"]:
            out.append(rename(ev.bits(B.sym_op(op, through_vars=True), 8)[:8]))
        return out, None
    for t, tg in pushes:
        c = t["callee"]
        arg = loop_value(B.sym_op(t["args"][1], through_vars=True), tg)
        if c.endswith("::push"):
            out.append(rename(ev.bits(arg, 8)[:8]))
            continue
        a = P.strip_refs(arg)
        if a[0] == "call" and a[1]:
            m = re.search(r"core::num::<impl (u|i)(\d+)>::to_(be|le)_bytes$", a[1])
            if m:
                bits = ev.bits(a[2][0], int(m.group(2)))
                n = int(m.group(2)) // 8
                bs = [bits[i * 8:(i + 1) * 8] for i in range(n)]
                if m.group(3) == "be":
                    bs = bs[::-1]
                out += [rename(x) for x in bs]
                continue
            if re.search(r"(as std::convert::Into<.*>>::into|as std::convert::From<.*>>::from)$", a[1]) and len(a[2]) == 1:
                # nested encoder: (&hdr.field).into()
                fld = ev.field_name(a[2][0])
                ci = None
                for tt in calls:
                    if tt.get("callee") == a[1]:
                        ci = tt
                # resolve the concrete impl from the call terminator's instance
                target = None
                for tt in calls:
                    if tt.get("callee") and tt["callee"] in F.fns and re.search(r"From<&.*> for std::vec::Vec<u8>>::from$", tt["callee"]):
                        s0 = B.sym_op(tt["args"][0], through_vars=True)
                        if ev.field_name(s0) == fld:
                            target = tt["callee"]
                if target is None:
                    # `Into::into` resolves to the blanket impl; find the From impl by the field's type
                    fty = ev.cx.ty_of(P.strip_refs(a[2][0])) or ""
                    for q in F.fns:
                        if re.search(r"From<&%s> for std::vec::Vec<u8>>::from$" % re.escape(fty.strip().lstrip("&")), q):
                            target = q
                if target is None or fld is None or depth > 2:
                    out.append([TOP] * 8)
                    continue
                sub, err = encode_bytes(F, target, hdr_prefix + fld + ".", depth + 1, known)
                if sub is None:
                    return None, err
                out += sub
                continue
        fld = ev.field_name(a)
        if fld is not None:
            out.append(("rawfld", hdr_prefix + fld))
            continue
        out.append([TOP] * 8)
    return out, None
