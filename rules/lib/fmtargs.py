"""Decoder for `format_args!` sites in the typed HIR facts.

rustc lowers `format!("{:02X}:{}", a, b)` / `write!(..)` to

    { let args = (&a, &b);
      let args = [Argument::new_upper_hex(args.0), Argument::new_display(args.1)];
      Arguments::new(b"<template bytes>", &args) }

or, for a template without placeholders, `Arguments::from_str("text")`.  The
template byte encoding is documented in library/core/src/fmt/mod.rs (literal
pieces prefixed by their length, placeholders = a byte with the two highest bits
set followed by optional flags/width/precision/arg_index fields, a zero byte at
the end).  `sites(node)` returns every site below `node` as a list of parts

    ("lit", text) | ("arg", expr, trait, {"flags":..,"width":..,"precision":..})

in display order, so rules can compare *what is written* (pieces, order,
radix/padding of each argument) without matching source text.
"""
from . import hir as H

TRAITS = {
    "new_display": "Display", "new_debug": "Debug", "new_binary": "Binary", "new_octal": "Octal",
    "new_lower_hex": "LowerHex", "new_upper_hex": "UpperHex", "new_lower_exp": "LowerExp",
    "new_upper_exp": "UpperExp", "new_pointer": "Pointer",
}


class BadTemplate(Exception):
    pass


def decode_template(hexs):
    """-> list of ("lit", str) | ("ph", {"flags","width","precision","arg_index", "width_indirect", ...})"""
    b = bytes.fromhex(hexs)
    out, i = [], 0
    while True:
        if i >= len(b):
            raise BadTemplate("template not terminated")
        n = b[i]
        i += 1
        if n == 0:
            if i != len(b):
                raise BadTemplate("bytes after the end marker")
            return out
        if n < 0x80:
            out.append(("lit", b[i:i + n].decode("utf-8")))
            i += n
        elif n == 0x80:
            ln = int.from_bytes(b[i:i + 2], "little")
            i += 2
            out.append(("lit", b[i:i + ln].decode("utf-8")))
            i += ln
        elif n >= 0xC0:
            ph = {}
            if n & 1:
                ph["flags"] = int.from_bytes(b[i:i + 4], "little")
                i += 4
            if n & 2:
                ph["width"] = int.from_bytes(b[i:i + 2], "little")
                i += 2
            if n & 4:
                ph["precision"] = int.from_bytes(b[i:i + 2], "little")
                i += 2
            if n & 8:
                ph["arg_index"] = int.from_bytes(b[i:i + 2], "little")
                i += 2
            if n & 16:
                ph["width_indirect"] = True
            if n & 32:
                ph["precision_indirect"] = True
            out.append(("ph", ph))
        else:
            raise BadTemplate("unknown template byte %#x" % n)


def flags_desc(flags):
    """FormattingOptions::flags: fill char in the low 21 bits, then sign/alt/zero-pad bits, alignment"""
    if flags is None:
        return {}
    d = {}
    fill = flags & 0x1FFFFF
    if fill != 0x20:
        d["fill"] = chr(fill)
    if flags & (1 << 21):
        d["sign_plus"] = True
    if flags & (1 << 22):
        d["sign_minus"] = True
    if flags & (1 << 23):
        d["alternate"] = True
    if flags & (1 << 24):
        d["zero_pad"] = True
    if flags & (1 << 25):
        d["debug_lower_hex"] = True
    if flags & (1 << 26):
        d["debug_upper_hex"] = True
    al = (flags >> 29) & 3
    if al != 3:
        d["align"] = ("left", "right", "center")[al]
    return d


def _unref(e):
    e = H.strip(e)
    while e.get("k") == "ref":
        e = H.strip(e["e"])
    return e


def _site_from_block(blk):
    """blk: the HIR block that ends in Arguments::new(template, &args)"""
    call = H.strip(blk.get("expr") or {})
    while call.get("k") == "block" and not call.get("stmts"):
        call = H.strip(call.get("expr") or {})
    if not (call.get("k") == "call" and (call.get("callee") or "").endswith("Arguments::<'a>::new")):
        return None
    if not any(s.get("k") == "let" for s in blk.get("stmts", [])):
        return None          # the inner wrapper block; the enclosing block (with the `let args`) is the site
    tmpl = H.strip(call["args"][0])
    if tmpl.get("k") != "lit" or "hex" not in tmpl:
        raise BadTemplate("template is not a byte-string literal")
    tup, arr = None, None
    for s in blk.get("stmts", []):
        if s.get("k") != "let":
            continue
        init = H.strip(s.get("init") or {})
        if init.get("k") == "tup":
            tup = init["es"]
        elif init.get("k") == "array":
            arr = init["es"]
    if arr is None:
        raise BadTemplate("argument array not found")
    args = []
    for el in arr:
        el = H.strip(el)
        cal = (el.get("callee") or "")
        tr = TRAITS.get(cal.rsplit("::", 1)[-1])
        if el.get("k") != "call" or tr is None:
            raise BadTemplate("unrecognised argument constructor %s" % cal)
        a = H.strip(el["args"][0])
        if a.get("k") == "field" and H.strip(a["e"]).get("k") == "path" and tup is not None and a["name"].isdigit():
            a = tup[int(a["name"])]
        args.append((_unref(a), tr))
    parts, nxt = [], 0
    for kind, v in decode_template(tmpl["hex"]):
        if kind == "lit":
            parts.append(("lit", v))
            continue
        idx = v.get("arg_index", nxt)
        if "arg_index" not in v:
            nxt += 1
        if idx >= len(args):
            raise BadTemplate("placeholder refers to argument %d of %d" % (idx, len(args)))
        opts = flags_desc(v.get("flags"))
        for k in ("width", "precision", "width_indirect", "precision_indirect"):
            if k in v:
                opts[k] = v[k]
        parts.append(("arg", args[idx][0], args[idx][1], opts))
    return call.get("line"), parts


def sites(node):
    """every format_args! site below node: list of (line, parts)"""
    out = []
    for n in H.walk(node):
        if n.get("k") == "call" and (n.get("callee") or "").endswith("Arguments::<'a>::from_str"):
            a = H.strip(n["args"][0])
            if a.get("k") == "lit":
                out.append((n.get("line"), [("lit", a["v"])] if a["v"] else []))
        elif n.get("k") == "block":
            try:
                p = _site_from_block(n)
            except BadTemplate as e:
                out.append((n.get("line"), [("bad", str(e))]))
                continue
            if p is not None:
                out.append(p)
    return out


def show(parts):
    s = []
    for p in parts:
        if p[0] == "lit":
            s.append(repr(p[1]))
        elif p[0] == "arg":
            o = ",".join("%s=%s" % kv for kv in sorted(p[3].items()))
            s.append("{%s:%s%s}" % (H.render(p[1]), p[2], (" " + o) if o else ""))
        else:
            s.append("<%s>" % p[1])
    return " ".join(s)
