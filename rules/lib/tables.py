"""Table extractors (E2): tables are read from the type-checked program
(initialisers, match arms, enum layouts) or from the repository's docs."""
import os
import re

from . import hir as H
from . import facts as factsmod


def lazy_init(F, static_path):
    """HIR body of a lazy_static initialiser."""
    return F.fn("<%s as std::ops::Deref>::deref::__static_ref_initialize" % static_path)


def enum_index_cast(n):
    """`Enum::Variant as usize` → variant path"""
    n = H.strip(n)
    if n.get("k") == "cast":
        return H.ctor_of(n["e"])
    return None


def opt_fn(n):
    """None | Some(path) → None | last segment of the function path"""
    n = H.strip(n)
    c = H.ctor_of(n)
    if c and H.last(c) == "None":
        return None
    if n.get("k") == "call" and H.last(n.get("ctor", "")) == "Some":
        p = H.res_path(H.strip(n["args"][0]))
        return H.last(p) if p else "?"
    return "?"


def parse_rules_table(F, R):
    f = lazy_init(F, "parser::rules::PARSE_RULES")
    if not R.anchor("PARSE_RULES initialiser", f):
        return None
    # ParseRule::new fixes associativity to Left
    nf = F.fn("parser::rules::ParseRule::new")
    default_assoc = None
    if nf:
        for x in H.walk(H.body_of(nf)):
            if x.get("k") == "struct":
                for fd in x["fields"]:
                    if fd["name"] == "associativity":
                        default_assoc = H.last(H.ctor_of(fd["e"]) or "?")
    R.ob("parse-rule-new", "ParseRule::new associativity", default_assoc == "Left",
         "ParseRule::new sets associativity=%s" % default_assoc, nontrivial=False)
    rules = {}
    dup = []
    for x in H.walk(H.body_of(f)):
        if x.get("k") != "assign":
            continue
        l = x["l"]
        if l.get("k") != "index" or not H.is_local(H.strip(l["e"]), "rules"):
            continue
        tok = enum_index_cast(l["i"])
        # the entry may be built by small helper constructors (`binary_operator_rule(prec)`), by ParseRule::new /
        # new_with_assoc, by a struct literal, or by a struct literal with a `..base`: evaluated to its four fields
        NEW = ("parser::rules::ParseRule::new", "parser::rules::ParseRule::new_with_assoc")

        def entry(r, d=0):
            r = H.strip(H.inline_helpers(F, r, skip=NEW)) if d == 0 else H.strip(r)
            while r.get("k") == "block" and not r.get("stmts") and r.get("expr") is not None:
                r = H.strip(r["expr"])
            cal = r.get("callee") or ""
            if r.get("k") == "call" and cal in NEW:
                a = r["args"]
                return {"prefix": opt_fn(a[0]), "infix": opt_fn(a[1]), "prec": H.last(H.ctor_of(H.strip(a[2])) or "?"),
                        "assoc": default_assoc if cal.endswith("::new") else H.last(H.ctor_of(H.strip(a[3])) or "?")}
            if r.get("k") == "struct" and H.last(r.get("res", {}).get("path") or r.get("path") or "") in ("ParseRule", "Self") and d < 3:
                ent = entry(r["base"], d + 1) if r.get("base") is not None else {"prefix": "?", "infix": "?", "prec": "?", "assoc": "?"}
                if ent is None:
                    return None
                for fd in r.get("fields", []):
                    v = fd["e"]
                    if fd["name"] in ("prefix", "infix"):
                        vv = H.strip(v)
                        # `helper().prefix`: a field of another entry
                        if vv.get("k") == "field" and vv["name"] in ("prefix", "infix"):
                            sub = entry(vv["e"], d + 1)
                            ent[fd["name"]] = sub[vv["name"]] if sub else "?"
                        else:
                            ent[fd["name"]] = opt_fn(v)
                    elif fd["name"] == "precedence":
                        ent["prec"] = H.last(H.ctor_of(H.strip(v)) or "?")
                    elif fd["name"] == "associativity":
                        ent["assoc"] = H.last(H.ctor_of(H.strip(v)) or "?")
                return ent
            return None
        ent = entry(x["r"]) if tok is not None else None
        if ent is None:
            R.ob("parse-rules-shape", "assignment at unknown shape: %s" % H.render(l["i"]), False,
                 "cannot interpret PARSE_RULES assignment %s" % H.render(x)[:120])
            continue
        ent["line"] = x.get("line")
        t = H.last(tok)
        if t in rules:
            dup.append(t)
        rules[t] = ent
    R.ob("parse-rules-unique", "one assignment per token", not dup, "duplicates: %s" % dup, nontrivial=False)
    return rules


def scanner_glyphs(F, R):
    """glyph string → TokenType, from Scanner::next_token's match on self.ch."""
    f = F.fn("scanner::Scanner::next_token")
    if not R.anchor("scanner::Scanner::next_token", f):
        return None
    out = {}
    for m in H.find(H.body_of(f), lambda x: x.get("k") == "match"):
        if H.render(m["scrut"]) != "self.ch":
            continue
        for a in m["arms"]:
            p = a["pat"]
            if p.get("k") != "plit" or p["lit"]["lk"] != "char":
                continue
            ch = p["lit"]["v"]
            b = H.strip(a["body"])
            if b.get("k") != "mcall":
                continue
            if b["m"] == "make_token_ch":
                out[ch] = H.last(H.ctor_of(H.strip(b["args"][0])) or "?")
            elif b["m"] == "make_token_twin":
                out[ch] = H.last(H.ctor_of(H.strip(b["args"][0])) or "?")
                arr = H.strip(b["args"][1])
                if arr.get("k") == "array":
                    for tup in arr["es"]:
                        if tup.get("k") == "tup" and tup["es"][0].get("k") == "lit":
                            out[ch + tup["es"][0]["v"]] = H.last(H.ctor_of(H.strip(tup["es"][1])) or "?")
    # range and dot tokens are produced by read_range / read_dot
    for name, lits in (("read_range", None), ("read_dot", None)):
        g = F.fn("scanner::Scanner::" + name)
        if g:
            for c in H.find(H.body_of(g), lambda x: x.get("k") == "mcall" and x["m"] == "make_token"):
                tt = H.last(H.ctor_of(H.strip(c["args"][0])) or "?")
                lit = H.strip(c["args"][1])
                if lit.get("k") == "lit":
                    out[lit["v"]] = tt
    return out


def doc_precedence_rows(F, R):
    path = os.path.join(F.repo, "docs/language/expression-precedence.md")
    if not R.anchor("docs/language/expression-precedence.md", os.path.exists(path)):
        return None
    rows = []
    with open(path, encoding="utf-8") as fh:
        for line in fh:
            line = line.rstrip("\n")
            if not line.startswith("|") or set(line) <= set("|- "):
                continue
            cells = [c.strip() for c in re.split(r"(?<!\\)\|", line)[1:-1]]
            if len(cells) != 2 or cells[0].lower().startswith("operators"):
                continue
            cell = cells[0].replace("\\|", "|")
            note = ""
            m = re.search(r"\(([A-Za-z ]+)\)", cell)
            if m:
                note = m.group(1)
                cell = cell[:m.start()] + cell[m.end():]
            ops = cell.split()
            rows.append((ops, note, cells[1]))
    return rows


def match_arms_table(m):
    """[(set of variant keys, arm)] of a match node"""
    return [(H.pat_variants(a["pat"]), a) for a in m["arms"]]


def builtin_table(F, R):
    """[(name, function path)] from the BUILTINFNS constant"""
    c = F.consts.get("builtins::functions::BUILTINFNS")
    if not R.anchor("const builtins::functions::BUILTINFNS", c is not None and "hir" in c):
        return None
    out = []
    for x in H.walk(c["hir"]["body"]):
        if x.get("k") == "call" and H.last(x.get("callee") or "") == "new" and "BuiltinFunction" in (x.get("callee") or ""):
            nm = H.strip(x["args"][0])
            fn = H.res_path(H.strip(x["args"][1]))
            out.append((nm.get("v"), fn))
    return out
