"""Extraction of the opcode arms of VM::run and of the DEFINITIONS table."""
from . import hir as H
from .tables import lazy_init


def vm_arms(F, R):
    f = F.fn("vm::interpreter::VM::run")
    if not R.anchor("vm::interpreter::VM::run", f):
        return None
    ms = [m for m in H.walk(H.body_of(f)) if m.get("k") == "match" and not H.is_try(m)
          and "Opcode" in m["scrut"].get("ty", "")]
    # the dispatch is the outermost of them (an arm shared by several opcodes may look at the opcode again)
    inner = {id(x) for m in ms for a in m["arms"] for x in H.walk(a["body"]) if x.get("k") == "match"}
    ms = [m for m in ms if id(m) not in inner]
    if not R.anchor("VM::run: match on the decoded opcode", len(ms) == 1):
        return None
    arms = {}
    lid = H.local_id(H.strip(ms[0]["scrut"]))
    for a in ms[0]["arms"]:
        vs = [v for v in H.pat_variants(a["pat"]) if v and v != "*"]
        for v in vs:
            body = a["body"]
            if len(vs) > 1 and lid is not None:
                # `A | B => { .. }`: the arm as it runs for this opcode
                body = H.split_tuple_lets(H.specialise(body, lid, H.last(v)))
            arms[H.last(v)] = {"body": body, "line": a.get("line"), "pat": a["pat"]}
    return arms


def definitions_table(F, R):
    f = lazy_init(F, "code::definitions::DEFINITIONS")
    if not R.anchor("DEFINITIONS initialiser", f):
        return None
    defs = {}
    for c in H.walk(H.body_of(f)):
        if c.get("k") == "mcall" and c["m"] == "insert" and len(c["args"]) == 2:
            op = H.ctor_of(H.strip(c["args"][0]))
            d = H.strip(c["args"][1])
            if op is None or d.get("k") != "call" or H.last(d.get("callee") or "") != "new":
                R.ob("definitions-shape", "insert of unknown shape: %s" % H.render(c)[:80], False, "cannot interpret")
                continue
            name = d["args"][0]
            arr = H.strip(d["args"][1])
            ws = [e["v"] for e in arr.get("es", [])] if arr.get("k") == "array" else None
            n = H.last(op)
            ent = defs.setdefault(n, {"widths": ws, "name": name.get("v"), "count": 0})
            ent["count"] += 1
            ent["widths"] = ws
    return defs


def _ip_plus(n):
    """`ip + k`, `(ip + a) + b`, `k + ip` or `ip` → k, else None"""
    def lin(x):
        x = H.strip(x)
        while x.get("k") == "cast":
            x = H.strip(x["e"])
        if H.is_local(x, "ip"):
            return (1, 0)
        if x.get("k") == "lit" and x.get("lk") == "int":
            return (0, x["v"])
        if x.get("k") == "bin" and x["op"] == "+":
            a, b = lin(x["l"]), lin(x["r"])
            if a is not None and b is not None:
                return (a[0] + b[0], a[1] + b[1])
        return None
    r = lin(n)
    if r is not None and r[0] == 1:
        return r[1]
    return None


def _code_slice(n):
    """instructions.code[ip+a .. ip+b] / [ip+a ..] → (a, b|None); instructions.code[ip+a] → (a,)"""
    n = H.strip(n)
    if n.get("k") != "index":
        return None
    base = H.strip(n["e"])
    if not (base.get("k") == "field" and base["name"] == "code"):
        return None
    i = H.strip(n["i"])
    if i.get("k") == "struct":
        nm = H.last(i["res"].get("path"))
        fl = {fd["name"]: fd["e"] for fd in i["fields"]}
        if nm == "Range":
            a, b = _ip_plus(fl["start"]), _ip_plus(fl["end"])
            if a is not None and b is not None:
                return (a, b)
        if nm == "RangeFrom":
            a = _ip_plus(fl["start"])
            if a is not None:
                return (a, None)
        return None
    a = _ip_plus(i)
    if a is not None:
        return (a,)
    return None


def decode_reads(body):
    """[(offset from opcode byte, width, byte order)] of the operand reads in an arm"""
    reads = []
    slices = {}   # local id -> (a, b)
    consumed = set()
    for x in H.walk(body):
        if x.get("k") == "let" and x.get("init") is not None and x["pat"].get("k") == "bind":
            sl = _code_slice(x["init"])
            if sl is not None and len(sl) == 2:
                slices[x["pat"]["id"]] = sl
                consumed.add(id(H.strip(x["init"])))
    for x in H.walk(body):
        if x.get("k") in ("call", "mcall") and x.get("callee"):
            cal = x["callee"]
            if cal.endswith("read_u16") and x.get("args"):
                sl = _code_slice(x["args"][-1])
                if sl is not None and len(sl) == 2:
                    consumed.add(id(H.strip(x["args"][-1])))
                    if sl[1] is None or sl[1] - sl[0] == 2:
                        reads.append((sl[0], 2, "be" if "BigEndian" in H.render(x["f"]) or "BigEndian" in str(x.get("decl", "")) + str(x["f"].get("ty", "")) else "?"))
                    else:
                        reads.append((sl[0], sl[1] - sl[0], "?"))
            elif cal.endswith("from_be_bytes") or cal.endswith("from_le_bytes"):
                arr = H.strip(x["args"][0])
                order = "be" if cal.endswith("from_be_bytes") else "le"
                if arr.get("k") == "array":
                    idxs = []
                    src = None
                    for e in arr["es"]:
                        e = H.strip(e)
                        if e.get("k") == "index" and H.local_id(H.strip(e["e"])) in slices:
                            src = slices[H.local_id(H.strip(e["e"]))]
                            i = H.strip(e["i"])
                            idxs.append(i["v"] if i.get("k") == "lit" else None)
                    if src is not None and idxs == list(range(len(idxs))):
                        reads.append((src[0], len(idxs), order if (src[1] is None or src[1] - src[0] == len(idxs)) else "?"))
                    else:
                        reads.append((-1, len(arr["es"]), "?"))
    for x in H.walk(body):
        if x.get("k") == "index" and id(x) not in consumed:
            sl = _code_slice(x)
            if sl is not None and len(sl) == 1:
                reads.append((sl[0], 1, "-"))
            elif sl is not None and id(x) not in consumed:
                reads.append((sl[0], -1, "unconsumed-slice"))
    return reads


def ip_increments(body):
    """([k for `<frame>.ip += k`], contains `continue`, arm ends with unconditional `continue`)"""
    incs = []
    has_continue = False
    for x in H.walk(body):
        if x.get("k") == "closure":
            continue
        if x.get("k") == "assignop" and x["op"] in ("+", "+="):
            l = x["l"]
            if l.get("k") == "field" and l["name"] == "ip":
                r = H.strip(x["r"])
                incs.append(r["v"] if r.get("k") == "lit" else None)
        if x.get("k") == "continue":
            has_continue = True
    tail_continue = False
    b = body
    if b.get("k") == "block":
        last = b.get("expr")
        if last is None and b.get("stmts"):
            s = b["stmts"][-1]
            last = s.get("e") if s["k"] in ("semi", "expr") else None
        if last is not None and last.get("k") == "continue":
            tail_continue = True
    elif b.get("k") == "continue":
        tail_continue = True
    if any(i is None for i in incs):
        incs = [i if i is not None else 10**6 for i in incs]
    return incs, has_continue, tail_continue


def operator_dispatchers(F, R):
    """The two VM helpers the arithmetic/relational and the bitwise opcode arms hand their operator closure to, found by
    role (not by name): → {"binary": path, "optype": name of the operator-class parameter, "bitwise": path}"""
    arms = vm_arms(F, R)
    out = {"binary": None, "optype": None, "bitwise": None}
    if not arms:
        return out
    for role, op in (("binary", "Add"), ("bitwise", "And")):
        a = arms.get(op)
        if a is None:
            continue
        for c in H.walk(H.unlet(a["body"])):
            if c.get("k") in ("call", "mcall") and c.get("callee") in F.fns and any(H.strip(x).get("k") == "closure" for x in c.get("args", [])):
                out[role] = c["callee"]
                break
    g = F.fn(out["binary"]) if out["binary"] else None
    if g is not None and g.get("mir"):
        locs = g["mir"]["locals"]
        for i in range(1, g["mir"]["arg_count"] + 1):
            if "BinaryOperation" in (locs[i].get("ty") or ""):
                out["optype"] = locs[i].get("name")
    return out
