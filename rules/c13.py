"""C13 — runtime errors carry the line of the failing operation.

The property is a provenance statement; static def-use provenance on MIR
decides it (up to the scanner's own line counting)."""
import re

from .lib import hir as H
from .lib import mir as M

EXPL = ("Provenance analysis (E3) on MIR with resolved callees: the line argument of every RTError::new reachable "
        "at run time must originate from Instructions.lines[current frame ip], a `line` parameter all of whose call "
        "sites conform (fixpoint over the call graph, closures resolved through their captures), or the filter "
        "function's own line; on the compiler side every emit/CompileError line derives from a `.token.line` "
        "projection of the node being compiled; and the code/lines vectors of Instructions are only ever edited "
        "congruently (sibling-field rule). Decides where the reported line comes from, not what the scanner counted.")

RTNEW = "vm::error::RTError::new"


def contains_field_chain(s, names):
    """term contains a projection chain ...field a .field b (innermost first in `names`)"""
    for t in M.subterms(s):
        if t[0] == "field" and t[2] == names[-1]:
            x, ok = t, True
            for nm in reversed(names):
                while x[0] in ("deref", "ref", "downcast"):
                    x = x[1]
                if x[0] == "field" and x[2] == nm:
                    x = x[1]
                else:
                    ok = False
                    break
            if ok:
                return True
    return False


class Prov:
    def __init__(self, F, R):
        self.F, self.R = F, R
        self.bodies = {}
        self.memo = {}
        self.callers = {}
        for p, f in F.fns.items():
            for bi, b in enumerate(f["mir"]["blocks"]):
                t = b["term"]
                if t["k"] == "call" and t.get("callee") in F.fns:
                    self.callers.setdefault(t["callee"], []).append((p, bi))

    def body(self, p):
        if p not in self.bodies:
            self.bodies[p] = M.Body(self.F.fns[p])
        return self.bodies[p]

    def closure_capture(self, cpath, idx):
        """symbolic value captured as upvar `idx` of closure cpath, in its parent"""
        parent = cpath.rsplit("::{closure", 1)[0]
        if parent not in self.F.fns:
            return None, None
        B = self.body(parent)
        for b in B.blocks:
            for s in b["stmts"]:
                if s["k"] == "assign" and s["rv"]["k"] == "agg" and s["rv"]["ak"] == "closure:" + cpath:
                    ops = s["rv"]["ops"]
                    if idx < len(ops):
                        return parent, B.sym_op(ops[idx], through_vars=True)
        return parent, None

    def classify(self, p, s, allowed, depth=0):
        """returns (ok, reason)"""
        s0 = s
        while s[0] in ("ref", "deref"):
            s = s[1]
        if depth > 12:
            return False, "provenance chain too deep"
        if s[0] == "const":
            return False, "literal %s" % (s[1],)
        for nm, test in allowed:
            if test(s0):
                return True, nm
        if s[0] == "arg":
            key = (p, s[2])
            if key in self.memo:
                return self.memo[key]
            self.memo[key] = (True, "recursive")
            sites = self.callers.get(p, [])
            if not sites:
                res = (True, "parameter `%s` of %s (no local caller)" % (s[1], H.last(p)))
            else:
                res = (True, "parameter `%s`: all %d call sites conform" % (s[1], len(sites)))
                for (cp, bi) in sites:
                    B = self.body(cp)
                    t = B.blocks[bi]["term"]
                    a = B.sym_op(t["args"][s[2] - 1], through_vars=True)
                    ok, why = self.classify(cp, a, allowed, depth + 1)
                    if not ok:
                        res = (False, "call site in %s passes %s: %s" % (H.last(cp), M.show(a)[:80], why))
                        break
            self.memo[key] = res
            return res
        if s[0] == "field" and s[1][0] in ("arg", "deref") and "{closure" in p:
            # closure upvar: _1.<idx>
            base = s[1]
            while base[0] == "deref":
                base = base[1]
            if base[0] == "arg" and base[2] == 1 and s[2].isdigit():
                parent, cap = self.closure_capture(p, int(s[2]))
                if cap is not None:
                    return self.classify(parent, cap, allowed, depth + 1)
        return False, "unrecognised origin %s" % M.show(s0)[:100]


def run(F, R, tier):
    R.explanation = EXPL
    R.assumptions += ["scanner line counting itself (\\r and \\n each count) is outside the property's provenance clause"]
    P = Prov(F, R)
    cg = M.CallGraph(F)
    roots = ["vm::interpreter::VM::run", "vm::interpreter::VM::push_filter_frame", "vm::interpreter::VM::pop_filter_frame"]
    for r in roots:
        R.anchor(r, r in F.fns)
    reach = cg.reachable_from([r for r in roots if r in F.fns])
    R.count("functions reachable from VM::run / filter frames", len(reach))

    # ---- (a) VM side -------------------------------------------------------
    def is_lines_ip(s):
        # Instructions.lines[<current frame>.ip]
        for t in M.subterms(s):
            if t[0] == "index":
                base, idx = t[1], t[2]
                if contains_field_chain(base, ["lines"]) and "current_frame" in M.show(base) and \
                        contains_field_chain(idx, ["ip"]) and "current_frame" in M.show(idx):
                    return True
        return False

    def is_filter_line(s):
        if contains_field_chain(s, ["closure", "func", "line"]) and "pop_frame" in M.show(s):
            return True
        # push_filter_frame(filter: &Rc<CompiledFunction>): the filter's own line
        for t in M.subterms(s):
            if t[0] == "field" and t[2] == "line":
                x = t[1]
                while x[0] in ("deref", "ref"):
                    x = x[1]
                if x[0] == "arg" and x[1] == "filter":
                    return True
        return False

    allowed_vm = [("Instructions.lines[current_frame.ip]", is_lines_ip), ("filter function's line", is_filter_line)]
    n = 0
    per_fn = {}
    for p in sorted(reach):
        f = F.fns[p]
        B = P.body(p)
        for bi, b in enumerate(B.blocks):
            t = b["term"]
            if b.get("cleanup") or t["k"] != "call" or t.get("callee") != RTNEW:
                continue
            n += 1
            k = per_fn.get(p, 0)
            per_fn[p] = k + 1
            s = B.sym_op(t["args"][1], through_vars=True)
            ok, why = P.classify(p, s, allowed_vm)
            msg = B.sym_op(t["args"][0], through_vars=True)
            lits = [x[1][2:] for x in M.subterms(msg) if x[0] == "const" and isinstance(x[1], str) and x[1].startswith("s:")]
            R.ob("rt-line-provenance", "%s#%d %s" % (p, k, (lits[0][:40] if lits else "<formatted>")), ok,
                 "line argument: %s — %s" % (M.show(s)[:90], why), F.loc(f, t.get("line")))
    R.count("RTError::new call sites", n)
    R.floor("RTError::new call sites", n, 60)

    # ---- (c) compiler side ---------------------------------------------------
    def is_token_line(s):
        return contains_field_chain(s, ["token", "line"])

    def is_lines_at(s):
        # change_operand re-uses the line already recorded at that position
        for t in M.subterms(s):
            if t[0] == "index" and contains_field_chain(t[1], ["lines"]):
                return True
        return False

    allowed_c = [("<node>.token.line", is_token_line), ("line recorded at the patched position", is_lines_at)]
    justified = {
        # replace_last_pop_with_return builds ReturnValue with make(.., 1) but copies only `.code`
        # into the stream (replace_instruction leaves `lines` untouched)
        "compiler::Compiler::replace_last_pop_with_return":
            "uses only new_instruction.code; lines of the stream are not touched",
    }
    n_c = 0
    per_fn = {}
    for p, f in sorted(F.fns.items()):
        B = None
        for bi, b in enumerate(f["mir"]["blocks"]):
            t = b["term"]
            if b.get("cleanup") or t["k"] != "call":
                continue
            c = t.get("callee")
            if c == "compiler::Compiler::emit":
                ai = 3
            elif c == "compiler::error::CompileError::new":
                ai = 1
            elif c == "code::definitions::make":
                ai = 2
            else:
                continue
            B = B or P.body(p)
            n_c += 1
            k = per_fn.get((p, c), 0)
            per_fn[(p, c)] = k + 1
            s = B.sym_op(t["args"][ai], through_vars=True)
            ok, why = P.classify(p, s, allowed_c)
            if not ok and p in justified and c == "code::definitions::make":
                # verify the justification: the result's `lines` field is never read
                uses_lines = any(x.get("k") == "field" and x["name"] == "lines" for x in H.walk(H.body_of(f)))
                ok, why = (not uses_lines), "justified: " + justified[p]
            first = B.sym_op(t["args"][1 if ai == 3 else 0], through_vars=True)
            R.ob("compile-line-provenance", "%s#%d %s %s" % (p, k, H.last(c), M.show(first)[:40]), ok,
                 "line argument: %s — %s" % (M.show(s)[:90], why), F.loc(f, t.get("line")))
    R.count("emit/CompileError/make call sites", n_c)
    R.floor("emit/CompileError/make call sites", n_c, 120)

    # make(): lines = vec![line; instruction_len]
    mk = F.fn("code::definitions::make")
    if R.anchor("code::definitions::make", mk):
        ok = False
        det = ""
        line_ids = [p_["id"] for p_ in mk["hir"]["params"] if p_.get("k") == "bind" and p_.get("name") == "line"]
        def from_widths(e, d=0):
            """the count is 1 + the sum of the operand widths: computed in place, in a local, or by a helper of the file"""
            e = H.strip(e)
            if d > 3:
                return False
            if e.get("k") in ("call", "mcall") and e.get("callee") in F.fns and F.fns[e["callee"]]["file"] == mk["file"]:
                hb = H.body_of(F.fns[e["callee"]])
                tail = hb.get("expr") if hb.get("k") == "block" else hb
                return from_widths_body(hb, tail)
            return False

        def from_widths_body(hb, tail):
            t_ = H.render(hb)
            tail = H.strip(tail) if tail is not None else {}
            one = any(x.get("k") == "lit" and x.get("v") == 1 for x in H.walk(hb))
            others = [x for x in H.walk(hb) if x.get("k") == "lit" and x.get("lk") == "int" and x.get("v") not in (0, 1)]
            return "operand_widths" in t_ and one and not others and (H.is_local(tail) or tail.get("k") == "bin")
        for c in H.calls_to(H.unlet(H.body_of(mk)), r"Instructions::new$"):
            a = c["args"]
            det = H.render(a[1])
            v = H.strip(a[1])
            if v.get("k") == "call" and H.last(v.get("callee") or "") == "from_elem":
                n_ = H.render(H.strip(v["args"][1]))
                if H.local_id(H.strip(v["args"][0])) in line_ids and from_widths(v["args"][1]):
                    ok = True
                    break
                # the count is the instruction's length: the running total of 1 + the operand widths, or the byte vector's own length
                ok = H.local_id(H.strip(v["args"][0])) in line_ids and (n_ in ("instruction_len", "instruction.len()") or
                                                                         re.fullmatch(r"\(1 \+ def\.operand_widths\.iter\(\)\.sum\(\)\)", n_) is not None)
                if ok:
                    break
        R.ob("make-replicates-line", "make: lines = [line; instruction_len]", ok, det, F.loc(mk))

    # ---- sibling-field rule: code and lines of Instructions edited congruently ----
    MUT = {"extend_from_slice", "push", "truncate", "insert", "remove", "clear", "drain", "pop", "append", "resize",
           "extend", "retain", "splice", "swap_remove", "split_off", "reverse", "sort", "dedup", "rotate_left",
           "rotate_right", "swap", "fill", "copy_from_slice", "clone_from_slice"}

    def norm(txt):
        return txt.replace(".code", ".§").replace(".lines", ".§")

    n_ed = 0
    for p, f in sorted(F.fns.items()):
        b = H.body_of(f)
        if b is None:
            continue
        ev = {"code": [], "lines": []}
        for x in H.walk(b):
            if x.get("k") == "mcall" and x["m"] in MUT:
                r = H.strip(x["recv"])
                if r.get("k") == "field" and r["name"] in ev and "Instructions" in r.get("base_ty", ""):
                    ev[r["name"]].append(norm("%s.%s(%s)" % (H.render(r["e"]), x["m"], H.render(x["args"]))))
            if x.get("k") == "assign":
                l = x["l"]
                if l.get("k") == "field" and l["name"] in ev and "Instructions" in l.get("base_ty", ""):
                    ev[l["name"]].append(norm("%s = %s" % (H.render(l["e"]), H.render(x["r"]))))
                # in-place element store keeps the length: congruent by construction
            if x.get("k") == "struct" and H.last(x["res"].get("path")) == "Instructions":
                fl = {fd["name"]: norm(H.render(fd["e"])) for fd in x["fields"]}
                if "code" in fl and "lines" in fl:
                    n_ed += 1
                    same = fl["code"] == fl["lines"] or (fl["code"] == "data" and fl["lines"] == "lines")
                    R.ob("code-lines-congruent", "%s: struct literal" % p, same,
                         "code: %s / lines: %s" % (fl["code"][:70], fl["lines"][:70]), F.loc(f, x.get("line")))
        if ev["code"] or ev["lines"]:
            n_ed += 1
            R.ob("code-lines-congruent", "%s: mutations" % p, sorted(ev["code"]) == sorted(ev["lines"]),
                 "code edits %s / lines edits %s" % (ev["code"], ev["lines"]), F.loc(f))
    R.count("functions editing Instructions.code/lines", n_ed)
    R.floor("functions editing Instructions.code/lines", n_ed, 3)

    scanner_line_rule(F, R)
    line_table_identity_rule(F, R)


def scanner_line_rule(F, R):
    """The line stamped on a token is the scanner's newline counter as of the token's own text.  Every Token built by
    the scanner takes its line from a field of Scanner; that field is either the live counter itself (the field the
    skipping code increments) or a snapshot `self.X = self.<counter>` — and a snapshot must be taken after the skipping
    of whitespace/comments that precedes the token: no statement after it in the same function calls a unit-returning
    scanner method that (transitively) advances the counter.  A snapshot taken before `skip_comments()` stamps the
    first token after a comment with the comment's line, and every runtime error reported there carries that line."""
    scan_fns = {p: g for p, g in F.fns.items() if p.startswith("scanner::Scanner::") and H.body_of(g) is not None}
    if not R.anchor("scanner::Scanner methods", scan_fns):
        return
    def self_field(n):
        n = H.strip(n)
        if n.get("k") == "field" and n.get("base_ty", "").endswith("scanner::Scanner"):
            return n["name"]
        return None
    # fields used as the line of a token
    line_fields, sites = set(), 0
    for p, g in scan_fns.items():
        for c in H.walk(H.body_of(g)):
            if c.get("k") == "call" and (c.get("callee") or "").endswith("token::Token::new") and len(c.get("args", [])) >= 3:
                sites += 1
                f = self_field(c["args"][2])
                R.ob("token-line-provenance", "%s: Token::new(.., line)" % H.last(p), f is not None,
                     "line argument %s%s" % (H.render(c["args"][2]), "" if f else " is not a field of the scanner"), F.loc(g, c.get("line")))
                if f:
                    line_fields.add(f)
    R.floor("Token::new sites in the scanner", sites, 1)
    # writers per field: increments / snapshots
    incs, snaps = {}, {}
    for p, g in scan_fns.items():
        for x in H.walk(H.body_of(g)):
            if x.get("k") == "assignop" and self_field(x["l"]):
                incs.setdefault(self_field(x["l"]), set()).add(p)
            elif x.get("k") == "assign" and self_field(x["l"]):
                src = {self_field(y) for y in H.walk(x["r"]) if self_field(y)}
                if src:
                    snaps.setdefault(self_field(x["l"]), []).append((p, x, src))
    # methods that advance a given field, transitively
    def advancers(fld):
        adv = set(incs.get(fld, ()))
        changed = True
        while changed:
            changed = False
            for p, g in scan_fns.items():
                if p in adv:
                    continue
                if any(c.get("k") in ("call", "mcall") and c.get("callee") in adv for c in H.walk(H.body_of(g))):
                    adv.add(p)
                    changed = True
        return adv
    for f in sorted(line_fields):
        if f in incs and f not in snaps:
            R.ob("token-line-provenance", "field `%s` is the live newline counter" % f, True, "incremented in %s" % sorted(H.last(p) for p in incs[f]))
            continue
        for p, x, src in snaps.get(f, []):
            g = scan_fns[p]
            counters = [c for c in src if c in incs]
            adv = set()
            for c in counters:
                adv |= advancers(c)
            skippers = {q for q in adv if (scan_fns[q].get("ret_ty") in ("()", None)) and not any((c.get("callee") or "").endswith("token::Token::new") for c in H.walk(H.body_of(scan_fns[q])))}
            # statements after the snapshot in its own block
            late = []
            for blk in H.walk(H.body_of(g)):
                if blk.get("k") != "block":
                    continue
                stmts = blk.get("stmts", [])
                idx = [i for i, st in enumerate(stmts) if any(y is x for y in H.walk(st))]
                if not idx:
                    continue
                rest = stmts[idx[0] + 1:] + ([blk["expr"]] if blk.get("expr") is not None else [])
                for st in rest:
                    for c in H.walk(st):
                        if c.get("k") in ("call", "mcall") and c.get("callee") in skippers and H.strip(st.get("e") or st.get("init") or st) is not None:
                            # only calls made for their effect (statement position): the token readers return a Token
                            if st.get("k") in ("semi", "expr") and H.strip(st.get("e") or {}) is c:
                                late.append(H.last(c["callee"]))
                break
            R.ob("token-line-provenance", "%s: `%s` is a snapshot of %s" % (H.last(p), f, sorted(src)), bool(counters) and not late,
                 ("taken before %s runs: tokens after the skipped text carry a stale line" % sorted(set(late))) if late else
                 ("snapshot of the live counter, taken after the skipping" if counters else "not derived from a newline counter"), F.loc(g, x.get("line")))


def line_table_identity_rule(F, R):
    """A function's line table travels with its code.  (a) Equality of Instructions, where hand-written, compares every
    field — comparing the code only makes two functions with the same bytes on different lines 'equal'; (b) the constant
    slot a Closure instruction names is a slot freshly pushed for that very function: the index comes from add_constant
    (or from a helper every path of which calls add_constant), and add_constant pushes on every path.  Together: a
    function never runs with another function's line table."""
    adt = F.adts.get("code::definitions::Instructions")
    eq = F.fn("<code::definitions::Instructions as std::cmp::PartialEq>::eq")
    if adt is not None and eq is not None and H.body_of(eq) is not None:
        flds = [fl.get("name") for v in adt.get("variants", []) for fl in v.get("fields", [])]
        used = {}
        for x in H.walk(H.body_of(eq)):
            if x.get("k") == "field" and x.get("name") in flds:
                base = H.render(H.strip(x["e"]))
                used.setdefault(x["name"], set()).add(base)
        missing = [f_ for f_ in flds if len(used.get(f_, ())) < 2]
        R.ob("line-table-identity", "Instructions::eq compares every field of both operands", not missing,
             "fields not compared: %s" % missing if missing else "compares %s" % flds, F.loc(eq))
    C = "compiler::Compiler::"
    ac = F.fn(C + "add_constant")
    if R.anchor(C + "add_constant", ac and ac.get("mir")):
        B = M.Body(ac)
        pushes = M.call_blocks(B, lambda t: (t.get("callee") or "").endswith("Vec::<T, A>::push"))
        free = M.reachable_avoiding(B, 0, pushes) if pushes else set(range(B.n))
        rets = sorted(free & M.return_blocks(B))
        R.ob("line-table-identity", "add_constant appends a new slot on every path", bool(pushes) and not rets,
             "returns without a push: bb%s" % rets if rets or not pushes else "constants.push dominates every return", F.loc(ac))
    fl = F.fn(C + "compile_function_literal")
    if R.anchor(C + "compile_function_literal", fl):
        b = H.body_of(fl)
        lets = {x["pat"]["id"]: x["init"] for x in H.walk(b) if x.get("k") == "let" and x.get("pat", {}).get("k") == "bind" and x.get("init") is not None}
        ems = [c for c in H.walk(b) if c.get("k") in ("call", "mcall") and (c.get("callee") or "") == C + "emit" and
               H.last(H.ctor_of(H.strip(c["args"][0])) or "") == "Closure"]
        ok, det = bool(ems), "no emit(Closure, ..)"
        for c in ems:
            arr = H.strip(c["args"][1])
            first = H.strip(arr["es"][0]) if arr.get("k") == "array" and arr.get("es") else None
            src = H.strip(H.untry(H.strip(lets.get(H.local_id(first))))) if first is not None and H.is_local(first) and H.local_id(first) in lets else first
            cal = (src or {}).get("callee") or ""
            det = "constant index = %s" % (H.render(src)[:60] if src else "?")
            if cal == C + "add_constant":
                continue
            g2 = F.fn(cal)
            if g2 is not None and g2.get("mir") and cal.startswith(C):
                B2 = M.Body(g2)
                q = M.call_blocks(B2, lambda t: t.get("callee") == C + "add_constant")
                free = M.reachable_avoiding(B2, 0, q) if q else set(range(B2.n))
                rets = sorted(free & M.return_blocks(B2))
                if q and not rets:
                    continue
                det += "; %s can return an index without calling add_constant (an existing slot is reused)" % H.last(cal)
            ok = False
        R.ob("line-table-identity", "the constant a Closure instruction names is a slot pushed for that function", ok, det, F.loc(fl))
