"""C13 — runtime errors carry the line of the failing operation.

The property is a provenance statement; static def-use provenance on MIR
decides it (up to the scanner's own line counting)."""
from .lib import hir as H
from .lib import mir as M

EXPL = ("Provenance analysis (E3) on MIR with resolved callees: the line argument of every RTError::new reachable "
        "at run time must originate from Instructions.lines[current frame ip], a `line` parameter all of whose call "
        "sites conform (fixpoint over the call graph, closures resolved through their captures), or the filter "
        "function's own line; on the compiler side every emit/CompileError line derives from a `.token.line` "
        "projection of the node being compiled; and the code/lines vectors of Instructions are only ever edited "
        "congruently (sibling-field rule). Decides where the reported line comes from, not what the scanner counted.")

RTNEW = "vm::error::RTError::new"


def contains_field_chain(s, names):
    """term contains a projection chain ...field a .field b (innermost first in `names`)"""
    for t in M.subterms(s):
        if t[0] == "field" and t[2] == names[-1]:
            x, ok = t, True
            for nm in reversed(names):
                while x[0] in ("deref", "ref", "downcast"):
                    x = x[1]
                if x[0] == "field" and x[2] == nm:
                    x = x[1]
                else:
                    ok = False
                    break
            if ok:
                return True
    return False


class Prov:
    def __init__(self, F, R):
        self.F, self.R = F, R
        self.bodies = {}
        self.memo = {}
        self.callers = {}
        for p, f in F.fns.items():
            for bi, b in enumerate(f["mir"]["blocks"]):
                t = b["term"]
                if t["k"] == "call" and t.get("callee") in F.fns:
                    self.callers.setdefault(t["callee"], []).append((p, bi))

    def body(self, p):
        if p not in self.bodies:
            self.bodies[p] = M.Body(self.F.fns[p])
        return self.bodies[p]

    def closure_capture(self, cpath, idx):
        """symbolic value captured as upvar `idx` of closure cpath, in its parent"""
        parent = cpath.rsplit("::{closure", 1)[0]
        if parent not in self.F.fns:
            return None, None
        B = self.body(parent)
        for b in B.blocks:
            for s in b["stmts"]:
                if s["k"] == "assign" and s["rv"]["k"] == "agg" and s["rv"]["ak"] == "closure:" + cpath:
                    ops = s["rv"]["ops"]
                    if idx < len(ops):
                        return parent, B.sym_op(ops[idx], through_vars=True)
        return parent, None

    def classify(self, p, s, allowed, depth=0):
        """returns (ok, reason)"""
        s0 = s
        while s[0] in ("ref", "deref"):
            s = s[1]
        if depth > 12:
            return False, "provenance chain too deep"
        if s[0] == "const":
            return False, "literal %s" % (s[1],)
        for nm, test in allowed:
            if test(s0):
                return True, nm
        if s[0] == "arg":
            key = (p, s[2])
            if key in self.memo:
                return self.memo[key]
            self.memo[key] = (True, "recursive")
            sites = self.callers.get(p, [])
            if not sites:
                res = (True, "parameter `%s` of %s (no local caller)" % (s[1], H.last(p)))
            else:
                res = (True, "parameter `%s`: all %d call sites conform" % (s[1], len(sites)))
                for (cp, bi) in sites:
                    B = self.body(cp)
                    t = B.blocks[bi]["term"]
                    a = B.sym_op(t["args"][s[2] - 1], through_vars=True)
                    ok, why = self.classify(cp, a, allowed, depth + 1)
                    if not ok:
                        res = (False, "call site in %s passes %s: %s" % (H.last(cp), M.show(a)[:80], why))
                        break
            self.memo[key] = res
            return res
        if s[0] == "field" and s[1][0] in ("arg", "deref") and "{closure" in p:
            # closure upvar: _1.<idx>
            base = s[1]
            while base[0] == "deref":
                base = base[1]
            if base[0] == "arg" and base[2] == 1 and s[2].isdigit():
                parent, cap = self.closure_capture(p, int(s[2]))
                if cap is not None:
                    return self.classify(parent, cap, allowed, depth + 1)
        return False, "unrecognised origin %s" % M.show(s0)[:100]


def run(F, R, tier):
    R.explanation = EXPL
    R.assumptions += ["scanner line counting itself (\\r and \\n each count) is outside the property's provenance clause"]
    P = Prov(F, R)
    cg = M.CallGraph(F)
    roots = ["vm::interpreter::VM::run", "vm::interpreter::VM::push_filter_frame", "vm::interpreter::VM::pop_filter_frame"]
    for r in roots:
        R.anchor(r, r in F.fns)
    reach = cg.reachable_from([r for r in roots if r in F.fns])
    R.count("functions reachable from VM::run / filter frames", len(reach))

    # ---- (a) VM side -------------------------------------------------------
    def is_lines_ip(s):
        # Instructions.lines[<current frame>.ip]
        for t in M.subterms(s):
            if t[0] == "index":
                base, idx = t[1], t[2]
                if contains_field_chain(base, ["lines"]) and "current_frame" in M.show(base) and \
                        contains_field_chain(idx, ["ip"]) and "current_frame" in M.show(idx):
                    return True
        return False

    def is_filter_line(s):
        if contains_field_chain(s, ["closure", "func", "line"]) and "pop_frame" in M.show(s):
            return True
        # push_filter_frame(filter: &Rc<CompiledFunction>): the filter's own line
        for t in M.subterms(s):
            if t[0] == "field" and t[2] == "line":
                x = t[1]
                while x[0] in ("deref", "ref"):
                    x = x[1]
                if x[0] == "arg" and x[1] == "filter":
                    return True
        return False

    allowed_vm = [("Instructions.lines[current_frame.ip]", is_lines_ip), ("filter function's line", is_filter_line)]
    n = 0
    per_fn = {}
    for p in sorted(reach):
        f = F.fns[p]
        B = P.body(p)
        for bi, b in enumerate(B.blocks):
            t = b["term"]
            if b.get("cleanup") or t["k"] != "call" or t.get("callee") != RTNEW:
                continue
            n += 1
            k = per_fn.get(p, 0)
            per_fn[p] = k + 1
            s = B.sym_op(t["args"][1], through_vars=True)
            ok, why = P.classify(p, s, allowed_vm)
            msg = B.sym_op(t["args"][0], through_vars=True)
            lits = [x[1][2:] for x in M.subterms(msg) if x[0] == "const" and isinstance(x[1], str) and x[1].startswith("s:")]
            R.ob("rt-line-provenance", "%s#%d %s" % (p, k, (lits[0][:40] if lits else "<formatted>")), ok,
                 "line argument: %s — %s" % (M.show(s)[:90], why), F.loc(f, t.get("line")))
    R.count("RTError::new call sites", n)
    R.floor("RTError::new call sites", n, 85)

    # ---- (c) compiler side ---------------------------------------------------
    def is_token_line(s):
        return contains_field_chain(s, ["token", "line"])

    def is_lines_at(s):
        # change_operand re-uses the line already recorded at that position
        for t in M.subterms(s):
            if t[0] == "index" and contains_field_chain(t[1], ["lines"]):
                return True
        return False

    allowed_c = [("<node>.token.line", is_token_line), ("line recorded at the patched position", is_lines_at)]
    justified = {
        # replace_last_pop_with_return builds ReturnValue with make(.., 1) but copies only `.code`
        # into the stream (replace_instruction leaves `lines` untouched)
        "compiler::Compiler::replace_last_pop_with_return":
            "uses only new_instruction.code; lines of the stream are not touched",
    }
    n_c = 0
    per_fn = {}
    for p, f in sorted(F.fns.items()):
        B = None
        for bi, b in enumerate(f["mir"]["blocks"]):
            t = b["term"]
            if b.get("cleanup") or t["k"] != "call":
                continue
            c = t.get("callee")
            if c == "compiler::Compiler::emit":
                ai = 3
            elif c == "compiler::error::CompileError::new":
                ai = 1
            elif c == "code::definitions::make":
                ai = 2
            else:
                continue
            B = B or P.body(p)
            n_c += 1
            k = per_fn.get((p, c), 0)
            per_fn[(p, c)] = k + 1
            s = B.sym_op(t["args"][ai], through_vars=True)
            ok, why = P.classify(p, s, allowed_c)
            if not ok and p in justified and c == "code::definitions::make":
                # verify the justification: the result's `lines` field is never read
                uses_lines = any(x.get("k") == "field" and x["name"] == "lines" for x in H.walk(H.body_of(f)))
                ok, why = (not uses_lines), "justified: " + justified[p]
            first = B.sym_op(t["args"][1 if ai == 3 else 0], through_vars=True)
            R.ob("compile-line-provenance", "%s#%d %s %s" % (p, k, H.last(c), M.show(first)[:40]), ok,
                 "line argument: %s — %s" % (M.show(s)[:90], why), F.loc(f, t.get("line")))
    R.count("emit/CompileError/make call sites", n_c)
    R.floor("emit/CompileError/make call sites", n_c, 120)

    # make(): lines = vec![line; instruction_len]
    mk = F.fn("code::definitions::make")
    if R.anchor("code::definitions::make", mk):
        ok = False
        det = ""
        for c in H.calls_to(H.body_of(mk), r"Instructions::new$"):
            a = c["args"]
            det = H.render(a[1])
            if a[1].get("k") == "call" and H.last(a[1].get("callee") or "") == "from_elem":
                ok = H.is_local(a[1]["args"][0], "line") and H.is_local(a[1]["args"][1], "instruction_len")
                if ok:
                    break
        R.ob("make-replicates-line", "make: lines = [line; instruction_len]", ok, det, F.loc(mk))

    # ---- sibling-field rule: code and lines of Instructions edited congruently ----
    MUT = {"extend_from_slice", "push", "truncate", "insert", "remove", "clear", "drain", "pop", "append", "resize",
           "extend", "retain", "splice", "swap_remove", "split_off", "reverse", "sort", "dedup", "rotate_left",
           "rotate_right", "swap", "fill", "copy_from_slice", "clone_from_slice"}

    def norm(txt):
        return txt.replace(".code", ".§").replace(".lines", ".§")

    n_ed = 0
    for p, f in sorted(F.fns.items()):
        b = H.body_of(f)
        if b is None:
            continue
        ev = {"code": [], "lines": []}
        for x in H.walk(b):
            if x.get("k") == "mcall" and x["m"] in MUT:
                r = H.strip(x["recv"])
                if r.get("k") == "field" and r["name"] in ev and "Instructions" in r.get("base_ty", ""):
                    ev[r["name"]].append(norm("%s.%s(%s)" % (H.render(r["e"]), x["m"], H.render(x["args"]))))
            if x.get("k") == "assign":
                l = x["l"]
                if l.get("k") == "field" and l["name"] in ev and "Instructions" in l.get("base_ty", ""):
                    ev[l["name"]].append(norm("%s = %s" % (H.render(l["e"]), H.render(x["r"]))))
                # in-place element store keeps the length: congruent by construction
            if x.get("k") == "struct" and H.last(x["res"].get("path")) == "Instructions":
                fl = {fd["name"]: norm(H.render(fd["e"])) for fd in x["fields"]}
                if "code" in fl and "lines" in fl:
                    n_ed += 1
                    same = fl["code"] == fl["lines"] or (fl["code"] == "data" and fl["lines"] == "lines")
                    R.ob("code-lines-congruent", "%s: struct literal" % p, same,
                         "code: %s / lines: %s" % (fl["code"][:70], fl["lines"][:70]), F.loc(f, x.get("line")))
        if ev["code"] or ev["lines"]:
            n_ed += 1
            R.ob("code-lines-congruent", "%s: mutations" % p, sorted(ev["code"]) == sorted(ev["lines"]),
                 "code edits %s / lines edits %s" % (ev["code"], ev["lines"]), F.loc(f))
    R.count("functions editing Instructions.code/lines", n_ed)
    R.floor("functions editing Instructions.code/lines", n_ed, 3)

    scanner_line_rule(F, R)


def scanner_line_rule(F, R):
    """The line stamped on a token is the scanner's newline counter as of the token's own text.  Every Token built by
    the scanner takes its line from a field of Scanner; that field is either the live counter itself (the field the
    skipping code increments) or a snapshot `self.X = self.<counter>` — and a snapshot must be taken after the skipping
    of whitespace/comments that precedes the token: no statement after it in the same function calls a unit-returning
    scanner method that (transitively) advances the counter.  A snapshot taken before `skip_comments()` stamps the
    first token after a comment with the comment's line, and every runtime error reported there carries that line."""
    scan_fns = {p: g for p, g in F.fns.items() if p.startswith("scanner::Scanner::") and H.body_of(g) is not None}
    if not R.anchor("scanner::Scanner methods", scan_fns):
        return
    def self_field(n):
        n = H.strip(n)
        if n.get("k") == "field" and n.get("base_ty", "").endswith("scanner::Scanner"):
            return n["name"]
        return None
    # fields used as the line of a token
    line_fields, sites = set(), 0
    for p, g in scan_fns.items():
        for c in H.walk(H.body_of(g)):
            if c.get("k") == "call" and (c.get("callee") or "").endswith("token::Token::new") and len(c.get("args", [])) >= 3:
                sites += 1
                f = self_field(c["args"][2])
                R.ob("token-line-provenance", "%s: Token::new(.., line)" % H.last(p), f is not None,
                     "line argument %s%s" % (H.render(c["args"][2]), "" if f else " is not a field of the scanner"), F.loc(g, c.get("line")))
                if f:
                    line_fields.add(f)
    R.floor("Token::new sites in the scanner", sites, 1)
    # writers per field: increments / snapshots
    incs, snaps = {}, {}
    for p, g in scan_fns.items():
        for x in H.walk(H.body_of(g)):
            if x.get("k") == "assignop" and self_field(x["l"]):
                incs.setdefault(self_field(x["l"]), set()).add(p)
            elif x.get("k") == "assign" and self_field(x["l"]):
                src = {self_field(y) for y in H.walk(x["r"]) if self_field(y)}
                if src:
                    snaps.setdefault(self_field(x["l"]), []).append((p, x, src))
    # methods that advance a given field, transitively
    def advancers(fld):
        adv = set(incs.get(fld, ()))
        changed = True
        while changed:
            changed = False
            for p, g in scan_fns.items():
                if p in adv:
                    continue
                if any(c.get("k") in ("call", "mcall") and c.get("callee") in adv for c in H.walk(H.body_of(g))):
                    adv.add(p)
                    changed = True
        return adv
    for f in sorted(line_fields):
        if f in incs and f not in snaps:
            R.ob("token-line-provenance", "field `%s` is the live newline counter" % f, True, "incremented in %s" % sorted(H.last(p) for p in incs[f]))
            continue
        for p, x, src in snaps.get(f, []):
            g = scan_fns[p]
            counters = [c for c in src if c in incs]
            adv = set()
            for c in counters:
                adv |= advancers(c)
            skippers = {q for q in adv if (scan_fns[q].get("ret_ty") in ("()", None)) and not any((c.get("callee") or "").endswith("token::Token::new") for c in H.walk(H.body_of(scan_fns[q])))}
            # statements after the snapshot in its own block
            late = []
            for blk in H.walk(H.body_of(g)):
                if blk.get("k") != "block":
                    continue
                stmts = blk.get("stmts", [])
                idx = [i for i, st in enumerate(stmts) if any(y is x for y in H.walk(st))]
                if not idx:
                    continue
                rest = stmts[idx[0] + 1:] + ([blk["expr"]] if blk.get("expr") is not None else [])
                for st in rest:
                    for c in H.walk(st):
                        if c.get("k") in ("call", "mcall") and c.get("callee") in skippers and H.strip(st.get("e") or st.get("init") or st) is not None:
                            # only calls made for their effect (statement position): the token readers return a Token
                            if st.get("k") in ("semi", "expr") and H.strip(st.get("e") or {}) is c:
                                late.append(H.last(c["callee"]))
                break
            R.ob("token-line-provenance", "%s: `%s` is a snapshot of %s" % (H.last(p), f, sorted(src)), bool(counters) and not late,
                 ("taken before %s runs: tokens after the skipped text carry a stale line" % sorted(set(late))) if late else
                 ("snapshot of the live counter, taken after the skipping" if counters else "not derived from a newline counter"), F.loc(g, x.get("line")))
