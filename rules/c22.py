"""C22 — operating-system I/O failures become error objects, not crashes."""
import re

from .lib import hir as H
from .lib.tables import builtin_table

EXPL = ("Error-discipline rule (E3) over the I/O builtins: every expression of type Result<_, io::Error> produced in "
        "builtins/functions.rs is consumed by one of the accepted idioms, enumerated from what the sites do and confirmed "
        "by reading — a match / if-let whose Err arm yields Ok(Rc::new(Object::Err(ErrorObj::IO(e)))) (with the "
        "UnexpectedEof → null / break special case of the pcap readers), or wrapping into Ok(..) of a value that is "
        "matched that way later; expect/unwrap, dropping the result, or converting it into Err(String) (a runtime "
        "error) are violations. Functions of builtins/pcap.rs that return io::Result must propagate with `?`. Second "
        "rule: an object that may be an error object handed from one builtin to another must be passed through. Third: "
        "the named builtins must not write to stdout/stderr through print!/eprint! (which panic on a failing descriptor). "
        "Decides the discipline at every site; which errno a failing target produces is the OS's business.")

BF = "builtins::functions::"
NAMED = ["open", "read", "read_line", "read_to_string", "write", "flush", "pcap_open", "pcap_stream", "pcap_read_next",
         "pcap_read_all", "pcap_write"]


def parents(root):
    par = {}
    stack = [(root, None)]
    while stack:
        n, p = stack.pop()
        if isinstance(n, dict):
            if "k" in n:
                par[id(n)] = p
            for v in n.values():
                if isinstance(v, (dict, list)):
                    stack.append((v, n if "k" in n else p))
        elif isinstance(n, list):
            for v in n:
                stack.append((v, p))
    return par


def is_io_result(x):
    ty = x.get("ty", "")
    if ty.startswith("std::option::Option<std::result::Result<") and ty.endswith(">>"):
        ty = ty[len("std::option::Option<"):-1]       # `fn open(..) -> Option<io::Result<Self>>`: the failure is one level down
    return x.get("k") in ("call", "mcall") and ty.startswith("std::result::Result<") and "std::io::Error" in ty.split(",")[-1]


_F = None


def err_arm_ok(arm_body, errvar):
    """the arm produces Ok(Rc::new(Object::Err(ErrorObj::IO(<errvar>)))) — written in place or through a small helper
    (`io_error_object(e)`), which is looked through"""
    if _F is not None:
        arm_body = H.inline_helpers(_F, arm_body)
    for x in H.walk(arm_body):
        if x.get("k") == "call" and x.get("ctor") == "object::Object::Err":
            inner = H.strip(x["args"][0])
            if inner.get("k") == "call" and inner.get("ctor") == "object::error::ErrorObj::IO" and H.is_local(H.strip(inner["args"][0]), errvar):
                return True
    return False


def classify_match(m, producer=None):
    """(verdict, detail) for `match <io result> { Ok.. , Err(e) => .. }`"""
    for a in m["arms"]:
        p = a["pat"]
        if p.get("k") == "ts" and H.last(p["res"].get("path")) == "Some" and len(p.get("pats", [])) == 1 and p["pats"][0].get("k") == "ts":
            p = p["pats"][0]        # Some(Err(e)) of an Option<io::Result<..>>
        if p.get("k") == "ts" and H.last(p["res"].get("path")) == "Err":
            ev = p["pats"][0].get("name") if p["pats"] and p["pats"][0].get("k") == "bind" else None
            if a.get("guard") is not None:
                # `Err(e) if e.kind() == ErrorKind::UnexpectedEof => ..`: the end of the input is not a failure (C19 decides
                # what it maps to); the arm that takes every other error is the one examined here
                if re.fullmatch(r"\(?%s\.kind\(\) == (io::)?ErrorKind::UnexpectedEof\)?" % re.escape(ev or "?"), H.render(a["guard"])):
                    # ... but only where records are read: an input that ends inside the global header, or a write, is a failure
                    if producer is not None and producer not in ("next_packet", "read_record", "read_packet") and not err_arm_ok(a["body"], ev or "?"):
                        return False, "the end of the input is not reported as an error for %s (only reading the next record may end quietly)" % producer
                    continue
                if ev and err_arm_ok(a["body"], ev):
                    continue
                return False, "a guarded Err arm does not yield an error object: %s" % H.render(a["body"])[:80]
            if ev and err_arm_ok(a["body"], ev):
                return True, "Err(%s) arm yields Object::Err(ErrorObj::IO(%s))" % (ev, ev)
            txt = H.render(a["body"])
            if "Err(" in txt and ("format" in txt or "to_string" in txt or "String::from" in txt):
                return False, "Err arm turns the I/O error into Err(String): a runtime error"
            return False, "Err arm does not yield an error object: %s" % txt[:80]
    return False, "no Err arm"


def consumers(F, g, p, b):
    """[(key, ok, detail, location)] for every io::Result producer in b"""
    out = []
    par = parents(b)
    k = 0
    # locals bound to an io::Result (directly or through Ok(..)? of a match)
    for x in H.walk(b):
        if not is_io_result(x):
            continue
        if H.is_try(par.get(id(x)) or {}):
            continue
        key = "%s#%d %s" % (p, k, H.last(x.get("callee") or x.get("m") or "?"))
        prod = H.last(x.get("callee") or x.get("m") or "?")
        k += 1
        pa = par.get(id(x))
        loc = F.loc(g, x.get("line"))
        kind = pa.get("k") if pa else None
        ok, det = False, "unrecognised consumer: %s" % kind
        if kind == "match" and not H.is_try(pa) and pa["scrut"] is x:
            ok, det = classify_match(pa, prod)
        elif kind == "let" and "pat" in pa and pa.get("init") is x and pa["pat"].get("k") == "ts":
            # if let Err(e) = <call> { return Ok(error object) }
            gp = par.get(id(pa))
            pat = pa["pat"]
            if H.last(pat["res"].get("path")) == "Err" and gp and gp.get("k") == "if":
                ev = pat["pats"][0].get("name") if pat["pats"] and pat["pats"][0].get("k") == "bind" else None
                ok = bool(ev) and err_arm_ok(gp["t"], ev) and H.diverges(gp["t"])
                det = "if let Err(%s) = .. returns Object::Err(ErrorObj::IO(%s))" % (ev, ev) if ok else "if-let Err branch does not return an error object"
        elif kind == "let" and pa.get("init") is x and pa.get("pat", {}).get("k") == "bind":
            # let file = <call>; match file { .. }
            lid = pa["pat"]["id"]
            ms = [m for m in H.walk(b) if m.get("k") == "match" and not H.is_try(m) and H.local_id(H.strip(m["scrut"])) == lid]
            if len(ms) == 1:
                ok, det = classify_match(ms[0], prod)
                det = "bound to `%s`, then: %s" % (pa["pat"]["name"], det)
            else:
                det = "bound to `%s` and matched %d times" % (pa["pat"]["name"], len(ms))
                if not ms:
                    # handed to a helper of the repository that does the matching (`writer_handle_or_error(file)`)
                    for c2 in H.walk(b):
                        if c2.get("k") in ("call", "mcall") and c2.get("callee") in F.fns and any(H.local_id(H.strip(a2)) == lid for a2 in c2.get("args", [])):
                            inl = H.inline_helpers(F, c2, depth=1)
                            ms2 = [m for m in H.walk(inl) if m.get("k") == "match" and not H.is_try(m) and H.local_id(H.strip(m["scrut"])) == lid]
                            if len(ms2) == 1:
                                ok, det = classify_match(ms2[0], prod)
                                det = "bound to `%s`, handed to %s, there: %s" % (pa["pat"]["name"], H.last(c2["callee"]), det)
        elif kind == "match" and not H.is_try(pa) and pa["scrut"] is not x:
            # value of a match arm: follow the enclosing let binding to where it is matched
            cur = pa
            while cur is not None and not (cur.get("k") == "let" and cur.get("pat", {}).get("k") == "bind"):
                cur = par.get(id(cur))
            if cur is not None:
                lid = cur["pat"]["id"]
                ms = [m for m in H.walk(b) if m.get("k") == "match" and not H.is_try(m) and H.local_id(H.strip(m["scrut"])) == lid]
                if len(ms) == 1:
                    ok, det = classify_match(ms[0], prod)
                    det = "value of a match arm bound to `%s`, then: %s" % (cur["pat"]["name"], det)
        elif kind == "call" and H.last(pa.get("ctor", "")) == "Ok":
            # Ok(<io result>) as the value of a match that is `?`-ed into a local, which is then matched
            cur = pa
            while cur is not None and not (cur.get("k") == "let" and cur.get("pat", {}).get("k") == "bind"):
                cur = par.get(id(cur))
            if cur is not None:
                lid = cur["pat"]["id"]
                ms = [m for m in H.walk(b) if m.get("k") == "match" and not H.is_try(m) and H.local_id(H.strip(m["scrut"])) == lid]
                if len(ms) == 1:
                    ok, det = classify_match(ms[0], prod)
                    det = "wrapped in Ok(..), bound to `%s`, then: %s" % (cur["pat"]["name"], det)
        elif kind == "mcall" and pa["m"] in ("map", "and_then", "inspect") and pa.get("recv") is x and is_io_result(pa):
            # `File::open(path).map(|file| ..)`: the failure is carried unchanged into a value that is a producer of its own here
            ok, det = True, ".%s(..) keeps the error; its io::Result is examined in turn" % pa["m"]
        elif kind == "mcall" and pa["m"] in ("expect", "unwrap", "unwrap_or", "unwrap_or_default", "ok", "map_err", "unwrap_or_else", "is_ok", "is_err"):
            det = ".%s() on an io::Result: %s" % (pa["m"], "aborts the interpreter" if pa["m"] in ("expect", "unwrap") else "drops or rewrites the error")
        elif kind in ("block",) or kind is None:
            # statement position (dropped) or tail value of a helper returning io::Result
            det = "result is dropped"
            # ... unless it is the value of the block / arm / branch, and that value is bound to a local that is matched
            cur = x
            while True:
                up = par.get(id(cur))
                if up is None:
                    break
                uk = up.get("k")
                if (uk == "block" and up.get("expr") is cur) or (uk == "match" and not H.is_try(up) and up["scrut"] is not cur) or \
                        (uk == "if" and (up.get("t") is cur or up.get("e") is cur)):
                    cur = up
                    continue
                break
            if cur is not x and up is not None and up.get("k") == "let" and up.get("init") is cur and up.get("pat", {}).get("k") == "bind":
                lid = up["pat"]["id"]
                ms = [m for m in H.walk(b) if m.get("k") == "match" and not H.is_try(m) and H.local_id(H.strip(m["scrut"])) == lid]
                if len(ms) == 1:
                    ok, det = classify_match(ms[0], prod)
                    det = "value of a block bound to `%s`, then: %s" % (up["pat"]["name"], det)
        if not ok:
            # the value of a conditional (an arm of a match, a branch, a block) that is itself what a match examines
            cur = x
            while True:
                up = par.get(id(cur))
                if up is None:
                    break
                uk = up.get("k")
                if (uk == "block" and up.get("expr") is cur) or (uk == "match" and not H.is_try(up) and up["scrut"] is not cur) or \
                        (uk == "if" and (up.get("t") is cur or up.get("e") is cur)):
                    cur = up
                    continue
                break
            if cur is not x and up is not None and up.get("k") == "match" and not H.is_try(up) and up["scrut"] is cur:
                ok, det = classify_match(up, prod)
                det = "value of a conditional that is matched: " + det
        out.append((key, ok, det, loc))
    return out


def run(F, R, tier):
    global _F
    _F = F
    R.explanation = EXPL
    R.assumptions += ["which errno each failing target produces is the OS's business"]
    tab = dict(builtin_table(F, R) or [])
    for nm in NAMED:
        R.ob("builtin-registered", nm, nm in tab, "registered as %s" % tab.get(nm), nontrivial=False)
    n_sites = 0
    from .lib import mir as M
    cg = M.CallGraph(F)
    named_fns = cg.reachable_from([tab[nm] for nm in NAMED if nm in tab])
    R.count("functions reachable from the named I/O builtins", len(named_fns))
    for p, g in sorted(F.fns.items()):
        if not g["file"].endswith("builtins/functions.rs") or p not in named_fns:
            continue
        b = H.body_of(g)
        if b is None:
            continue
        res = consumers(F, g, p, b)
        if any(not r[1] for r in res):
            # second reading, in normal form: the function's helpers inlined, function values applied, named intermediates
            # substituted (`Ok(io_result_object(fs::File::open(path), reader_object))` is then the match the helper does)
            def keep_(c):
                # not the builtins themselves, nor what produces an io::Result of its own (those are sites, not plumbing)
                gc = F.fns.get(c) or {}
                rt = ((gc.get("mir") or {}).get("locals") or [{}])[0].get("ty", "")
                return c in tab.values() or "std::io::Error" in rt or gc.get("file") != g["file"]
            res2 = consumers(F, g, p, H.beta(H.unlet(H.split_tuple_lets(H.inline_helpers(F, b, max_size=200, skip=keep_)))))
            if res2 and len(res2) >= len(res) and (all(r[1] for r in res2) or sum(1 for r in res2 if not r[1]) <= sum(1 for r in res if not r[1])):
                # (only when no producer got lost on the way to the normal form)
                # (also when it does not pass: what is wrong is said about the code as it reads with its helpers in place)
                res = [(k_, o_, "in normal form: " + d_, l_) for k_, o_, d_, l_ in res2]
        n_sites += len(res)
        for key, ok, det, loc in res:
            R.ob("io-result-consumed", key, ok, det, loc)
    # error-discarding adaptors: `Result::ok` / `.ok()` / `.unwrap_or*()` / `.flatten()` applied to an io::Result (also as a
    # function value handed to an iterator adaptor: `bytes().map_while(Result::ok)`, `lines().filter_map(Result::ok)`)
    # turn a failing read into "no more data" — in any function reachable from the named builtins
    n_ad = 0
    for p, g in sorted(F.fns.items()):
        base = p.split("::{closure")[0]
        if base not in named_fns or not (g["file"].endswith("builtins/functions.rs") or g["file"].endswith("builtins/pcap.rs")):
            continue
        b = H.body_of(g)
        if b is None:
            continue
        k = 0
        for x in H.walk(b):
            bad = None
            if x.get("k") == "path" and x.get("res", {}).get("r") == "fn" and "std::io::Error" in (x.get("ty") or ""):
                nm = H.last(x["res"].get("path") or "")
                if nm in ("ok", "unwrap_or", "unwrap_or_default", "unwrap_or_else", "is_ok", "is_err", "unwrap", "expect") and "Result" in (x["res"].get("path") or ""):
                    bad = "Result::%s used as a function over io::Result values" % nm
            elif x.get("k") == "mcall" and x["m"] in ("ok", "unwrap_or", "unwrap_or_default", "unwrap_or_else") and "std::io::Error" in (x.get("recv_ty") or x["recv"].get("ty") or ""):
                bad = ".%s() on an io::Result" % x["m"]
            elif x.get("k") == "mcall" and x["m"] in ("flatten", "flat_map") and "std::io::" in (x.get("recv_ty") or x["recv"].get("ty") or "") and \
                    any(t in (x.get("recv_ty") or x["recv"].get("ty") or "") for t in ("Bytes<", "Lines<", "Split<")):
                bad = ".%s() over an iterator of io::Result items" % x["m"]
            if bad:
                n_ad += 1
                R.ob("io-error-discarded", "%s#%d" % (p, k), False, bad + ": the OS failure is dropped instead of becoming an error object", F.loc(g, x.get("line")))
                k += 1
    R.ob("io-error-discarded", "no error-discarding adaptor on io::Result in the I/O builtins", n_ad == 0, "%d found" % n_ad)
    R.count("io::Result producers in builtins/functions.rs", n_sites)
    R.floor("io::Result producers", n_sites, 20)
    # pcap.rs: functions returning io::Result propagate inner results with `?`
    n_p = 0
    for p, g in sorted(F.fns.items()):
        # (object/file.rs too: reads and writes may live in methods of the file handle)
        if not g["file"].endswith(("builtins/pcap.rs", "object/file.rs")):
            continue
        b = H.body_of(g)
        if b is None:
            continue
        par = parents(b)
        rty = ""
        k = 0
        for x in H.walk(b):
            if not is_io_result(x):
                continue
            pa = par.get(id(x))
            if H.last(x.get("callee") or "") in ("from_residual", "branch") or (x.get("k") == "call" and H.last(x.get("ctor", "")) in ("Ok", "Err")):
                continue
            n_p += 1
            kind = pa.get("k") if pa else None
            ok = False
            det = "consumer %s" % kind
            if kind == "call" and H.last(pa.get("callee") or "") == "branch":
                ok, det = True, "propagated with `?`"
            elif kind in ("block", "ret", None):
                ok, det = True, "tail value of a function returning io::Result"
            elif kind == "closure" and pa.get("body") is x or (kind == "closure" and H.strip(pa.get("body") or {}) is x):
                # the value of a closure: it goes to whoever calls the closure, and that call is a producer examined here too
                ok, det = True, "value of a closure returning io::Result"
            elif kind == "match" and not H.is_try(pa):
                # match on handle kind whose arms are io results, then `?`
                gp = par.get(id(pa))
                ok = True
                det = "value of a match arm that is propagated"
            elif kind == "mcall" and pa["m"] in ("expect", "unwrap"):
                det = ".%s() on an io::Result" % pa["m"]
            elif kind == "mcall" and pa["m"] in ("map", "and_then", "map_err") and pa.get("recv") is x and is_io_result(pa):
                ok, det = True, ".%s(..) keeps the error; its io::Result is examined in turn" % pa["m"]
            elif kind == "call" and H.last(pa.get("ctor") or "") == "Some" and "std::io::Error" in (pa.get("ty") or ""):
                # handed on inside Some(..) by a function returning Option<io::Result<..>>: the call of that function is a
                # producer where it is made
                gp = par.get(id(pa))
                ok = gp is None or gp.get("k") in ("block", "ret", "match", "if")
                det = "returned inside Some(..)" if ok else det
            elif kind == "tup":
                # `let (file, readable) = match mode { "r" => (File::open(path), true), .. }`: stored under a name; the
                # uses of that name are producers examined here
                cur_ = pa
                while True:
                    up_ = par.get(id(cur_))
                    if up_ is None:
                        break
                    uk_ = up_.get("k")
                    if (uk_ == "block" and up_.get("expr") is cur_) or (uk_ == "match" and not H.is_try(up_) and up_["scrut"] is not cur_) or \
                            (uk_ == "if" and (up_.get("t") is cur_ or up_.get("e") is cur_)):
                        cur_ = up_
                        continue
                    break
                i_ = [j_ for j_, e_ in enumerate(pa.get("es", [])) if e_ is x]
                if up_ is not None and up_.get("k") == "let" and up_.get("init") is cur_ and up_.get("pat", {}).get("k") == "tuple" and i_ and \
                        i_[0] < len(up_["pat"]["pats"]) and up_["pat"]["pats"][i_[0]].get("k") == "bind":
                    ok, det = True, "kept under the name `%s`; its uses are examined" % up_["pat"]["pats"][i_[0]].get("name")
            R.ob("io-result-propagated", "%s#%d %s" % (p, k, H.last(x.get("callee") or x.get("m") or "?")), ok, det, F.loc(g, x.get("line")))
            k += 1
    R.count("io::Result producers in builtins/pcap.rs", n_p)
    # ---- second rule: error objects are passed through between builtins ----------------------------------------------------
    roots = set(tab.values())
    n2 = 0
    for p in sorted(roots):
        g = F.fn(p)
        if g is None:
            continue
        b = H.body_of(g)
        for x in H.walk(b):
            if x.get("k") == "call" and x.get("callee") in roots and x["callee"] != p:
                n2 += 1
                # find the local the (?-unwrapped) result is bound to and its match
                par = parents(b)
                cur = x
                while cur is not None and not (cur.get("k") == "let" and cur.get("pat", {}).get("k") == "bind"):
                    cur = par.get(id(cur))
                ok, det = False, "result of %s is not bound" % H.last(x["callee"])
                if cur is not None:
                    lid = cur["pat"]["id"]
                    nm = cur["pat"]["name"]
                    ms = [m for m in H.walk(b) if m.get("k") == "match" and not H.is_try(m) and nm in H.render(m["scrut"]) and
                          any("object::Object::" in (v or "") for a in m["arms"] for v in H.pat_variants(a["pat"]))]
                    for m in ms:
                        for a in m["arms"]:
                            if "object::Object::Err" in H.pat_variants(a["pat"]):
                                t = H.render(a["body"])
                                ok = t == "return v1::Ok(%s.clone())" % nm or t == "v1::Ok(%s.clone())" % nm
                                det = "Object::Err(_) arm: %s" % t
                    if not ok and det.startswith("result"):
                        det = "the object returned by %s is matched without an Object::Err pass-through arm" % H.last(x["callee"])
                R.ob("error-object-passthrough", "%s → %s" % (H.last(p), H.last(x["callee"])), ok, det, F.loc(g, x.get("line")))
    R.floor("builtin-to-builtin calls", n2, 1)
    # ---- "never abort the interpreter": the panic-site audit over the named builtins and their helpers in functions.rs (the
    # pcap side is audited under C19 and linked below).  On a failure path this is what finds a RefCell borrowed again
    # while the guard taken for the write is still alive, an index into a short read, ...
    from .lib import audit_run
    io_roots = [tab[nm] for nm in NAMED if nm in tab]
    A_, fns_, keys_ = audit_run.run_audit(F, R, io_roots, lambda p_, f_: f_["file"].endswith("builtins/functions.rs"), "I/O builtins", link_ops=False)
    R.floor("I/O builtins: functions audited", len(fns_), 12)
    # ---- third rule: no print!/eprint! in the named builtins ------------------------------------------------------------------
    for nm in NAMED:
        p = tab.get(nm)
        g = F.fn(p) if p else None
        if g is None:
            continue
        prints = [x for x in H.walk(H.body_of(g)) if x.get("k") == "call" and (x.get("callee") or "") in ("std::io::_print", "std::io::_eprint")]
        R.ob("no-panicking-print", nm, not prints, "%d print!/eprint! calls (panic when the descriptor fails)" % len(prints), F.loc(g))
    # ---- a short or garbage pcap header is an error object: C19's rules on how the fixed-size structures are read ----------------
    # `read_exact` turns a header that ends early into io::ErrorKind::UnexpectedEof, which pcap_open / pcap_stream hand to the
    # script as an error object; a plain `read` (or a loop that stops at end of input and goes on with a partly filled,
    # zero-padded buffer) makes a truncated header look like a valid one.
    import importlib
    from .lib import core as _core
    try:
        R19 = _core.Report("C19")
        importlib.import_module("rules.c19").run(F, R19, tier)
        for o in R19.obls:
            if o.rule in ("fixed-size-reads-exact", "read-exact-propagated", "magic-test"):
                R.ob("linked:C19:" + o.rule, o.key, o.ok, o.detail, o.loc, nontrivial=False)
    except Exception as e:  # fail closed
        R.ob("linked-check", "C19's header-reading rules could be evaluated", False, "%s: %s" % (type(e).__name__, e))
