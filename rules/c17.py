"""C17 — assigning a header field changes exactly that field."""
import re

from .lib import hir as H
from .lib import codec as C
from .lib import layers as L

EXPL = ("Per writable property the structural chain is checked: the Some(val) branch of the exec_prop_L arm calls exactly "
        "one set_* method and the None branch the matching get_* (sibling pair on one header field); the setter's HIR "
        "writes exactly that field and nothing else; the stored value is either range-checked to [0, 2^w-1] with w the "
        "wire width of the field (reference layout) or reduced to w bits by a cast/mask of exactly that width, so no "
        "excess bit can reach a neighbour's bit range in the encoder; the range test precedes the store (a rejected "
        "value leaves the packet unchanged); the E4 encode map sends the field to the reference bit range and the decode "
        "map reads it back from the same range (so serialise-and-reparse returns the value). Decides the chain per "
        "property; coupling between fields (ihl vs payload offset) is not modelled.")


def run(F, R, tier):
    R.explanation = EXPL
    R.assumptions += ["A5: tables/rfc_layouts.json is a correct transcription of the cited layouts",
                      "semantic coupling between fields is outside the property's per-field clause"]
    ref = L.rfc()
    names = L.prop_names(F)
    n = 0
    for lname, spec in L.LAYERS.items():
        arms = L.prop_arms(F, spec["exec"])
        if not R.anchor(spec["exec"], arms is not None):
            continue
        f = F.fn(spec["exec"])
        dec, err = C.decode_struct(F, spec["decoder"], spec["hdr"] + "$")
        encb, err2 = C.encode_bytes(F, spec["encoder"])
        if not R.anchor("codec of %s" % lname, dec is not None and encb is not None, (err or "") + (err2 or "")):
            continue
        # field -> output positions (byte, bit) per field bit, from the encoder alone (no read-only assumption)
        enc_pos = {}
        k = 0
        for byte in encb:
            if isinstance(byte, tuple):
                continue
            for j, o in enumerate(byte):
                if isinstance(o, tuple) and o[0] == "fld":
                    nm = o[1]
                    while nm not in dec and nm.endswith(".0"):
                        nm = nm[:-2]
                    enc_pos.setdefault(nm, {})[o[2]] = (k, j)
            k += 1
        # bits of an output byte that mix two fields are '?' in the encoder map: record which fields feed which byte
        layout = ref["layers"][lname]["props"]
        done = set()
        for variant, info in arms.items():
            if variant == "*" or info.get("kind") != "field" or id(info) in done:
                continue
            done.add(id(info))
            pname = names.get(variant, variant)
            key = "%s.%s" % (lname, pname)
            if not info.get("set"):
                R.ob("writable", key, lname in ("ipv4", "ipv6") and pname == "version", "no setter (read-only property)", F.loc(f, info["line"]), nontrivial=False)
                continue
            n += 1
            # (a) one setter on the write branch, one getter on the read branch, same field
            R.ob("set-get-pair", key, info["n_set"] == 1 and info["n_get"] == 1,
                 "%d setter call(s), %d getter call(s) in the arm" % (info["n_set"], info["n_get"]), F.loc(f, info["line"]))
            gfld, _ = L.getter_field(F, info["get"])
            si = L.setter_info(F, info["set"])
            g = F.fn(info["set"])
            if not R.anchor(info["set"], si is not None):
                continue
            stores = si["stores"]
            # (b) exactly one header field written
            one = len(stores) == 1
            sfld = stores[0]["field"] if stores else None
            same = one and gfld is not None and re.sub(r"\.0$", "", sfld) == re.sub(r"\.0$", "", gfld)
            R.ob("setter-writes-one-field", key, one and same,
                 "%s stores %s; getter reads %s" % (H.last(info["set"]), [s["field"] for s in stores], gfld), F.loc(g))
            if not one:
                continue
            st = stores[0]
            want = layout.get(pname)
            if want is None:
                R.ob("width-discipline", key, False, "no reference layout entry", F.loc(g))
                continue
            w = L.parse_spec(want)
            if w[0] == "bytes":
                # (f) address setters parse the text with the address type's from_str and store the whole value
                txt = H.render(H.normal(F, H.body_of(g), keep=("from_str",)))
                ok = "Address::from_str(" in txt and "Object::Str" in str(si["kinds"]) or ("Str" in si["kinds"] and "from_str(" in txt)
                R.ob("address-setter", key, ok and st["cast"] is None, "parses the text with from_str and stores the address; kinds %s" % si["kinds"], F.loc(g))
                continue
            width = len(w[1])
            # (c) width discipline
            lo = hi = None
            for (glo, ghi, txt) in si["guards"]:
                lo = glo if glo is not None else lo
                hi = ghi if ghi is not None else hi
            cast_w = C.width_of(st["cast"]) if st["cast"] else None
            mask = st["mask"]
            if "Bool" in si["kinds"] and width == 1:
                disc, why = True, "boolean value for a 1-bit field"
            elif lo == 0 and hi is not None:
                disc = hi == (1 << width) - 1
                why = "range-checked to [0, %d]; wire width %d bits allows [0, %d]" % (hi, width, (1 << width) - 1)
            elif mask is not None:
                disc = mask == (1 << width) - 1
                why = "masked with %#x; wire width %d bits" % (mask, width)
            elif cast_w is not None:
                disc = cast_w == width
                why = "reduced by `as %s` (%d bits); wire width %d bits" % (st["cast"], cast_w, width) + \
                    ("" if disc else ": the storage type is wider than the field, excess bits can reach a neighbouring field")
            else:
                disc, why = False, "no range test, mask or narrowing cast"
            R.ob("width-discipline", key, disc, why, F.loc(g))
            # (e) a rejected value leaves the packet unchanged: the range test comes before the store
            if si["guards"]:
                order = si["order"]
                R.ob("reject-before-store", key, "store" in order and "guard" in order and order.index("guard") < order.index("store"),
                     "order of range test and store: %s" % order, F.loc(g))
            # (d) encoder sends the field to the reference range, decoder reads it back from there
            fkey = re.sub(r"\.0$", "", sfld)
            pos = enc_pos.get(fkey, {})
            wantpos = [(b, j) for (b, j) in reversed(w[1])]      # LSB first
            gotpos = [pos.get(i) for i in range(width)]
            d = dec.get(fkey)
            back = [(o[1], o[2]) if isinstance(o, tuple) and o[0] == "in" else None for o in (d[:width] if isinstance(d, list) else [])]
            # bits shared with another field inside one byte are '?' in the raw encoder map; use the read-only map of C15 for those
            if None in gotpos:
                encb2, _ = C.encode_bytes(F, spec["encoder"], known=dec)
                pos2 = {}
                kk = 0
                for byte in encb2:
                    if isinstance(byte, tuple):
                        continue
                    for j, o in enumerate(byte):
                        if isinstance(o, tuple) and o[0] == "fld":
                            nm = o[1]
                            while nm not in dec and nm.endswith(".0"):
                                nm = nm[:-2]
                            if nm == fkey:
                                pos2[o[2]] = (kk, j)
                    kk += 1
                gotpos = [pos2.get(i) for i in range(width)]
            R.ob("field-round-trip", key, gotpos == wantpos and back == wantpos,
                 "field %s is encoded at %s and decoded from %s; reference %s" % (fkey, fmtpos(gotpos), fmtpos(back), want), F.loc(g))
    R.count("writable field properties checked", n)
    R.floor("writable field properties", n, 45)


def fmtpos(ps):
    return " ".join("b%d.%d" % p if p else "?" for p in reversed(ps))
