"""C11 — pure builtins: acceptance contracts (round-trip and sortedness laws are
value-level and not decided)."""
import json
import os
import re

from .lib import hir as H
from .lib import audit_run
from .lib import objtables as T
from .lib import facts as factsmod
from .lib.tables import builtin_table

EXPL = ("(a) Acceptance table (E2): for each of the 23 builtins the property names, the set of (arity, argument kind per "
        "position) that can reach Ok versus only Err is computed by partial evaluation of the function's HIR under every "
        "arity 0..4 and every kind vector, and compared — both ways — with the table transcribed from "
        "docs/language/builtins.md (tables/doc_kinds.json, one citation per row); in particular a wrong kind must end "
        "in Err, not Ok(null). (b) Every args[k] is dominated by an arity test implying len > k (E1 guard facts). (c) "
        "call_builtin prefixes the error with builtin.name. (d) Registry: BUILTINFNS has one entry per documented name, "
        "names are unique, and the function registered under n is builtin_n (or n). (e) Representation agreement used "
        "by the laws: len(Str)/encode_utf8 are byte-based, chars/join char-based. Numeric/text results are not decided.")

BF = "builtins::functions::"
KINDS = None


ARGS_NAMES = {"args"}


def arity_value(c, n):
    """evaluate a condition over args.len() / args.is_empty() for len == n → True/False/None"""
    c = H.strip(c)
    k = c.get("k")
    if k == "bin":
        op = c["op"]
        if op in ("&&", "||"):
            l, r = arity_value(c["l"], n), arity_value(c["r"], n)
            if op == "&&":
                if l is False or r is False:
                    return False
                return True if (l and r) else None
            if l is True or r is True:
                return True
            return False if (l is False and r is False) else None
        l, r = H.strip(c["l"]), H.strip(c["r"])
        if l.get("k") == "mcall" and l["m"] == "len" and H.render(H.strip(l["recv"])) in ARGS_NAMES and r.get("k") == "lit" and r["lk"] == "int":
            v = r["v"]
            return {"==": n == v, "!=": n != v, "<": n < v, "<=": n <= v, ">": n > v, ">=": n >= v}.get(op)
        return None
    if k == "un" and c["op"] == "!":
        v = arity_value(c["e"], n)
        return None if v is None else (not v)
    if k == "mcall" and c["m"] == "is_empty" and H.render(H.strip(c["recv"])) in ARGS_NAMES:
        return n == 0
    return None


def arg_of(n, aliases):
    """index i if n denotes args[i] (possibly through .as_ref()/clone/alias), else None"""
    n = H.strip(n)
    if H.is_local(n) and H.local_id(n) in aliases:
        return aliases[H.local_id(n)]
    if n.get("k") == "index" and H.render(H.strip(n["e"])) in ARGS_NAMES:
        i = H.strip(n["i"])
        if i.get("k") == "lit":
            return i["v"]
    return None


_F = None
_helper_stack = []


def helper_result(x, kinds, aliases):
    """abstract result of `args[i].helper()` for the kind the vector gives args[i], when `helper` is a function of the
    repository whose body is a `match self { Variant.. => .. }`: 'true' / 'false' / 'Some' / 'None', or None (unknown)"""
    x = H.strip(x)
    if x.get("k") != "mcall" or _F is None:
        return None
    r = H.strip(x["recv"])
    while r.get("k") == "mcall" and r["m"] in ("as_ref", "clone", "borrow", "deref"):
        r = H.strip(r["recv"])
    i = arg_of(r, aliases)
    if i is None or i >= len(kinds):
        return None
    g = _F.fn(x.get("callee") or "")
    if g is None or H.body_of(g) is None:
        return None
    m = T.top_match(g)
    if m is None or H.render(H.strip(m["scrut"])) not in ("self", "*self"):
        b = H.strip(H.body_of(g))
        while b.get("k") == "block" and not b.get("stmts") and b.get("expr") is not None:
            b = H.strip(b["expr"])
        if b.get("k") == "match" and b.get("src") == "Normal" and H.render(H.strip(b["scrut"])) in ("self", "*self"):
            m = b
        else:
            return None
    for a in m["arms"]:
        vs = {H.last(v) for v in H.pat_variants(a["pat"])}
        if kinds[i] in vs or "*" in vs:
            if a.get("guard") is not None:
                return None
            b = H.strip(a["body"])
            while b.get("k") == "block" and not b.get("stmts") and b.get("expr") is not None:
                b = H.strip(b["expr"])
            if b.get("k") == "lit" and b.get("lk") == "bool":
                return "true" if b["v"] else "false"
            c = H.last(H.ctor_of(b) or "")
            if c in ("Some", "None"):
                return c
            if b.get("k") == "path" and H.last(b["res"].get("path") or "") == "None":
                return "None"
            return None
    return None


def outcomes(body, n, kinds):
    """set of outcomes {'ok','err'} reachable for arity n and kind vector `kinds`"""
    out = set()
    aliases = {}

    def pat_kind(p):
        vs = H.pat_variants(p)
        return {H.last(v) for v in vs}

    def go(x):
        """returns True if control can fall through"""
        if x is None:
            return True
        k = x.get("k")
        if k == "block":
            for s in x.get("stmts", []):
                if s["k"] == "let":
                    init = s.get("init")
                    if init is not None:
                        i = arg_of(init, aliases)
                        if i is not None and s["pat"].get("k") == "bind":
                            aliases[s["pat"]["id"]] = i
                        if not go(init):
                            return False
                else:
                    if not go(s["e"]):
                        return False
            if x.get("expr") is not None:
                return value(x["expr"])
            return True
        return value(x)

    def value(x):
        k = x.get("k")
        if k == "block":
            return go(x)
        if k == "ret":
            value_leaf(x.get("e"))
            return False
        if k == "if":
            c = x["c"]
            cs = H.strip(c)
            v = arity_value(c, n)
            if v is None and cs.get("k") == "let":
                i = arg_of(cs["init"], aliases)
                if i is not None and i < len(kinds):
                    pk = pat_kind(cs["pat"])
                    v = (kinds[i] in pk) or ("*" in pk)
                else:
                    hr = helper_result(cs["init"], kinds, aliases)
                    if hr in ("Some", "None"):
                        v = hr in pat_kind(cs["pat"])
            if v is None:
                neg = False
                cc = cs
                while cc.get("k") == "un" and cc.get("op") == "!":
                    neg, cc = not neg, H.strip(cc["e"])
                hr = helper_result(cc, kinds, aliases)
                if hr in ("true", "false"):
                    v = (hr == "true") != neg
            if v is True:
                return value(x["t"])
            if v is False:
                return value(x["e"]) if "e" in x else True
            a = value(x["t"])
            b = value(x["e"]) if "e" in x else True
            return a or b
        if k == "match" and not H.is_try(x):
            sc = H.strip(x["scrut"])
            if sc.get("k") == "tup":
                # `match (args[0].as_ref(), args[1].as_ref()) { (Float(f), Integer(n)) => .., (Float(_), _) => .., _ => .. }`
                idxs = [arg_of(e, aliases) for e in sc.get("es", [])]
                if idxs and all(i is not None and i < len(kinds) for i in idxs):
                    def tmatch(p):
                        while p.get("k") in ("ref", "deref"):
                            p = p["pat"]
                        if p.get("k") in ("wild",) or (p.get("k") == "bind" and "sub" not in p):
                            return True
                        if p.get("k") == "or":
                            return any(tmatch(q) for q in p["pats"])
                        if p.get("k") == "tuple" and len(p["pats"]) == len(idxs):
                            return all((kinds[i] in pat_kind(sp)) or ("*" in pat_kind(sp)) for i, sp in zip(idxs, p["pats"]))
                        return None
                    undecided = False
                    for a in x["arms"]:
                        tm = tmatch(a["pat"])
                        if tm is None or (tm and a.get("guard") is not None):
                            undecided = True
                            break
                        if tm:
                            return value(a["body"])
                    if not undecided:
                        return True
            i = arg_of(x["scrut"], aliases)
            if i is not None and i < len(kinds):
                for a in x["arms"]:
                    pk = pat_kind(a["pat"])
                    if kinds[i] in pk or "*" in pk:
                        return value(a["body"])
                return True
            hr = helper_result(x["scrut"], kinds, aliases)
            if hr is not None:
                for a in x["arms"]:
                    pk = pat_kind(a["pat"])
                    lit = H.strip(a["pat"]).get("lit", {}).get("v") if a["pat"].get("k") == "plit" else None
                    if hr in pk or "*" in pk or (lit is True and hr == "true") or (lit is False and hr == "false") or a["pat"].get("k") in ("wild", "bind"):
                        return value(a["body"])
            cont = False
            for a in x["arms"]:
                cont = value(a["body"]) or cont
            return cont
        if H.is_try(x):
            inner = H.untry(x)
            # `Err(..)?` is an error exit; `f(..)?` may be either
            if H.last(H.ctor_of(H.strip(inner)) or "") == "Err":
                out.add("err")
                return False
            if inner.get("k") in ("call", "mcall"):
                # a checking helper of the repository that is handed the argument vector (`expect_one_arg(&args)?`):
                # evaluate it for this arity / kind vector instead of assuming it may fail
                g = _F.fn(inner.get("callee") or "") if _F is not None else None
                gb = H.body_of(g) if g else None
                if gb is not None and len(_helper_stack) < 3 and g["path"] not in _helper_stack:
                    ps = g["hir"]["params"]
                    al = [p.get("name") for p, a in zip(ps, inner.get("args", [])) if p.get("k") == "bind" and H.render(H.strip(a)) in ARGS_NAMES]
                    if al:
                        added = [a for a in al if a not in ARGS_NAMES]
                        ARGS_NAMES.update(added)
                        _helper_stack.append(g["path"])
                        try:
                            sub = outcomes(gb, n, kinds)
                        finally:
                            _helper_stack.pop()
                            for a in added:
                                ARGS_NAMES.discard(a)
                        if "err" in sub:
                            out.add("err")
                        return "ok" in sub
                out.add("err")
            return True
        if k == "loop":
            go(x["body"])
            return True
        value_leaf(x)
        return True

    def value_leaf(x):
        if x is None:
            return
        xs = H.strip(x)
        c = H.last(H.ctor_of(xs) or "")
        if c == "Ok":
            out.add("ok")
        elif c == "Err":
            out.add("err")
        elif xs.get("k") in ("if", "match", "block"):
            value(xs)
        elif xs.get("k") in ("call", "mcall") and xs.get("ty", "").startswith("std::result::Result<std::rc::Rc<object::Object>"):
            out.add("ok")
            out.add("err")
    # the function body's value is its result
    b = body
    if b.get("k") == "block":
        for s in b.get("stmts", []):
            if s["k"] == "let":
                init = s.get("init")
                if init is not None:
                    i = arg_of(init, aliases)
                    if i is not None and s["pat"].get("k") == "bind":
                        aliases[s["pat"]["id"]] = i
                    if not value(init):
                        return out
            else:
                if not value(s["e"]):
                    return out
        if b.get("expr") is not None:
            e = b["expr"]
            if value(e) is not False:
                pass
    return out


def run(F, R, tier):
    global _F
    _F = F
    R.explanation = EXPL
    R.assumptions += ["A5: tables/doc_kinds.json is a correct transcription of docs/language/builtins.md (each row quotes its sentence)"]
    tab = builtin_table(F, R)
    if tab is None:
        return
    names = [n for n, _ in tab]
    reg = dict(tab)
    with open(os.path.join(factsmod.VERIF, "tables", "doc_kinds.json")) as fh:
        doc = json.load(fh)["builtins"]
    kinds_all = T.variants(F)
    R.floor("registered builtins", len(tab), 47)
    # ---- (d) registry ---------------------------------------------------------------------------------------------------
    R.ob("registry-unique", "builtin names are unique", len(set(names)) == len(names), "%d names" % len(names))
    for n, fn in tab:
        want = {BF + "builtin_" + n, BF + n}
        R.ob("registry-binding", n, fn in want and fn in F.fns, "registered function %s" % fn, nontrivial=(n in doc))
    docpath = os.path.join(F.repo, "docs/language/builtins.md")
    pk = os.path.join(F.repo, "docs/language/builtins-packet.md")
    documented = set()
    for pth in (docpath, pk):
        if os.path.exists(pth):
            documented |= set(re.findall(r'###\s*<a name="([a-z_0-9]+)"></a>', open(pth, encoding="utf-8").read()))
    R.ob("registry-documented", "every documented builtin name is registered", documented - {"argv"} <= set(names),
         "documented but not registered: %s" % sorted(documented - set(names) - {"argv"}))
    R.note("registered but not documented under builtins*.md: %s" % sorted(set(names) - documented))
    # ---- (a) acceptance table ---------------------------------------------------------------------------------------------
    n_cells = 0
    for name, spec in sorted(doc.items()):
        fn = reg.get(name)
        g = F.fn(fn) if fn else None
        if not R.anchor("builtin %s" % name, g):
            continue
        body = H.body_of(g)
        # helpers that are handed the builtin's work as a closure (`with_one_arg(args, |arg| ..)`) are read with the closure
        # applied; `let (a, b) = (&args[0], &args[1])` names two arguments
        takers = {c_.get("callee") for c_ in H.walk(body) if c_.get("k") in ("call", "mcall") and c_.get("callee") in F.fns and
                  any(H.strip(a_).get("k") == "closure" for a_ in c_.get("args", []))}
        if takers:
            body = H.beta(H.inline_helpers(F, body, max_size=400, skip=lambda c_: c_ not in takers))
        body = H.split_tuple_lets(body)
        npos = len(spec["args"])
        # arity
        for n in range(0, 5):
            vec_ok = False
            # try all kind vectors cheaply: documented kinds first, else any
            import itertools
            doms = [(ks if ks != "any" else ["Integer", "Str"]) for ks in spec["args"][:n]] + [["Integer"]] * max(0, n - npos)
            cand = list(itertools.islice(itertools.product(*doms), 200))
            for kv in cand:
                o = outcomes(body, n, list(kv))
                if "ok" in o:
                    vec_ok = True
            want = n in spec["arity"]
            n_cells += 1
            R.ob("builtin-arity", "%s/%d" % (name, n), vec_ok == want,
                 "arity %d %s (documented arities %s)" % (n, "accepted" if vec_ok else "rejected", spec["arity"]), F.loc(g),
                 nontrivial=(want or vec_ok))
        # kinds per position (at the largest documented arity)
        n = max(spec["arity"])
        for pos in range(npos):
            for k in kinds_all:
                import itertools
                doms = [(ks if ks != "any" else ["Integer", "Str"]) for ks in spec["args"][:n]]
                doms[pos] = [k]
                o = set()
                kv = None
                for cand in itertools.islice(itertools.product(*doms), 200):
                    oo = outcomes(body, n, list(cand))
                    if kv is None or ("ok" in oo and "ok" not in o):
                        kv = list(cand)
                    o |= oo
                acc = "ok" in o
                want = spec["args"][pos] == "any" or k in spec["args"][pos]
                n_cells += 1
                det = "%s(%s): %s; documented kinds at position %d: %s" % (
                    name, ", ".join(kv), "can succeed" if acc else ("only errors" if o == {"err"} else "outcomes %s" % sorted(o)), pos, spec["args"][pos])
                if acc and not want and o == {"ok"}:
                    det += " — a wrong kind is accepted silently"
                R.ob("builtin-kind", "%s arg%d %s" % (name, pos, k), acc == want, det, F.loc(g), nontrivial=(acc or want))
        # joint rows: the kinds one position accepts may depend on the kind at another (`get(array, index)` takes an
        # integer index, `get(map, key)` any key)
        for row in spec.get("joint", []):
            wpos, wkind = int(row["when"][0]), row["when"][1]
            pos = int(row["pos"])
            for k in kinds_all:
                kv = [(ks[0] if ks != "any" else "Integer") for ks in spec["args"][:n]]
                kv[wpos], kv[pos] = wkind, k
                o = outcomes(body, n, kv)
                acc = "ok" in o
                want = k in row["kinds"]
                n_cells += 1
                det = "%s(%s): %s; documented for %s at position %d: %s" % (
                    name, ", ".join(kv), "can succeed" if acc else ("only errors" if o == {"err"} else "outcomes %s" % sorted(o)), wkind, pos, row["kinds"])
                R.ob("builtin-kind", "%s arg%d %s (arg%d %s)" % (name, pos, k, wpos, wkind), acc == want, det, F.loc(g), nontrivial=(acc or want))
    R.count("acceptance cells evaluated", n_cells)
    R.floor("acceptance cells", n_cells, 500)
    # ---- (b) args[k] behind arity tests: E1 over the builtin functions ----------------------------------------------------------
    roots = [reg[n] for n in doc if n in reg]
    A, fns, keys = audit_run.run_audit(F, R, roots, lambda p, f: p in roots, "pure builtins", link_ops=False)
    # ---- (c) error prefix ------------------------------------------------------------------------------------------------------------
    cb = F.fn("vm::interpreter::VM::call_builtin")
    if R.anchor("VM::call_builtin", cb):
        from .lib import fmtargs as FA
        ok, det = False, "no Err arm over the builtin's result"
        for m in H.walk(H.body_inl(F, cb, keep=("new", "push", "pop"))):
            if m.get("k") != "match" or H.is_try(m):
                continue
            for a in m["arms"]:
                if {H.last(v) for v in H.pat_variants(a["pat"])} != {"Err"}:
                    continue
                payload = [y["id"] for y in H.walk(a["pat"]) if y.get("k") == "bind"]
                sites = FA.sites(a["body"])
                shapes = []
                for _, parts in sites:
                    shape = []
                    for pt in parts:
                        if pt[0] == "lit":
                            shape.append(pt[1])
                        else:
                            e = H.strip(pt[1])
                            shape.append("<payload>" if H.local_id(e) in payload else "<%s>" % H.render(e))
                    shapes.append(shape)
                rt = [c for c in H.walk(a["body"]) if c.get("k") == "call" and (c.get("callee") or "").endswith("RTError::new")] or \
                    [c for c in H.walk(H.body_inl(F, cb, keep=("new", "push", "pop"))) if c.get("k") == "call" and (c.get("callee") or "").endswith("RTError::new")]
                errs = [c for c in H.walk(a["body"]) if c.get("k") == "call" and H.last(c.get("ctor") or "") == "Err"]
                det = "message template(s) %s; RTError::new: %d; Err(..): %d" % (shapes, len(rt), len(errs))
                ok = shapes == [["<builtin.name>", ": ", "<payload>"]] and len(rt) == 1 and len(errs) == 1
        txt = det
        R.ob("error-names-builtin", "call_builtin builds the message from builtin.name and the callee's text", ok, txt[:200], F.loc(cb))
    # ---- (e) representation agreement -----------------------------------------------------------------------------------------------------
    def callees(fn):
        g = F.fn(reg.get(fn, ""))
        return {c.get("callee") for c in H.walk(H.body_of(g)) if c.get("k") in ("call", "mcall") and c.get("callee")} if g else set()
    R.ob("representation", "len(Str) is byte-based (String::len)", "std::string::String::len" in callees("len"), "")
    BYTES = {"std::string::String::as_bytes", "core::str::<impl str>::as_bytes", "core::str::<impl str>::bytes", "std::string::String::into_bytes"}
    R.ob("representation", "encode_utf8 emits the string's bytes (as_bytes / bytes / into_bytes)", bool(BYTES & callees("encode_utf8")), str(sorted(BYTES & callees("encode_utf8"))))
    R.ob("representation", "chars splits by char (str::chars)", "core::str::<impl str>::chars" in callees("chars"), "")
    # sort(a) is a non-decreasing permutation *under the language's own ordering of values*: the sort is std's, by Object's Ord
    # (`sort()` / `sort_by(|a, b| a.cmp(b))`), never by a derived key (an f64 image of an i64 merges neighbours above 2^53)
    gs_ = F.fn(reg.get("sort", ""))
    if gs_ is not None:
        sb_ = H.normal(F, H.body_of(gs_))
        sorts = [c for c in H.walk(sb_) if c.get("k") == "mcall" and c["m"].startswith("sort")]
        def own_order(c):
            if c["m"] in ("sort", "sort_unstable"):
                return True
            if c["m"] in ("sort_by", "sort_unstable_by") and c.get("args") and H.strip(c["args"][0]).get("k") == "closure":
                cl = H.strip(c["args"][0])
                ps_ = [q.get("id") for q in cl.get("params", []) if q.get("k") == "bind"]
                bd = H.strip(cl["body"])
                return len(ps_) == 2 and bd.get("k") == "mcall" and bd["m"] in ("cmp",) and H.local_id(H.strip(bd["recv"])) == ps_[0] and \
                    len(bd.get("args", [])) == 1 and H.local_id(H.strip(bd["args"][0])) == ps_[1]
            return False
        R.ob("representation", "sort orders the values by their own ordering (no derived key)", len(sorts) >= 1 and all(own_order(c) for c in sorts),
             str([H.render(c)[:60] for c in sorts]), F.loc(gs_))
    R.ob("representation", "join appends chars (String::push)", "std::string::String::push" in callees("join"), "")
    # int(str(n)) == n and float(str(x)) == x need the text to be parsed in the number's own type: a detour through
    # another numeric type (an i64 read as f64 and cast back) loses integers above 2^53
    for fn, ty in (("int", "i64"), ("float", "f64")):
        g = F.fn(reg.get(fn, ""))
        if R.anchor("builtin %s" % fn, g):
            ps = [c.get("ty", "") for c in H.walk(H.body_of(g)) if c.get("k") == "mcall" and (c.get("callee") or "").endswith("::parse")]
            R.ob("representation", "%s(Str) parses the text as %s" % (fn, ty), len(ps) == 1 and ps[0].startswith("std::result::Result<%s," % ty), str(ps), F.loc(g))
    R.ob("representation", "decode_utf8 uses String::from_utf8", "std::string::String::from_utf8" in callees("decode_utf8"), "")
    # char(x) / byte(x) of a float: one saturating cast from f64 to the code-unit type (u32 for a code point, u8 for a byte).
    # A detour through a wider integer (`f as i64 as u32`) wraps modulo 2^32 / 2^8 where the single cast saturates, so
    # out-of-range floats stop giving the documented null / 0 and in-range results appear for them.
    from .lib import mir as M
    for fn, unit in (("char", "u32"), ("byte", "u32")):
        g = F.fn(reg.get(fn, ""))
        if not R.anchor("builtin %s" % fn, g and g.get("mir")):
            continue
        casts = []
        # the builtin's own body and the closures written in it (the work may be handed to a helper as a closure)
        for q_, gq in F.fns.items():
            if not (q_ == g["path"] or q_.startswith(g["path"] + "::{closure")) or not gq.get("mir"):
                continue
            for b_ in gq["mir"]["blocks"]:
                if b_.get("cleanup"):
                    continue
                for st in b_["stmts"]:
                    rv = st.get("rv") or {}
                    if st.get("k") == "assign" and rv.get("k") == "cast" and rv.get("ck") == "FloatToInt":
                        casts.append(rv.get("ty"))
        R.ob("representation", "%s(Float) converts with a single cast to %s" % (fn, unit), bool(casts) and set(casts) == {unit},
             "float-to-integer casts in builtin_%s: %s" % (fn, casts), F.loc(g))
