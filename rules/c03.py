"""C03 — expressions group according to the documented precedence table.

Decided: the binding relation the Pratt parser implements (token → precedence,
associativity, operand precedence of every prefix/infix parser, comparator of
the loop) equals the documented table, exhaustively over the operator set.
"""
import re

from .lib import hir as H
from .lib import decide as D
from .lib import facts as factsmod
from .lib.tables import parse_rules_table, scanner_glyphs, doc_precedence_rows

EXPL = ("Table agreement (E2) + skeleton-parameter extraction (E3) on the type-checked HIR: Precedence "
        "discriminants, every PARSE_RULES assignment, the scanner's glyph->token map, the documented table of "
        "docs/language/expression-precedence.md, and the parameters of the Pratt skeleton (comparators per "
        "associativity, operand precedence passed by each prefix/infix parser, match-pattern override). "
        "Exhaustive over the property's operator set; decides the binding relation, not evaluation results.")

BINARY = ["*", "/", "%", "+", "-", "<<", ">>", "&", "^", "|", "==", "!=", "<", ">", "<=", ">=", "&&", "||"]
PREFIX = ["!", "-", "~"]


def run(F, R, tier):
    R.explanation = EXPL
    R.assumptions += ["the parser is a Pratt loop driven by PARSE_RULES (read, not proved)",
                      "derive(PartialOrd) on a field-less enum orders by discriminant (Rust semantics)"]
    prec = F.enum_variants("parser::precedence::Precedence")
    if not R.anchor("enum parser::precedence::Precedence", prec):
        return
    level = {n: d for n, d in prec}
    # derived PartialOrd → ordering by discriminant
    po = [f for f in F.fns.values() if f["path"].startswith("<parser::precedence::Precedence as std::cmp::PartialOrd>::")]
    R.ob("precedence-order-derived", "Precedence: PartialOrd is derived",
         bool(po) and all("derive" in f.get("mac", "") for f in po),
         "comparison of precedences is the discriminant order", nontrivial=False)

    rules = parse_rules_table(F, R)
    glyph = scanner_glyphs(F, R)
    rows = doc_precedence_rows(F, R)
    if not rules or not glyph or not rows:
        return
    R.floor("PARSE_RULES assignments", len(rules), 47)
    R.floor("scanner glyphs", len(glyph), 30)
    R.floor("documented precedence rows", len(rows), 14)
    R.count("PARSE_RULES entries", len(rules))
    R.count("scanner glyph arms", len(glyph))

    def rule_of(g):
        t = glyph.get(g)
        if t is None:
            return None, None
        return t, rules.get(t, {"prefix": None, "infix": None, "prec": "Lowest", "assoc": "Left", "default": True})

    # ---- (A) every binary operator: token, infix parser, associativity -----
    bin_level = {}
    for op in BINARY:
        t, r = rule_of(op)
        if not R.ob("glyph-token", "binary %s" % op, t is not None, "scanner maps '%s' to %s" % (op, t)):
            continue
        R.ob("binary-infix-parser", "binary %s" % op, r["infix"] == "parse_infix_expression",
             "token %s infix=%s" % (t, r["infix"]), loc="src/parser/rules.rs")
        R.ob("binary-left-assoc", "binary %s" % op, r["assoc"] == "Left",
             "token %s associativity=%s (equal precedence must group left to right)" % (t, r["assoc"]))
        bin_level[op] = level.get(r["prec"], -1)
        R.ob("binary-has-precedence", "binary %s" % op, level.get(r["prec"], 0) > level["Assignment"],
             "token %s precedence=%s" % (t, r["prec"]))

    # ---- (B) documented rows: equal inside a row, strictly decreasing -------
    def row_level(ops, label):
        lv = set()
        for op in ops:
            if op in ("[]", "()", "."):
                g = {"[]": "[", "()": "(", ".": "."}[op]
                t, r = rule_of(g)
                lv.add((op, level.get(r["prec"], -1) if r else -1))
            elif op == "=":
                t, r = rule_of("=")
                lv.add((op, level.get(r["prec"], -1)))
            elif op in ("..", "..="):
                t, r = rule_of(op)
                lv.add((op, level.get(r["prec"], -1) if r else -1))
            elif op in BINARY:
                lv.add((op, bin_level.get(op, -1)))
        return lv

    prev = None
    seen_ops = set()
    for i, (ops, note, assoc) in enumerate(rows):
        if "Unary" in note:
            # prefix operators bind at the operand precedence parse_prefix_expression passes
            lvls = {("prefix", level["Unary"])}
        elif "match pattern" in note:
            lvls = {("|match", level["MatchOr"])}
        else:
            lvls = row_level(ops, note)
        vals = {v for _, v in lvls}
        R.ob("doc-row-uniform", "row %d: %s" % (i, " ".join(ops) + (" " + note if note else "")),
             len(vals) == 1 and -1 not in vals,
             "levels %s" % sorted(lvls), loc="docs/language/expression-precedence.md")
        cur = max(vals) if vals else -1
        if prev is not None:
            R.ob("doc-rows-decreasing", "row %d below row %d" % (i, i - 1), cur < prev,
                 "level %d must be lower than %d" % (cur, prev), loc="docs/language/expression-precedence.md")
        prev = min(vals) if vals else -1
        seen_ops |= set(ops)
    for op in BINARY:
        R.ob("doc-covers-operator", "binary %s" % op, op in seen_ops, "operator appears in the documented table")

    # assignment: right associative, lowest binary level
    t, r = rule_of("=")
    R.ob("assign-right-assoc", "=", r and r["assoc"] == "Right" and r["infix"] == "parse_assignment_expression"
         and r["prec"] == "Assignment", "token %s: %s" % (t, r))
    # call/index bind tighter than unary, unary tighter than factor
    for g, want in (("(", "parse_call_expression"), ("[", "parse_index_expression")):
        t, r = rule_of(g)
        R.ob("postfix-parser", g, r and r["infix"] == want and level.get(r["prec"], 0) > level["Unary"],
             "token %s: infix=%s prec=%s" % (t, r and r["infix"], r and r["prec"]))
    R.ob("unary-above-factor", "Unary > Factor", level["Unary"] > level["Factor"] and level["Call"] > level["Unary"],
         "Call=%d Unary=%d Factor=%d" % (level["Call"], level["Unary"], level["Factor"]))
    for op in PREFIX:
        t, r = rule_of(op)
        R.ob("prefix-parser", "prefix %s" % op, r and r["prefix"] == "parse_prefix_expression",
             "token %s prefix=%s" % (t, r and r["prefix"]))

    # ---- (C) skeleton parameters ---------------------------------------
    P = "parser::rules::<impl parser::Parser>::"

    def fn(name, impl=P):
        f = F.fn(impl + name)
        R.anchor(impl + name, f)
        return f

    # C1 comparator per associativity in peek_valid_expression: the function's decision table against the reference
    # (false on `;` and end of input; otherwise `precedence < peek` for a left-associative next token and
    # `precedence <= peek` for a right-associative one) — however the function spells it
    f = fn("peek_valid_expression")
    if f:
        rows, why = D.table(F, f, keep=("peek_precedence",))
        if rows is None:
            R.ob("comparator", "peek_valid_expression is a decision over the next token", False, why, F.loc(f))
        else:
            roles = [(r"^self\.peek_next\.ttype : TokenType$", "tok"), (r"associativity.* : Associativity$|peek_associativity\(\) : Associativity$", "assoc"),
                     (r"^precedence < self\.peek_precedence\(\)$", "lt"), (r"^self\.peek_precedence\(\) < precedence$", "gt")]
            doms = {"tok": ("Semicolon", "Eof", "other"), "assoc": ("Left", "Right"), "lt": (True, False), "gt": (True, False)}

            def ref(e):
                if e["lt"] and e["gt"]:
                    return None
                if e["tok"] in ("Semicolon", "Eof"):
                    return False
                return e["lt"] if e["assoc"] == "Left" else (not e["gt"])
            ok, det = D.check(rows, roles, doms, ref)
            R.ob("comparator", "Left uses <, Right uses <=, never past `;` or the end of input", ok, det, F.loc(f))

    # C2 operand precedence of each prefix/infix parser
    def pe_args(name, impl=P):
        f = fn(name, impl)
        if not f:
            return None, []
        cs = [c for c in H.calls_to(ibody(f), r"parser::Parser::parse_expression$")]
        return f, cs

    KEEP = ("parse_expression", "curr_precedence", "peek_precedence", "next_token", "peek_valid_expression", "peek_infix", "curr_prefix")
    _ib = {}

    def ibody(f):
        """the function's body with its small helpers inlined (a helper that parses `the right operand` is part of it)"""
        if f["path"] not in _ib:
            _ib[f["path"]] = H.body_inl(F, f, keep=KEEP)
        return _ib[f["path"]]

    def arg_origin(f, arg):
        """classify the precedence argument: ctor name, or the call that initialises the local"""
        c = H.ctor_of(arg)
        if c:
            return "const:" + H.last(c)
        if H.is_local(arg):
            lid = H.local_id(arg)
            inits = []
            writes = 0
            for x in H.walk(ibody(f)):
                if x.get("k") == "let" and x["pat"].get("k") == "bind" and x["pat"]["id"] == lid and "init" in x:
                    inits.append(H.render(x["init"]))
                if x.get("k") in ("assign", "assignop") and H.local_id(x["l"]) == lid:
                    writes += 1
            for p in f["hir"]["params"]:
                if p.get("k") == "bind" and p["id"] == lid:
                    inits.append("param")
            return "local:%s%s" % ("|".join(inits), "+reassigned" if writes else "")
        return "expr:" + H.render(arg)

    expect = {
        "parse_prefix_expression": ["const:Unary"],
        "parse_infix_expression": ["local:self.curr_precedence()"],
        "parse_assignment_expression": ["local:self.curr_precedence()"],
        "parse_grouped": ["const:Assignment"],
        "parse_index_expression": ["const:Assignment"],
        "parse_expression_list": ["const:Assignment", "const:Assignment"],
    }
    for name, want in expect.items():
        f, cs = pe_args(name)
        if not f:
            continue
        got = [arg_origin(f, c["args"][0]) for c in cs]
        R.ob("operand-precedence", name, got == want, "parse_expression called with %s (want %s)" % (got, want), F.loc(f))
    # infix parser: curr_precedence() read before next_token(), operands not swapped
    for name, struct in (("parse_infix_expression", "BinaryExpr"),):
        f = F.fn(P + name)
        if not f:
            continue
        order = [H.last(c.get("callee")) for c in H.walk(ibody(f)) if c.get("k") in ("call", "mcall")
                 and H.last(c.get("callee") or "") in ("curr_precedence", "next_token", "parse_expression")]
        R.ob("infix-sequence", name, order == ["curr_precedence", "next_token", "parse_expression"],
             "call order %s" % order, F.loc(f))
        st = [x for x in H.walk(ibody(f)) if x.get("k") == "struct" and H.last(x["res"].get("path")) == struct]
        ok = False
        if st:
            fl = {fd["name"]: H.render(H.strip(fd["e"])) for fd in st[0]["fields"]}
            ok = fl.get("left", "").endswith("(left)") and fl.get("right", "").endswith("(right)")
            det = str({k: fl.get(k) for k in ("left", "right", "operator")})
        else:
            det = "no BinaryExpr literal"
        R.ob("infix-operands", name, ok, det, F.loc(f))

    # C3 curr_/peek_precedence: table entry of the right token, MatchOr exactly under in_match_pattern for '|'
    for name, tok in (("curr_precedence", "current"), ("peek_precedence", "peek_next")):
        f = fn(name)
        if not f:
            continue
        rows, why = D.table(F, f)
        if rows is None:
            R.ob("precedence-lookup", name, False, why, F.loc(f))
            continue
        roles = [(r"^self\.in_match_pattern$", "inpat"), (r"^self\.%s\.ttype : TokenType$" % tok, "tok")]
        doms = {"inpat": (True, False), "tok": ("BitwiseOr", "other")}
        entry = "PARSE_RULES[self.%s.ttype as usize].precedence" % tok
        ok, det = D.check(rows, roles, doms, lambda e: "Precedence::MatchOr" if (e["inpat"] and e["tok"] == "BitwiseOr") else entry)
        R.ob("precedence-lookup", name, ok, det, F.loc(f))
    for name, tok, field in (("peek_infix", "peek_next", "infix"), ("curr_prefix", "current", "prefix"),
                             ("peek_associativity", "peek_next", "associativity")):
        f = fn(name)
        if not f:
            continue
        rows, why = D.table(F, f)
        want = "PARSE_RULES[self.%s.ttype as usize].%s" % (tok, field)
        ok = rows is not None and len(rows) == 1 and rows[0][1] == want and not rows[0][0]
        R.ob("table-lookup", name, ok, why or "; ".join("%s when %s" % (r, e or "always") for e, r in rows), F.loc(f))

    # C4 in_match_pattern written only in parse_match_pattern, as a true/false pair
    writers = {}
    for g in F.fns.values():
        b = H.body_of(g)
        if b is None:
            continue
        for (fld, base, rhs, node) in H.assigned_fields(b):
            if fld == "in_match_pattern":
                writers.setdefault(g["path"], []).append(H.render(rhs))
    R.ob("match-flag-writers", "in_match_pattern", list(writers.keys()) == [P + "parse_match_pattern"]
         and writers[P + "parse_match_pattern"] == ["true", "false"], str(writers))

    # ... and as a *pair on every path*: once the flag is raised, no return of parse_match_pattern is reached without passing
    # the assignment that lowers it again (an early `return Ok(..)` between the two leaves `|` with the pattern precedence for
    # the rest of the program).  Must-pass-through on the MIR.
    pm = F.fn(P + "parse_match_pattern")
    if pm is not None and pm.get("mir"):
        from .lib import mir as M_
        Bp = M_.Body(pm)
        ups, downs = [], []
        for bi, b_ in enumerate(Bp.blocks):
            if b_.get("cleanup"):
                continue
            for st in b_["stmts"]:
                if st["k"] == "assign" and st["lhs"]["p"] and isinstance(st["lhs"]["p"][-1], dict) and st["lhs"]["p"][-1].get("n") == "in_match_pattern" \
                        and st["rv"]["k"] == "use" and st["rv"]["a"]["k"] == "const":
                    (ups if st["rv"]["a"].get("val") is True else downs).append(bi)
        rets = [bi for bi, b_ in enumerate(Bp.blocks) if b_["term"]["k"] == "return" and not b_.get("cleanup")]
        leaked = []
        for u in ups:
            if u in downs:
                continue
            reach = M_.reachable_avoiding(Bp, u, set(downs), through_start=True)
            leaked += [r for r in rets if r in reach]
        R.ob("match-flag-writers", "in_match_pattern is lowered again on every path to a return of parse_match_pattern", bool(ups) and bool(downs) and not leaked,
             "raised in bb%s, lowered in bb%s; returns reachable with the flag still raised: %s" % (ups, downs, sorted(set(leaked))), F.loc(pm))

    # C5 the Pratt loop hands `precedence` unchanged to peek_valid_expression
    f = fn("parse_expression", "parser::Parser::")
    if f:
        b = ibody(f)
        cs = H.calls_to(b, r"peek_valid_expression$")
        pid = None
        for p in f["hir"]["params"]:
            if p.get("k") == "bind" and p["name"] == "precedence":
                pid = p["id"]
        reassigned = any(x.get("k") in ("assign", "assignop") and H.local_id(x["l"]) == pid for x in H.walk(b))
        ok = len(cs) == 1 and H.local_id(cs[0]["args"][0]) == pid and not reassigned
        R.ob("pratt-loop", "precedence passed unchanged", ok, "calls=%d reassigned=%s" % (len(cs), reassigned), F.loc(f))
        # loop body: infix from peek_infix, advance, left_expr = infix(self, left_expr)
        loops = [x for x in H.walk(b) if x.get("k") == "loop"]
        txt = H.render(loops[0]) if loops else ""
        ok = bool(loops) and "self.peek_infix()" in txt and "self.next_token()" in txt and re.search(
            r"\b(\w+) = \w+\(self, \1\)", txt) is not None
        R.ob("pratt-loop", "infix applied to accumulated left operand", ok, txt[:200], F.loc(f))
        # the operator loop is left only when peek_valid_expression(precedence) says so (or there is no infix parser for
        # the next token): any other way out of the loop stops absorbing operators on some *syntactic* condition, so a
        # minimally parenthesised text groups differently from the fully parenthesised one
        bad_exits = []
        for lp in loops:
            def scan(n, conds):
                if isinstance(n, list):
                    for x in n:
                        scan(x, conds)
                    return
                if not isinstance(n, dict):
                    return
                k = n.get("k")
                if k == "closure":
                    return
                if k in ("break", "ret"):
                    txts = [H.render(c) for c in conds]
                    if not txts or not all(("peek_valid_expression" in t or "peek_infix" in t) for t in txts):
                        bad_exits.append("%s under %s" % (k, [t[:60] for t in txts if "peek_valid_expression" not in t and "peek_infix" not in t] or "no condition"))
                    return
                if k == "if":
                    scan(n["c"], conds)
                    scan(n["t"], conds + [n["c"]])
                    if n.get("e") is not None:
                        scan(n["e"], conds + [n["c"]])
                    return
                if k == "match" and not H.is_try(n):
                    scan(n["scrut"], conds)
                    for a in n["arms"]:
                        scan(a["body"], conds + [n["scrut"]] + ([a["guard"]] if a.get("guard") is not None else []))
                    return
                for v in n.values():
                    if isinstance(v, (dict, list)):
                        scan(v, conds)
            scan(lp.get("body"), [])
        R.ob("pratt-loop", "the operator loop has no exit other than peek_valid_expression / a missing infix parser", bool(loops) and not bad_exits,
             str(bad_exits[:4]), F.loc(f))
        pre = [x for x in H.walk(b) if x.get("k") == "let" and "curr_prefix" in H.render(x.get("init"))]
        R.ob("pratt-loop", "prefix parser from curr_prefix", bool(pre), "", F.loc(f))
