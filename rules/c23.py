"""C23 — REPL: rejected lines have no effect (second sentence of the property).

History equivalence with a script is not decided."""
import re

from .lib import hir as H
from .lib import mir as M

EXPL = ("Path rule (E3) on the loop of main::run_prompt: the state carried into the next iteration (symtab, constants, "
        "globals) on each rejection path must be the state that entered the iteration. Parse rejection: `continue` is "
        "reached before any of the three is moved or assigned. Compile rejection: on the path from the Err arm of "
        "compiler.compile to the back edge neither symtab nor constants is assigned from the failed compiler (its tables "
        "are tainted: let/fn names are defined before their value is compiled and function scopes are not left on error); "
        "they must be restored from copies taken before the compiler received them. Runtime error: globals are taken "
        "back from the VM and the compiler's tables kept (the line was accepted). VM and Compiler are fresh per line "
        "and the REPL passes its own (empty) argv. Decides the 'no effect' clause structurally; equivalence of "
        "accumulated output with a script is not decided.")


def run(F, R, tier):
    R.explanation = EXPL
    R.assumptions += ["a transactional Compiler::compile would also be correct but would be reported: the rule keys on today's design (DESIGN.md §3 C23)"]
    rp = F.fn("run_prompt")
    if not R.anchor("main::run_prompt", rp):
        return
    b = H.body_of(rp)
    loops = [x for x in H.walk(b) if x.get("k") == "loop" and x.get("src") == "Loop"]
    if not R.anchor("run_prompt: the read-eval loop", len(loops) >= 1):
        return
    lp = loops[0]
    # ---- (a) parse rejection: the None arm of parse_program is `continue` and nothing was assigned before it
    ms = [m for m in H.walk(lp) if m.get("k") == "match" and not H.is_try(m) and "parse_program" in H.render(m["scrut"])]
    ok = False
    if len(ms) == 1:
        for a in ms[0]["arms"]:
            if H.render_pat(a["pat"]) == "v1::None":
                ok = H.render(H.strip(a["body"])) == "continue"
    R.ob("parse-rejection", "parse errors → continue with untouched state", ok, H.render(ms[0])[:120] if ms else "", F.loc(rp))
    # statements of the per-line block in order
    seq = []

    def stmts_of(n):
        for x in H.walk(n):
            if x.get("k") == "block":
                txt = [H.render(s.get("e") or s.get("init") or {})[:60] for s in x.get("stmts", [])]
                if any("parse_program" in t for t in txt) or any("Compiler::new_with_state" in H.render(s) for s in x.get("stmts", [])):
                    return x
        return None
    blk = stmts_of(lp)
    if not R.anchor("run_prompt: per-line block", blk is not None):
        return
    state_vars = ("symtab", "constants", "globals")
    events = []
    for s in blk.get("stmts", []):
        if s["k"] == "let":
            nm = s["pat"].get("name") if s["pat"].get("k") == "bind" else None
            events.append(("let", nm, H.render(s.get("init"))[:80], s))
        else:
            events.append(("stmt", None, H.render(s["e"])[:80], s))
    # ---- (b) compile rejection -----------------------------------------------------------------------------------------
    comp = [x for x in H.walk(blk) if x.get("k") == "if" and "compiler.compile(program)" in H.render(x["c"]) and "Err" in H.render(x["c"])]
    if R.anchor("run_prompt: `if let Err(e) = compiler.compile(program)`", len(comp) == 1):
        br = comp[0]["t"]
        assigns = [(H.render(x["l"]), H.render(x["r"])) for x in H.walk(br) if x.get("k") == "assign"]
        tainted = [(l, r) for l, r in assigns if l in state_vars and r.startswith("compiler.")]
        R.ob("compile-rejection", "no state is taken from the failed compiler", not tainted,
             "assignments on the error path: %s" % assigns, F.loc(rp, comp[0].get("line")))
        # what is restored must be a copy taken before the compiler received the state
        saved = {}
        order = []
        for kind, nm, txt, s in events:
            if kind == "let" and nm and re.match(r"^(symtab|constants)\.clone\(\)$", txt):
                saved[nm] = txt.split(".")[0]
                order.append("save:" + nm)
            if "Compiler::new_with_state(symtab, constants)" in txt:
                order.append("compiler")
        restored = {l: r for l, r in assigns if l in ("symtab", "constants")}
        ok = set(restored) == {"symtab", "constants"} and all(saved.get(r) == l for l, r in restored.items()) and \
            order[-1:] == ["compiler"] and len(order) == 3
        R.ob("compile-rejection", "symtab and constants are restored from copies taken before Compiler::new_with_state", ok,
             "restored %s; saved %s; order %s" % (restored, saved, order), F.loc(rp, comp[0].get("line")))
        R.ob("compile-rejection", "the error path ends the iteration (continue) without running the VM", H.diverges(br) and "VM::" not in H.render(br), "", F.loc(rp))
    # ---- (c) runtime error: globals taken back, compiler tables kept -----------------------------------------------------------
    rte = [x for x in H.walk(blk) if x.get("k") == "if" and H.render(x["c"]).startswith("let v1::Err(err) = err")]
    if R.anchor("run_prompt: runtime-error branch", len(rte) == 1):
        assigns = {H.render(x["l"]): H.render(x["r"]) for x in H.walk(rte[0]["t"]) if x.get("k") == "assign"}
        R.ob("runtime-error-keeps-line", "globals := vm.globals, symtab/constants := compiler's", assigns == {
            "globals": "vm.globals", "symtab": "compiler.symtab", "constants": "compiler.constants"}, str(assigns), F.loc(rp))
    tail = {H.render(s["e"]["l"]): H.render(s["e"]["r"]) for s in blk.get("stmts", []) if s["k"] in ("semi", "expr") and s["e"].get("k") == "assign"}
    R.ob("accepted-line-state", "after a successful line: globals := vm.globals, symtab/constants := compiler's", tail == {
        "globals": "vm.globals", "symtab": "compiler.symtab", "constants": "compiler.constants"}, str(tail), F.loc(rp))
    # ---- (d) fresh VM / compiler per line, REPL argv ----------------------------------------------------------------------------
    txt = [t for _, _, t, _ in events]
    R.ob("fresh-per-line", "Compiler::new_with_state and VM::new_with_global_store are created inside the per-line block",
         any("Compiler::new_with_state(symtab, constants)" in t for t in txt) and any("VM::new_with_global_store(bytecode, globals)" in t for t in txt), "", F.loc(rp))
    R.ob("fresh-per-line", "init_builtin_vars(&vm, args.clone()) uses the REPL's argv", any(t.startswith("init_builtin_vars(&vm, args.clone())") for t in txt), "", F.loc(rp))
    # who constructs the globals vector: GLOBALS_SIZE entries
    for fn in ("run_prompt", "run_buf"):
        g = F.fn(fn)
        if g:
            inits = [H.render(x.get("init")) for x in H.walk(H.body_of(g)) if x.get("k") == "let" and x.get("pat", {}).get("name") == "globals"]
            R.ob("globals-size", "%s builds globals with GLOBALS_SIZE entries" % fn, inits == ["vec::from_elem(data, GLOBALS_SIZE)"], str(inits), F.loc(g))
    # ---- the session's constant pool and global store only grow ------------------------------------------------------------------
    # Code of an accepted line stays alive in closures and refers to constants by pool index and to globals by slot: the
    # REPL driver (main.rs) never shrinks or reorders a Vec<Rc<Object>> it carries from line to line (truncate / clear /
    # pop / remove / drain / retain / split_off / swap / sort); a rejected line is undone by putting back the saved copy.
    SHRINK = ("truncate", "clear", "pop", "remove", "swap_remove", "drain", "retain", "retain_mut", "split_off", "dedup", "swap", "sort", "sort_by", "reverse", "rotate_left", "rotate_right", "resize")
    shr = []
    for p_, g_ in sorted(F.fns.items()):
        if not g_["file"].endswith("src/main.rs") or H.body_of(g_) is None:
            continue
        for c in H.walk(H.body_of(g_)):
            if c.get("k") == "mcall" and c["m"] in SHRINK:
                rty = (c.get("recv_ty") or c["recv"].get("ty") or "")
                if "Rc<object::Object>" in rty and ("Vec<" in rty or "[" in rty):
                    shr.append("%s: %s.%s(..)" % (H.last(p_), H.render(c["recv"])[:30], c["m"]))
    R.ob("session-pools-append-only", "the REPL driver never shrinks or reorders the constant pool / global store it carries between lines", not shr,
         "; ".join(shr)[:300])
