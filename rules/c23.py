"""C23 — REPL: rejected lines have no effect (second sentence of the property).

History equivalence with a script is not decided."""
import re

from .lib import hir as H
from .lib import mir as M

EXPL = ("Value-provenance analysis (E3) of the read-eval loop of main::run_prompt over its MIR (helpers of main.rs inlined): the "
        "session state are the locals of the symbol-table / object-vector types that live across the loop's back edge. Every path "
        "of the loop body is explored with an abstract value per local (the value at the start of the iteration, a clone of it, the "
        "line's Compiler built from two of them, its status after compile() returned Ok or Err, the line's VM, a field moved out of "
        "one of these, a value modified in place). On every path that leaves through the None edge of parse_program or the Err edge "
        "of Compiler::compile, each state local must again hold its start value or a copy of it when the back edge is reached "
        "(nothing of the rejected line is carried over; the failed compiler's tables are tainted because names are defined before "
        "their value is compiled). On paths of an accepted line (also one ending in a runtime error) the state must be the tables "
        "of that line's compiler and the store of that line's VM, each built from this session's own state. The formulation does "
        "not depend on whether the loop saves copies and puts them back or hands copies to the compiler. VM and Compiler are created "
        "inside the loop, the REPL passes its own argv, the store has GLOBALS_SIZE entries, and main.rs never shrinks or reorders a "
        "pool it carries between lines. Equivalence of accumulated output with a script is not decided.")


def run(F, R, tier):
    R.explanation = EXPL
    R.assumptions += ["a transactional Compiler::compile would also be correct but would be reported: the rule keys on today's design (DESIGN.md §3 C23)"]
    rp = F.fn("run_prompt")
    if not R.anchor("main::run_prompt", rp):
        return
    from .lib import session as S
    res = S.analyse(F, "run_prompt")
    if not R.anchor("run_prompt: read-eval loop with its session state (%s)" % res.get("error", "found"), "error" not in res):
        return
    B, (h, body), state = res["body"], res["loop"], res["state_locals"]
    names = res["names"]
    R.count("REPL session-state locals", len(state))
    R.count("rejected paths to the back edge", res["rejected_paths"])
    R.count("accepted paths to the back edge", len(res["accepted"]))
    # ---- (a)+(b) rejection: parse errors and compile errors carry nothing of the line into the next iteration -------------------
    R.ob("rejection-carries-nothing", "on every path from a parse error or a compile error to the next prompt, symtab / constants / globals hold the values "
         "(or copies of the values) they had before the line", res["ok"] and res["kinds"] == ["compile", "parse"],
         "; ".join(res["problems"])[:400] if res["problems"] else "%d rejected paths (%s errors) explored over %s" % (res["rejected_paths"], " and ".join(res["kinds"]) or "no", res["state"]), F.loc(rp))
    # ---- (c) accepted lines (also those that end in a runtime error): the state is what the line's compiler and VM hand back ------
    bad = []
    n_line = 0
    for shown, raw in res["accepted"]:
        if all(t and t[0] == "orig" for t in raw.values()):
            continue  # nothing was compiled (empty line, prompt error)
        n_line += 1
        comps = {t[1] for t in raw.values() if t and t[0] == "from" and t[1] and t[1][0] == "compiler"}
        vms = {t[1] for t in raw.values() if t and t[0] == "from" and t[1] and t[1][0] == "vm"}
        ok = len(comps) == 1 and len(vms) == 1
        if ok:
            comp, vm = next(iter(comps)), next(iter(vms))
            src = [a for a in comp[1:3]] + [vm[1]]
            # the compiler / VM of the line were built from this session's state (or copies of it), each from its own slot
            ok = all(a and a[0] in ("orig", "clone") for a in src) and len({a[1] for a in src if a}) == 3 and comp[3] == "ok"
            for l, t in raw.items():
                want_field = {comp[1][1]: "symtab", comp[2][1]: "constants", vm[1][1]: "globals"}.get(l) if ok else None
                ok = ok and t[0] == "from" and t[2] == want_field
        if not ok:
            bad.append(str(shown))
    R.ob("accepted-line-state", "after an accepted line (also one that ends in a runtime error) symtab / constants are the compiler's and globals the VM's, "
         "each built from this session's own state", not bad and n_line >= 1, "; ".join(bad)[:300] if bad else "%d accepted paths" % n_line, F.loc(rp))
    # ---- (d) fresh VM / compiler per line, REPL argv ------------------------------------------------------------------------------
    in_loop = lambda suffix: [b for b in M.call_blocks(B, lambda t: (t.get("callee") or "").endswith(suffix)) if b in body]
    anywhere = lambda suffix: M.call_blocks(B, lambda t: (t.get("callee") or "").endswith(suffix))
    R.ob("fresh-per-line", "Compiler::new_with_state and VM::new_with_global_store are created inside the per-line block",
         bool(in_loop("Compiler::new_with_state")) and bool(in_loop("VM::new_with_global_store")) and
         set(in_loop("Compiler::new_with_state")) == set(anywhere("Compiler::new_with_state")) and set(in_loop("VM::new_with_global_store")) == set(anywhere("VM::new_with_global_store")),
         "", F.loc(rp))
    ib = in_loop("init_builtin_vars")
    argv_ok = bool(ib)
    for b_ in ib:
        t = B.blocks[b_]["term"]
        src = [x for a in t["args"] for x in M.subterms(B.sym_op(a, through_vars=True)) if x[0] == "arg"]
        argv_ok = argv_ok and any(x[2] == 1 for x in src)
    R.ob("fresh-per-line", "init_builtin_vars receives the REPL's own argv for every line", argv_ok, "%d calls in the loop" % len(ib), F.loc(rp))
    # who constructs the globals vector: GLOBALS_SIZE entries
    gs = F.const("vm::interpreter::GLOBALS_SIZE")
    for fn in ("run_prompt", "run_buf"):
        g = F.fn(fn)
        if not g:
            continue
        f2, _ = M.inline_calls(F, g, lambda c: F.fns[c]["file"] == g["file"] and c not in ("parse_program", "init_builtin_vars", "run_filters") and len(F.fns[c]["mir"]["blocks"]) <= 150, depth=2)
        Bg = M.Body(f2)
        srcs = []
        for b_ in M.call_blocks(Bg, lambda t: (t.get("callee") or "").endswith("VM::new_with_global_store")):
            a = Bg.blocks[b_]["term"]["args"][1]
            sym = Bg.sym_op(a, through_vars=True)
            # moved out of a field of the loop-carried state struct (`mem::take(&mut state.globals)`): what that field is given
            # where the struct is built
            if sym[0] == "call" and (sym[1] or "").endswith(("mem::take", "mem::replace")) and sym[2]:
                inner = sym[2][0]
                while inner[0] in ("ref", "deref"):
                    inner = inner[1]
                if inner[0] == "field" and inner[1][0] == "var":
                    fld = inner[2]
                    for (bi, si, node) in Bg.defs().get(inner[1][2], []):
                        rv_ = node.get("rv") if si != "term" else None
                        if rv_ and rv_["k"] == "agg" and rv_.get("ops") is not None:
                            fl_ = rv_.get("fields") or []
                            for i_, op_ in enumerate(rv_["ops"]):
                                if (fl_[i_] if i_ < len(fl_) else str(i_)) == fld or str(i_) == str(fld):
                                    srcs.append(Bg.sym_op(op_, through_vars=True))
                    continue
            # through the loop-carried variable: the definitions of that local outside any call result of the loop
            if sym[0] in ("var",):
                for (bi, si, node) in Bg.defs().get(sym[2], []):
                    if si == "term":
                        srcs.append(("call", node.get("callee"), tuple(Bg.sym_op(x, through_vars=True) for x in node["args"])))
                    else:
                        srcs.append(Bg.sym_rv(node["rv"], through_vars=True))
            else:
                srcs.append(sym)
        creators = [x for x in srcs if x[0] == "call" and x[1] == "std::vec::from_elem"]
        ok = bool(creators) and all(len(x[2]) == 2 and x[2][1][0] == "const" and x[2][1][1] == gs for x in creators)
        R.ob("globals-size", "%s builds globals with GLOBALS_SIZE entries" % fn, ok and isinstance(gs, int),
             "the store handed to the VM is created by %s" % [M.show(x)[:60] for x in creators], F.loc(g))
    # ---- the compiler continues from exactly the tables it is handed -----------------------------------------------------------------
    # new_with_state installs the symbol table and the constant pool of the session as they are: anything it does *to* them
    # (re-registering the built-ins, say, which replaces a user's binding of the same name) makes a later line see a state
    # no earlier line produced.
    nws = F.fn("compiler::Compiler::new_with_state")
    if R.anchor("Compiler::new_with_state", nws):
        body = H.body_inl(F, nws, keep=("new",))
        pids = [p_["id"] for p_ in nws["hir"]["params"] if p_.get("k") == "bind"]

        def is_state(e):
            e = H.strip(e)
            return H.local_id(e) in pids or (e.get("k") == "field" and e.get("name") in ("symtab", "constants"))
        touched = []

        def base_of(e):
            e = H.strip(e)
            while e.get("k") in ("field", "index", "ref") or (e.get("k") == "un" and e.get("op") == "*"):
                e = H.strip(e["e"])
            return e
        for c in H.walk(body):
            # any mutable borrow of (a part of) a parameter: the table is edited in place
            if c.get("k") == "ref" and c.get("mut") and H.local_id(base_of(c["e"])) in pids:
                touched.append("&mut " + H.render(c["e"])[:60])
            if c.get("k") == "mcall" and is_state(c["recv"]) and c["m"] not in ("clone", "len", "is_empty"):
                touched.append(H.render(c)[:70])
            if c.get("k") in ("call", "mcall"):
                for a in c.get("args", []):
                    if a.get("k") == "ref" and a.get("mut") and is_state(a["e"]):
                        touched.append(H.render(c)[:70])
        stores = {}
        for x in H.walk(body):
            if x.get("k") == "assign" and H.strip(x["l"]).get("k") == "field" and H.strip(x["l"]).get("name") in ("symtab", "constants"):
                stores[H.strip(x["l"])["name"]] = H.local_id(H.strip(x["r"]))
            if x.get("k") == "struct":
                for fd in x.get("fields", []):
                    if fd.get("name") in ("symtab", "constants") and "e" in fd:
                        stores[fd["name"]] = H.local_id(H.strip(fd["e"]))
        ok = not touched and len(pids) == 2 and stores.get("symtab") == pids[0] and stores.get("constants") == pids[1]
        R.ob("state-handed-over-unchanged", "Compiler::new_with_state stores the symbol table and the constant pool it is given, untouched", ok,
             "modified on the way: %s" % touched if touched else "fields set from the parameters: %s" % {k: (v in pids) for k, v in stores.items()}, F.loc(nws))
    vws = F.fn("vm::interpreter::VM::new_with_global_store")
    if R.anchor("VM::new_with_global_store", vws):
        body = H.body_inl(F, vws, keep=("new",))
        pids = [p_["id"] for p_ in vws["hir"]["params"] if p_.get("k") == "bind"]
        gl = None
        for x in H.walk(body):
            if x.get("k") == "assign" and H.strip(x["l"]).get("k") == "field" and H.strip(x["l"]).get("name") == "globals":
                gl = H.local_id(H.strip(x["r"]))
            if x.get("k") == "struct":
                for fd in x.get("fields", []):
                    if fd.get("name") == "globals" and "e" in fd and H.local_id(H.strip(fd["e"])) in pids:
                        gl = H.local_id(H.strip(fd["e"]))
        touched = [H.render(c)[:70] for c in H.walk(body) if c.get("k") == "mcall" and H.local_id(H.strip(c["recv"])) in pids[1:] and c["m"] not in ("clone", "len", "is_empty")]
        R.ob("state-handed-over-unchanged", "VM::new_with_global_store installs the global store it is given, untouched", len(pids) == 2 and gl == pids[1] and not touched,
             "modified on the way: %s" % touched if touched else "", F.loc(vws))
    # ---- the session's constant pool and global store only grow ------------------------------------------------------------------
    # Code of an accepted line stays alive in closures and refers to constants by pool index and to globals by slot: the
    # REPL driver (main.rs) never shrinks or reorders a Vec<Rc<Object>> it carries from line to line (truncate / clear /
    # pop / remove / drain / retain / split_off / swap / sort); a rejected line is undone by putting back the saved copy.
    SHRINK = ("truncate", "clear", "pop", "remove", "swap_remove", "drain", "retain", "retain_mut", "split_off", "dedup", "swap", "sort", "sort_by", "reverse", "rotate_left", "rotate_right", "resize")
    shr = []
    for p_, g_ in sorted(F.fns.items()):
        if not g_["file"].endswith("src/main.rs") or H.body_of(g_) is None:
            continue
        for c in H.walk(H.body_of(g_)):
            if c.get("k") == "mcall" and c["m"] in SHRINK:
                rty = (c.get("recv_ty") or c["recv"].get("ty") or "")
                if "Rc<object::Object>" in rty and ("Vec<" in rty or "[" in rty):
                    shr.append("%s: %s.%s(..)" % (H.last(p_), H.render(c["recv"])[:30], c["m"]))
    R.ob("session-pools-append-only", "the REPL driver never shrinks or reorders the constant pool / global store it carries between lines", not shr,
         "; ".join(shr)[:300])
