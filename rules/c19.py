"""C19 — pcap file reading and writing preserve records.

Record order over call histories is not decided.  Decided: the structural
necessary conditions (codecs mutually inverse, whole-record writes, no crash
on truncated/corrupt input, sibling agreement of the EOF mapping and of the
two reader branches, magic test)."""
import re

from .lib import audit_run
from .lib import hir as H
from .lib import mir as M
from .lib import codec as C
from .lib import layers as L

EXPL = ("(a) Codec bit-provenance (E4): global-header and record-header decoders/encoders are mutually inverse against "
        "the pcap-savefile layout (little-endian, 24 and 16 bytes). (b) Pcap::write_all writes header‖data with one "
        "write_all and returns its length. (c) Panic-site audit (E1) over Pcap::from_file / next_packet / write_all and "
        "the pcap_* builtins: indexing only behind the length prologues, read_exact results propagated with `?`, the "
        "caplen allocation dominated by the caplen > snaplen rejection. (d) Sibling agreement: UnexpectedEof maps to "
        "Null / break / silent stop at the three consumers, any other error to an error object. (e) The file and stdin "
        "branches of next_packet are clones (same call sequence). (f) The magic test accepts exactly the two legacy "
        "magics. Record order and min(n, remaining) are properties of call histories and the OS file position: not decided.")

PCAP = "builtins::pcap::"
BF = "builtins::functions::"


def run(F, R, tier):
    R.explanation = EXPL
    R.assumptions += ["std::io::Read::read_exact either fills the buffer or returns an error (UnexpectedEof at end of input)",
                      "A3: tables/std_callees.json classifies every external callee"]
    ref = L.rfc()
    # ---- (a) codecs ------------------------------------------------------------------------------------------
    for lname in ("pcap", "packet"):
        spec = L.LAYERS[lname]
        dec, err = C.decode_struct(F, spec["decoder"], spec["hdr"] + "$")
        encb, err2 = C.encode_bytes(F, spec["encoder"])
        if not R.anchor("codec of %s header" % lname, dec is not None and encb is not None, (err or "") + (err2 or "")):
            continue
        layout = ref["layers"][lname]["props"]
        size = ref["layers"][lname]["size"]
        R.ob("header-size", lname, len(encb) == size, "serialiser writes %d bytes, reference %d" % (len(encb), size))
        g = C.min_length_guard(F, spec["decoder"])
        R.ob("header-size", lname + " decoder prologue", g is not None and g.k == size and not g.c,
             "decoder requires %s bytes" % (g.k if g is not None else None))
        for k, byte in enumerate(encb):
            bad = []
            for j, o in enumerate(byte):
                if not (isinstance(o, tuple) and o[0] == "fld"):
                    bad.append("bit %d is %s" % (j, o))
                    continue
                d = dec.get(o[1])
                src = d[o[2]] if isinstance(d, list) and o[2] < len(d) else None
                if src != ("in", k, j):
                    bad.append("bit %d = %s.%d decoded from %s" % (j, o[1], o[2], src))
            R.ob("pcap-codec-inverse", "%s byte %d" % (lname, k), not bad, "; ".join(bad)[:200] if bad else "copied from the field decoded here")
        # field positions against the reference
        fields = {"pcap": {"magic": "magic_number", "major": "version_major", "minor": "version_minor", "thiszone": "thiszone",
                           "sigfigs": "sigfigs", "snaplen": "snaplen", "linktype": "linktype"},
                  "packet": {"sec": "ts_sec", "usec": "ts_usec", "caplen": "caplen", "wirelen": "wirelen"}}[lname]
        for pname, fld in fields.items():
            w = L.parse_spec(layout[pname])
            want = [("in", b, j) for (b, j) in reversed(w[1])]
            R.ob("pcap-field-layout", "%s.%s" % (lname, pname), dec.get(fld) == want, "field %s decoded from %s" % (fld, layout[pname]))
    # ---- (f) magic test ------------------------------------------------------------------------------------------
    fb = F.fn(PCAP + "PcapGlobalHeader::from_bytes")
    if R.anchor("PcapGlobalHeader::from_bytes", fb):
        from .lib import decide as D
        us, ns = F.const(PCAP + "PCAP_MAGIC_US"), F.const(PCAP + "PCAP_MAGIC_NS")
        rows, why = D.table(F, fb, inline=False)
        MAGIC = r"((\w+\.)?magic_number|num::from_le_bytes\(\[data\[0\], data\[1\], data\[2\], data\[3\]\]\))"
        ok, det = False, why
        if rows is not None:
            rows = [(e, "Err" if str(r).startswith("v1::Err") else ("Ok" if str(r).startswith("v1::Ok") else str(r)[:30])) for e, r in rows]
            # the header size written as a literal or as a named constant of that value
            n24 = "(24|%s)" % "|".join(sorted(re.escape(H.last(k)) for k, c in F.consts.items() if c.get("val") == 24) or ["24"])
            roles = [(r"^data\.len\(\) < %s$" % n24, "short"), (r"^PCAP_MAGIC_US == " + MAGIC + "$", "us"), (r"^PCAP_MAGIC_NS == " + MAGIC + "$", "ns")]
            doms = {"short": (True, False), "us": (True, False), "ns": (True, False)}
            ok, det = D.check(rows, roles, doms, lambda e: None if (e["us"] and e["ns"]) else ("Err" if (e["short"] or not (e["us"] or e["ns"])) else "Ok"))
        R.ob("magic-test", "accepts exactly the microsecond and nanosecond magics", ok and us == 0xA1B2C3D4 and ns == 0xA1B23C4D,
             "%s; US=%s NS=%s" % (det, hex(us) if isinstance(us, int) else us, hex(ns) if isinstance(ns, int) else ns), F.loc(fb))
    # ---- (b) write_all writes header ‖ data once -------------------------------------------------------------------
    wa = F.fn(PCAP + "Pcap::write_all")
    if R.anchor("Pcap::write_all", wa):
        b = H.body_inl(F, wa, keep=("write_all", "write", "into"))
        writes = [x for x in H.walk(b) if x.get("k") == "mcall" and x["m"] in ("write_all", "write") and "Write" in (x.get("decl") or x.get("callee") or "")]
        ok = len(writes) == 2 and all(x["m"] == "write_all" and H.render(H.strip(x["args"][0])) == "bytes" for x in writes)
        lets_ = {x["pat"]["id"]: x["init"] for x in H.walk(b) if x.get("k") == "let" and x.get("pat", {}).get("k") == "bind" and x.get("init") is not None}
        leaves = []
        for e, g in H.return_leaves(b):
            e2 = H.strip(e)
            if e2.get("k") == "call" and e2.get("args") and H.local_id(H.strip(e2["args"][0])) in lets_:
                # `let written = bytes.len(); .. Ok(written)`
                leaves.append("v1::Ok(%s)" % H.render(H.strip(lets_[H.local_id(H.strip(e2["args"][0]))])))
            elif e2.get("k") == "mcall" and e2["m"] == "map" and len(e2.get("args", [])) == 1 and H.strip(e2["args"][0]).get("k") == "closure" \
                    and "std::io::Error" in (e2.get("ty") or ""):
                # `written.map(|()| bytes.len())`: Ok(bytes.len()) once the write succeeded, the write's error otherwise
                leaves.append("v1::Ok(%s)" % H.render(H.strip(H.strip(e2["args"][0])["body"])))
            else:
                leaves.append(H.render(e))
        R.ob("whole-record-write", "write_all(&bytes) per handle kind; returns bytes.len()", ok and "v1::Ok(bytes.len())" in leaves,
             "writes: %s; results: %s" % ([H.render(x)[:40] for x in writes], leaves), F.loc(wa))
    # ---- (c) no crash on truncated / corrupt input ---------------------------------------------------------------------
    roots = [PCAP + "Pcap::from_file", PCAP + "Pcap::next_packet", PCAP + "Pcap::write_all", PCAP + "Pcap::new_with_header",
             BF + "builtin_pcap_open", BF + "builtin_pcap_stream", BF + "builtin_pcap_read_next", BF + "builtin_pcap_read_all",
             BF + "builtin_pcap_write"]
    A, fns, keys = audit_run.run_audit(F, R, roots, lambda p, f: f["file"].endswith(("builtins/pcap.rs", "builtins/functions.rs"))
                                       and (p in roots or "pcap" in p.lower()), "pcap I/O", link_ops=False)
    np_ = F.fn(PCAP + "Pcap::next_packet")
    if R.anchor("Pcap::next_packet", np_):
        # next_packet and the private helpers of pcap.rs it reads records through (`read_record<R: Read>`)
        cgx = M.CallGraph(F)
        # (... or through methods of the file handle itself: `self.file.read_exact_bytes(&mut buf)` in object/file.rs)
        np_fns = [q for q in sorted(cgx.reachable_from([PCAP + "Pcap::next_packet"])) if q in F.fns and
                  (F.fns[q]["file"] == np_["file"] or F.fns[q]["file"].endswith("object/file.rs")) and F.fns[q].get("mir")
                  and (q == PCAP + "Pcap::next_packet" or not q.startswith("<"))]
        n_read = 0
        for q in np_fns:
          B = M.Body(F.fns[q])
          for bi, b in enumerate(B.blocks):
            t = b["term"]
            if t["k"] == "call" and (t.get("callee") or t.get("decl") or "").endswith("read_exact") and not b.get("cleanup"):
                n_read += 1
                nxt = B.blocks[t["t"]]["term"] if t.get("t") is not None else {}
                ok = nxt.get("k") == "call" and (nxt.get("callee") or "").endswith("Try>::branch")
                if not ok and not t["dest"]["p"] and t["dest"]["l"] == 0 and nxt.get("k") in ("return", "drop", "goto") and \
                        "std::io::Error" in (B.local_ty(0) or ""):
                    # the read's result is the value of the function (a closure `|buf| reader.read_exact(buf)`, a method
                    # `fn read_exact_bytes(&self, buf) -> io::Result<()>`): it goes to the caller, whose call is itself an
                    # io::Result producer under C22's propagation rule
                    ok = True
                R.ob("read-exact-propagated", "next_packet read_exact #%d" % n_read, ok, "result is consumed by `?`", F.loc(F.fns[q], t.get("line")))
        # two reads per record (header, payload), once per handle kind or once in a shared generic helper
        R.floor("read_exact calls in next_packet", n_read, 2)
        np_body = H.body_inl(F, np_, keep=("read_exact", "from_bytes", "new"))
        # allocation of caplen bytes is dominated by the caplen > snaplen rejection: at every vec![0; n] of the record
        # reader a dominating branch condition bounds the record's caplen by the file's snaplen (facts of the MIR)
        from .lib import panics as P
        n_alloc = n_guard = 0
        for q in np_fns:
            B = M.Body(F.fns[q])
            for bi, b in enumerate(B.blocks):
                t = b["term"]
                if t["k"] == "call" and t.get("callee") == "std::vec::from_elem" and not b.get("cleanup"):
                    n_alloc += 1
                    cx = P.Ctx(B, F)
                    facts, _ = P.edge_facts(B, cx, bi)
                    # what is allocated: exactly the length the test bounds (the record's caplen, widened), not some other field
                    sz = cx.lin(B.sym_op(t["args"][1], through_vars="pure"))
                    sz_atoms = [a for a, c_ in sz.c.items() if c_ == 1] if (len(sz.c) == 1 and sz.k == 0) else []
                    norm_ = lambda a: re.sub(r"^\((.*) as usize\)$", r"\1", a)
                    for l, rel in P._Facts(facts, cx):
                        cap = [a for a, c_ in l.c.items() if "caplen" in a and c_ == -1]
                        snap = [a for a, c_ in l.c.items() if "snaplen" in a and c_ == 1]
                        if rel == ">=" and cap and snap and len(l.c) == 2 and l.k == 0 and sz_atoms and norm_(sz_atoms[0]) == norm_(cap[0]):
                            n_guard += 1
                            break
        order_ok = True
        R.ob("caplen-bounded", "vec![0; caplen] only after caplen <= snaplen", n_guard == n_alloc and n_alloc >= 1 and order_ok,
             "%d allocations, %d of them behind a dominating caplen <= snaplen test" % (n_alloc, n_guard), F.loc(np_))
        # ---- (e) the two reader branches are clones --------------------------------------------------------------------
        arms = []
        for m in H.walk(np_body):
            if m.get("k") == "match" and not H.is_try(m) and "file" in H.render(m["scrut"]):
                for a in m["arms"]:
                    vs = {H.last(v) for v in H.pat_variants(a["pat"])}
                    if vs & {"Reader", "Stdin"}:
                        seq = [H.last(c.get("callee") or c.get("m") or "?") for c in H.walk(a["body"])
                               if c.get("k") in ("call", "mcall") and H.last(c.get("callee") or "") not in ("borrow_mut", "stdin", "new", "branch", "from_residual")]
                        arms.append((sorted(vs), seq))
        # one match per read (a shared `read_exact_bytes` helper read in place twice) is as good as one match around both reads:
        # the Reader and the Stdin arm of each must agree
        by_match = {}
        for vs_, seq_ in arms:
            by_match.setdefault(tuple(vs_), []).append(seq_)
        ok = len(arms) >= 2 and len(arms) % 2 == 0 and set(by_match) == {("Reader",), ("Stdin",)} and by_match[("Reader",)] == by_match[("Stdin",)]
        R.ob("reader-branches-agree", "file and stdin branches of next_packet perform the same call sequence", ok,
             "; ".join("%s: %s" % a for a in arms)[:300], F.loc(np_))
    # fixed-size structures (global header, record header, record payload) are read completely or not at all: the pcap
    # reader uses read_exact only; a plain `read` may return fewer bytes and the rest would be decoded as zeroes
    n_exact = 0
    for fn in (PCAP + "Pcap::from_file", PCAP + "Pcap::next_packet"):
        g = F.fn(fn)
        if not R.anchor(fn, g):
            continue
        for c in H.walk(H.body_inl(F, g, keep=("read_exact", "read", "read_to_end", "from_bytes"))):
            if c.get("k") != "mcall":
                continue
            cal = c.get("decl") or c.get("callee") or ""
            if cal.endswith("Read::read_exact"):
                n_exact += 1
            elif cal.endswith(("Read::read", "Read::read_to_end", "Read::read_vectored", "BufRead::fill_buf")) or (c["m"] == "read" and "Read" in (c.get("decl") or "")):
                R.ob("fixed-size-reads-exact", "%s: %s" % (H.last(fn), H.render(c)[:80]), False,
                     "a fixed-size pcap structure is read with %s, which may deliver fewer bytes than the structure needs" % c["m"], F.loc(g, c.get("line")))
    R.ob("fixed-size-reads-exact", "global header, record headers and payloads are read with read_exact", n_exact >= 3, "%d read_exact calls" % n_exact)
    # ---- (d) EOF mapping siblings ------------------------------------------------------------------------------------------
    def eof_handling(fn):
        """[(polarity, what is done when the error IS end-of-input, what is done otherwise)] for every test of
        ErrorKind::UnexpectedEof in fn: an `if`, or the guard of a match arm"""
        g = F.fn(fn)
        if g is None:
            return None
        out = []
        rx = re.compile(r"^\(?(\w+)\.kind\(\) (==|!=) (?:io::)?ErrorKind::UnexpectedEof\)?$")
        # (small helpers of the same file are read in place: `report_error(&err)` is the stderr write it performs)
        gb = H.inline_helpers(F, H.body_of(g), max_size=60, skip=lambda c_: (F.fns.get(c_) or {}).get("file") != g["file"] or c_.startswith("builtins::functions::builtin_"))
        for x in H.walk(gb):
            if x.get("k") == "if":
                m = rx.match(H.render(x["c"]))
                if m:
                    t, e = H.render(x["t"])[:80], (H.render(x.get("e"))[:80] if "e" in x else "<falls through>")
                    out.append((H.render(x["c"]),) + ((t, e) if m.group(2) == "==" else (e, t)))
            if x.get("k") == "match" and not H.is_try(x):
                for ai, a in enumerate(x["arms"]):
                    if a.get("guard") is not None:
                        m = rx.match(H.render(a["guard"]))
                        if m:
                            rest = [H.render(b["body"])[:80] for b in x["arms"][ai + 1:] if {H.last(v) for v in H.pat_variants(b["pat"])} & {"Err", "*"}]
                            t, e = H.render(a["body"])[:80], (rest[0] if rest else "<no other Err arm>")
                            out.append((H.render(a["guard"]),) + ((t, e) if m.group(2) == "==" else (e, t)))
        return g, out
    want = {BF + "builtin_pcap_read_next": ("Object::Null", None),
            BF + "builtin_pcap_read_all": ("break", None),
            "run_filters": (None, "io::stderr()")}
    for fn, (on_eof, otherwise) in want.items():
        r = eof_handling(fn)
        if not R.anchor(fn, r is not None):
            continue
        g, hs = r
        ok = len(hs) == 1 and (on_eof is None or on_eof in hs[0][1]) and (otherwise is None or (otherwise in hs[0][2] and otherwise not in hs[0][1]))
        R.ob("eof-mapping", H.last(fn), ok, "EOF test: %s; at end of input: %s; otherwise: %s" % (hs[0] if hs else (None, None, None)), F.loc(g))
        if fn.startswith(BF):
            # any other error becomes an error object
            objs = [x for x in H.walk(H.body_inl(F, g)) if x.get("k") == "call" and H.last(x.get("ctor", "")) == "Err"
                    and "object::Object::Err" in x.get("ctor", "") and re.search(r"ErrorObj::IO\(\w+\)", H.render(x))]
            R.ob("eof-mapping", H.last(fn) + ": other errors → error object", len(objs) >= 1, "%d error-object results" % len(objs), F.loc(g))
