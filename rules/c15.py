"""C15 — reading packet fields never alters the bytes written back.

Decides the structural conditions under which serialisation is the identity on
captured bytes (E4 bit provenance + E3 who-may-write / routing rules)."""
import re

from .lib import hir as H
from .lib import mir as M
from .lib import codec as C
from .lib import layers as L

EXPL = ("Codec bit-provenance (E4): for every layer (pcap record, Ethernet, VLAN, IPv4, IPv6, TCP, UDP and the three "
        "address types) the decoder `from_bytes` and the serialiser `From<&XHeader> for Vec<u8>` are interpreted over a "
        "per-bit origin domain (exact for these straight-line bit selections); every output bit must be a copy of the "
        "header-field bit that was decoded from the same input position, the encoded length must equal the bytes the "
        "decoder consumed (variable parts as raw copies), every decoded field must be written back, the tail must be "
        "the captured buffer from the recorded offset, cached inner objects must be byte-complete layer objects, "
        "getters must not write header state, and all output paths must serialise through the same function. Decides "
        "serialise∘parse = identity structurally for all frames, not by executing frames.")


def norm_fields(dec, encbytes):
    """rename encoder field paths 'x.0' to 'x' when the decoder knows the newtype field as 'x'"""
    names = set(dec)

    def fix(n):
        while n not in names and n.endswith(".0"):
            n = n[:-2]
        return n
    out = []
    for b in encbytes:
        if isinstance(b, tuple):
            out.append((b[0], fix(b[1])))
        else:
            out.append([(x[0], fix(x[1]), x[2]) if isinstance(x, tuple) and x[0] == "fld" else x for x in b])
    return out


def check_layer(F, R, name, spec):
    dec, err = C.decode_struct(F, spec["decoder"], spec["hdr"] + "$")
    if not R.anchor("decoder of %s" % name, dec is not None, err or ""):
        return None
    encb, err = C.encode_bytes(F, spec["encoder"], known=dec)
    if not R.anchor("encoder of %s" % name, encb is not None, err or ""):
        return None
    encb = norm_fields(dec, encb)
    n_bits = 0
    raw_fields = [b[1] for b in encb if isinstance(b, tuple)]
    fixed = [b for b in encb if not isinstance(b, tuple)]
    # (a) every output bit is the field bit decoded from the same input position
    used = set()
    for k, byte in enumerate(fixed):
        bad = []
        for j, o in enumerate(byte):
            n_bits += 1
            if not (isinstance(o, tuple) and o[0] == "fld"):
                bad.append("bit %d is %s" % (j, o))
                continue
            d = dec.get(o[1])
            src = d[o[2]] if isinstance(d, list) and o[2] < len(d) else None
            used.add((o[1], o[2]))
            if src != ("in", k, j):
                bad.append("bit %d = %s.%d which was decoded from %s" % (j, o[1], o[2], src))
        R.ob("encode-decode-identity", "%s byte %d" % (name, k), not bad,
             "; ".join(bad)[:250] if bad else "8 bits copied from the fields decoded at this position", spec["encoder"].split("<impl")[0])
    # (b) lengths at the seam
    hl = C.header_length(F, spec["decoder"], "::%s$" % spec["pkt"]) if spec.get("pkt") and name != "packet" else None
    if hl is not None:
        rawd = {k: v for k, v in dec.items() if isinstance(v, tuple) and v[0] == "raw"}
        if rawd:
            # variable header: fixed part re-encoded bit by bit + one raw region [off+fixed, off+header_len) copied verbatim
            (rf, rv), = list(rawd.items()) if len(rawd) == 1 else [(None, None)]
            lo_ok = rv is not None and rv[1] == "+1·off %+d" % len(fixed)
            hi_ok = rv is not None and rv[2] == repr(hl)
            last_ok = bool(encb) and isinstance(encb[-1], tuple) and encb[-1][1] == rf and raw_fields == [rf]
            R.ob("header-length-seam", name, lo_ok and hi_ok and last_ok,
                 "decoder consumes [off, %s): %d fixed bytes re-encoded, bytes [%s, %s) kept verbatim in field `%s` and appended last: %s/%s/%s"
                 % (repr(hl), len(fixed), rv[1] if rv else "?", rv[2] if rv else "?", rf, lo_ok, hi_ok, last_ok))
        else:
            consumed_fixed = hl.k if set(hl.c) <= {"off"} else None
            R.ob("header-length-seam", name, consumed_fixed == len(fixed) and not raw_fields,
                 "decoder consumes %s bytes, serialiser writes %d" % (consumed_fixed if consumed_fixed is not None else repr(hl), len(fixed)))
    elif name in ("pcap", "packet"):
        g = C.min_length_guard(F, spec["decoder"])
        R.ob("header-length-seam", name, g is not None and g.k == len(fixed) and not g.c,
             "decoder requires %s bytes, serialiser writes %d" % (g.k if g is not None else None, len(fixed)))
    # (c) every decoded field bit is serialised
    missing = []
    for fld, bits in dec.items():
        if fld.endswith(".__len") or not isinstance(bits, list):
            continue
        for j, o in enumerate(bits):
            if isinstance(o, tuple) and o[0] == "in" and (fld, j) not in used:
                missing.append("%s.%d" % (fld, j))
    R.ob("all-fields-serialised", name, not missing, "decoded but never written back: %s" % missing[:12] if missing else
         "every decoded header bit is written back")
    # the length prologue covers every byte the decoder reads
    g = C.min_length_guard(F, spec["decoder"])
    reads = [o[1] for bits in dec.values() if isinstance(bits, list) for o in bits if isinstance(o, tuple) and o[0] == "in"]
    need = (max(reads) + 1) if reads else 0
    R.ob("decoder-length-guard", name, g is not None and g.k >= need, "guard requires %s bytes beyond off, highest byte read is %d"
         % (g.k if g is not None else None, need - 1))
    R.count("output bits traced", n_bits)
    return dec, encb


def run(F, R, tier):
    R.explanation = EXPL
    R.assumptions += ["the E4 domain is exact for the straight-line decoders/encoders; anything else evaluates to '?' and fails closed",
                      "rawdata of a packet is the captured buffer (pcap reader, C19)"]
    n_layers = 0
    for name, spec in L.LAYERS.items():
        if name == "pcap":
            continue  # the global header is C19/C20's; a packet's bytes start at its record header
        r = check_layer(F, R, name, spec)
        if r:
            n_layers += 1
    R.floor("layers with decoder and encoder analysed", n_layers, 7)

    # (d) packet-level serialisers: header ++ (cached inner | rawdata[offset..])
    for name, spec in L.LAYERS.items():
        if not spec.get("pkt_enc"):
            continue
        f = F.fn(spec["pkt_enc"])
        if not R.anchor("serialiser of %s" % spec["pkt"], f):
            continue
        # (a shared `append_body(bytes, inner, rawdata, offset)` / `append_raw_tail(..)` helper is read as part of the serialiser)
        b = H.inline_helpers(F, H.body_of(f), max_size=300, skip=lambda c_: c_.startswith("<") or "::<impl " in c_)
        arg_id = f["hir"]["params"][0].get("id")
        # what the serialiser appends, in order, on every path: resolved through named temporaries / borrows / clones
        lets, somes = {}, {}
        for x in H.walk(b):
            if x.get("k") == "let" and x.get("pat", {}).get("k") == "bind" and x.get("init") is not None:
                lets[x["pat"]["id"]] = x["init"]
            if x.get("k") == "let" and x.get("pat", {}).get("k") == "ts" and H.last(x["pat"]["res"].get("path") or "") == "Some" and x.get("init") is not None:
                for p_ in x["pat"].get("pats", []):
                    if p_.get("k") == "bind":
                        somes[p_["id"]] = x["init"]
            if x.get("k") == "match" and not H.is_try(x):
                for a_ in x["arms"]:
                    pt = a_["pat"]
                    if pt.get("k") == "ts" and H.last(pt["res"].get("path") or "") == "Some":
                        for p_ in pt.get("pats", []):
                            if p_.get("k") == "bind":
                                somes[p_["id"]] = x["scrut"]

        def cls(e, d=0):
            """'header' | 'inner' | ('into', X) | ('tail', 'rawdata', 'offset') | ('whole', 'rawdata') | '?'"""
            if d > 10 or e is None:
                return "?"
            e = H.strip(e)
            if e.get("k") == "mcall" and e["m"] in ("borrow", "clone", "as_ref", "deref", "to_vec", "as_slice", "to_owned") and not e.get("args"):
                return cls(e["recv"], d + 1)
            if e.get("k") in ("mcall", "call") and H.last(e.get("callee") or e.get("m") or "") in ("into", "from") and len(([e["recv"]] if e.get("k") == "mcall" else []) + e.get("args", [])) == 1:
                inner = cls((([e["recv"]] if e.get("k") == "mcall" else []) + e.get("args", []))[0], d + 1)
                return ("into", inner)
            if H.is_local(e):
                i = H.local_id(e)
                if i in lets:
                    return cls(lets[i], d + 1)
                if i in somes:
                    src = cls(somes[i], d + 1)
                    return src
                return "?"
            if e.get("k") == "field" and H.is_local(H.strip(e["e"])) and H.local_id(H.strip(e["e"])) == arg_id:
                return {"header": "header", "inner": "inner", "rawdata": ("whole", "rawdata"), "offset": "offset"}.get(e["name"], "?" + e["name"])
            if e.get("k") == "index":
                base, i = cls(e["e"], d + 1), H.strip(e["i"])
                if base == ("whole", "rawdata") and i.get("k") == "struct" and H.last(i["res"].get("path") or "") == "RangeFrom":
                    s0 = H.strip(i["fields"][0]["e"])
                    if s0.get("k") == "lit" and s0.get("v") == 0:
                        return base   # data[0..] is all of it
                    st = cls(s0, d + 1)
                    return ("tail", "rawdata", st)
                return "?"
            return "?"
        seqs = set()
        for evs, ex in H.paths(b, lambda c: None):
            seq = []
            for e_ in evs:
                if e_[0] == "call" and H.last(str(e_[1])) in ("extend_from_slice", "extend", "append", "push"):
                    n_ = e_[2]
                    args_ = n_.get("args", [])
                    seq.append(cls(args_[0]) if args_ else "?")
            seqs.add(tuple(seq))
        # the vector the appends go to starts as the header's bytes (`(&header).into()`; conversions are transparent here)
        norm = lambda c: c[1] if isinstance(c, tuple) and c[0] == "into" else c
        seqs = {tuple(norm(c) for c in q) for q in seqs}
        recvs = {H.local_id(H.strip(x["recv"])) for x in H.walk(b) if x.get("k") == "mcall" and x["m"] in ("extend_from_slice", "extend", "append", "push") and H.is_local(H.strip(x["recv"]))}
        init = {norm(cls(lets[i])) for i in recvs if i in lets}
        raw = ("whole", "rawdata") if name == "packet" else ("tail", "rawdata", "offset")
        arms_ = L.prop_arms(F, spec["exec"]) or {}
        has_inner = any(info.get("kind") == "layer" for info in arms_.values())
        want = {("inner",), (raw,)} if has_inner else {(raw,)}
        ok_seq = (seqs == want) or (not has_inner and seqs <= {("inner",), (raw,)} and (raw,) in seqs)
        R.ob("packet-serialiser-shape", spec["pkt"], init == {"header"} and ok_seq,
             "the output starts as the bytes of %s (want the header); then, per path, appends %s (want %s)" % (sorted(init, key=repr), sorted(seqs, key=repr), sorted(want, key=repr)), F.loc(f))

    # a packet / layer object holds its header, its bytes, where its payload starts and its cached inner layer — no
    # second copy of its serialisation that an assignment to a field would leave stale
    for name, spec in L.LAYERS.items():
        if not spec.get("pkt_enc"):
            continue
        adt = F.adts.get(spec["obj"])
        if not R.anchor("struct " + spec["obj"], adt):
            continue
        flds = [fl.get("name") for v in adt.get("variants", []) for fl in v.get("fields", [])]
        extra = [f_ for f_ in flds if f_ not in ("header", "rawdata", "offset", "inner")]
        R.ob("packet-holds-no-derived-bytes", spec["pkt"], not extra, "fields %s%s" % (flds, ("; unexpected: %s" % extra) if extra else ""), nontrivial=False)

    # Object serialiser: layer variants delegate, non-layer variants (incl. Err) yield no bytes
    fo = F.fn("object::<impl std::convert::From<&object::Object> for std::vec::Vec<u8>>::from")
    layer_variants = {"Packet", "Eth", "Vlan", "Ipv4", "Ipv6", "Udp", "Tcp"}
    empty_variants = set()
    if R.anchor("From<&Object> for Vec<u8>", fo):
        for m in H.walk(H.body_of(fo)):
            if m.get("k") == "match" and not H.is_try(m):
                for a in m["arms"]:
                    vs = {H.last(v) for v in H.pat_variants(a["pat"])}
                    t = H.render(a["body"])
                    if t == "Vec::new()":
                        empty_variants |= vs
                    for v in vs & layer_variants:
                        R.ob("object-serialiser", v, t == "v.as_ref().into()", "Object::%s serialises via %s" % (v, t), F.loc(fo, a.get("line")))
    # (e) values cached into `.inner` by read paths are byte-complete layer objects
    n_cache = 0
    for name, spec in L.LAYERS.items():
        arms = L.prop_arms(F, spec["exec"])
        if arms is None:
            continue
        f = F.fn(spec["exec"])
        seen = set()
        for v, info in arms.items():
            if info.get("kind") != "layer" or id(info) in seen:
                continue
            seen.add(id(info))
            # helpers inlined (a `cached_or_parse(cell, || parse..)` helper included: its closure argument is applied),
            # named intermediates substituted
            body = H.beta(H.unlet(H.inline_helpers(F, info["body"], max_size=400)))
            # the read path: everything under the `else` of `if let Some(val) = setval`
            reps = [c for c in H.walk(body) if c.get("k") == "mcall" and c["m"] == "replace" and "inner" in H.render(c["recv"])]
            # where a pattern-bound local gets its value from: the scrutinee of the match / if-let that binds it
            bindsrc = {}
            for mm in H.walk(body):
                if mm.get("k") == "match":
                    for a_ in mm["arms"]:
                        for y in H.walk(a_["pat"]):
                            if y.get("k") == "bind":
                                bindsrc[y["id"]] = mm["scrut"]
                if mm.get("k") == "let" and mm.get("init") is not None and mm.get("pat", {}).get("k") != "bind":
                    for y in H.walk(mm["pat"]):
                        if y.get("k") == "bind":
                            bindsrc[y["id"]] = mm["init"]
            setval_ids = {y["id"] for y in H.walk(info["body"]) if y.get("k") == "bind" and y.get("name") == "val"}
            for c in reps:
                arg = H.strip(c["args"][0])
                src = H.render(arg)
                if any(H.local_id(x) in setval_ids for x in H.walk(arg)):
                    continue  # explicit assignment by the script, not a read
                n_cache += 1
                variants = set()

                def collect(e, depth=0):
                    for x in H.walk(e):
                        if x.get("k") == "call" and (x.get("ctor") or "").startswith("object::Object::"):
                            variants.add(H.last(x["ctor"]))
                        lid = H.local_id(x) if x.get("k") == "path" else None
                        if lid in bindsrc and depth < 3:
                            collect(bindsrc[lid], depth + 1)
                        elif lid in lets_ and depth < 3:
                            # a named value whose initialiser leaves the function on some branches: the values it can hold
                            for leaf in H.value_leaves(lets_[lid]):
                                collect(leaf, depth + 1)
                lets_ = {x["pat"]["id"]: x["init"] for x in H.walk(body) if x.get("k") == "let" and x.get("pat", {}).get("k") == "bind" and x.get("init") is not None}
                collect(arg)
                ok = bool(variants) and variants <= layer_variants
                R.ob("cached-inner-complete", "%s.%s" % (H.last(spec["exec"]), v), ok,
                     "a read stores %s into .inner: variants %s (error/null objects serialise to zero bytes: %s)"
                     % (src, sorted(variants), sorted(variants & empty_variants)), F.loc(f, info.get("line")))
    R.count("lazy-parse cache sites", n_cache)
    R.floor("lazy-parse cache sites", n_cache, 11)

    # (e2) the lazily parsed layer sees the parent's bytes whole: `X::from_bytes(data, offset)` on a read path takes the
    # parent's `rawdata` buffer itself (through clone / borrow / Rc::clone only) and the parent's recorded `offset` (0 for
    # the frame).  A clipped or re-sliced copy becomes the cached layer's rawdata, and the packet is then serialised from
    # that layer — bytes outside the clip are lost although nothing was assigned.
    def whole_rawdata(e, depth=0):
        """True if e denotes some object's `rawdata` buffer through transparent operations only"""
        e = H.strip(e)
        k = e.get("k")
        if k == "field":
            return e["name"] == "rawdata"
        if H.local_id(e) in cur_lets and depth < 6:
            # `let rawdata = Rc::clone(&eth.rawdata.borrow()); .. X::from_bytes(rawdata, ..)`
            return whole_rawdata(cur_lets[H.local_id(e)], depth + 1)
        if k in ("ref", "un"):
            return whole_rawdata(e["e"], depth)
        if k == "mcall" and e["m"] in ("clone", "borrow", "as_ref", "deref", "to_owned") and not e.get("args"):
            return whole_rawdata(e["recv"], depth)
        if k == "call" and (e.get("callee") or "").endswith("::clone") and len(e.get("args", [])) == 1:
            return whole_rawdata(e["args"][0], depth)
        if k in ("call", "mcall") and depth < 3:
            g2 = F.fn(e.get("callee") or "")
            b2 = H.body_of(g2) if g2 else None
            if b2 is not None:
                leaves = H.return_leaves(b2) if hasattr(H, "return_leaves") else []
                lets = {}
                for s_ in H.walk(b2):
                    if s_.get("k") == "let" and s_.get("pat", {}).get("k") == "bind" and s_.get("init") is not None:
                        lets[s_["pat"]["id"]] = s_["init"]

                def res(x, d=0):
                    x = H.strip(x)
                    if H.is_local(x) and H.local_id(x) in lets and d < 6:
                        return res(lets[H.local_id(x)], d + 1)
                    if x.get("k") in ("ref", "un"):
                        return res(x["e"], d)
                    if x.get("k") == "mcall" and x["m"] in ("clone", "borrow", "as_ref", "deref") and not x.get("args"):
                        return res(x["recv"], d)
                    if x.get("k") == "call" and (x.get("callee") or "").endswith("::clone") and len(x.get("args", [])) == 1:
                        return res(x["args"][0], d)
                    return whole_rawdata(x, depth + 1)
                return bool(leaves) and all(res(l[0] if isinstance(l, tuple) else l) for l in leaves)
        return False
    n_lazy = 0
    cur_lets = {}
    for p, g in sorted(F.fns.items()):
        if not p.startswith("vm::pktprop::") and not p.startswith("vm::interpreter::"):
            continue
        b = H.body_of(g)
        if b is None:
            continue
        cur_lets.clear()
        cur_lets.update({x["pat"]["id"]: x["init"] for x in H.walk(b) if x.get("k") == "let" and x.get("pat", {}).get("k") == "bind" and x.get("init") is not None
                         and "Mut" not in str(x["pat"].get("mode", ""))})
        k_ = 0
        for c in H.walk(b):
            cal = c.get("callee") or ""
            if c.get("k") == "call" and cal.startswith("builtins::protocols::") and H.last(cal) == "from_bytes" and len(c.get("args", [])) == 2:
                n_lazy += 1
                layer = cal.split("::")[-2]
                a0, a1 = c["args"]
                ok0 = whole_rawdata(a0)
                o = H.strip(a1)
                ok1 = (o.get("k") == "lit" and o.get("v") == 0) or (o.get("k") == "field" and o["name"] == "offset")
                R.ob("lazy-parse-input-whole", "%s#%d %s::from_bytes" % (H.last(p), k_, layer), ok0 and ok1,
                     "data = %s (%s); offset = %s" % (H.render(a0)[:60], "the parent's rawdata" if ok0 else "NOT the parent's whole rawdata", H.render(a1)),
                     F.loc(g, c.get("line")))
                k_ += 1
    R.floor("lazy layer parses", n_lazy, 12)

    # (f) getters are pure: only set_* methods (and constructors) write header / rawdata cells
    writers = {}
    for p, g in F.fns.items():
        b = H.body_of(g)
        if b is None or "/protocols/" not in g["file"] and not g["file"].endswith("builtins/pcap.rs"):
            continue
        for x in H.walk(b):
            if x.get("k") == "mcall" and x["m"] in ("borrow_mut", "replace", "swap", "take", "set"):
                r = H.strip(x["recv"])
                if r.get("k") == "field" and r["name"] in ("header", "rawdata"):
                    writers.setdefault(p, set()).add(r["name"])
    bad = sorted(p for p in writers if not re.search(r"::set_[a-z_0-9]+$", p))
    R.ob("getters-are-pure", "writers of header/rawdata cells are set_* methods only", not bad,
         "%d writer functions; non-setters: %s" % (len(writers), bad[:5]))
    R.count("functions writing header cells", len(writers))
    R.floor("setter methods writing header cells", len(writers), 40)
    # exec_prop_* read branches call no setter
    for name, spec in L.LAYERS.items():
        arms = L.prop_arms(F, spec["exec"])
        if not arms:
            continue
        f = F.fn(spec["exec"])
        seen = set()
        for v, info in arms.items():
            if info.get("kind") != "field" or id(info) in seen:
                continue
            seen.add(id(info))
            # the arm as it runs for a read (the value-to-store parameter is None): it calls a getter and no setter
            sv = [pr.get("id") for i_, pr in enumerate(f["hir"]["params"]) if i_ + 1 < len(f["mir"]["locals"])
                  and re.search(r"Option<std::rc::Rc<object::Object>>", f["mir"]["locals"][i_ + 1].get("ty") or "")]
            rd = H.specialise(info["body"], sv[0], "None") if len(sv) == 1 else None
            ok = rd is not None and any(c.get("k") == "mcall" for c in H.walk(rd)) and not any(
                c.get("k") == "mcall" and c["m"].startswith("set_") for c in H.walk(rd))
            R.ob("getters-are-pure", "%s.%s read branch" % (H.last(spec["exec"]), v), ok, "", F.loc(f, info.get("line")), nontrivial=False)

    # (g) routing: every output path serialises the packet through From<&PcapPacket>
    target = L.LAYERS["packet"]["pkt_enc"]
    wa = F.fn("builtins::pcap::Pcap::write_all")
    if R.anchor("Pcap::write_all", wa):
        B = M.Body(wa)
        calls = [b["term"].get("callee_inst") or "" for b in B.blocks if b["term"]["k"] == "call" and not b.get("cleanup")]
        ser = [c for c in calls if "builtins::pcap::PcapPacket as std::convert::Into<std::vec::Vec<u8>>>::into" in c]
        R.ob("output-routing", "Pcap::write_all serialises via From<&PcapPacket>", len(ser) == 1 and target in F.fns, str(ser), F.loc(wa))
    for fn, what in (("builtins::functions::builtin_pcap_write", "builtins::pcap::Pcap::write_all"), ("run_filters", "builtins::pcap::Pcap::write_all")):
        g = F.fn(fn)
        if R.anchor(fn, g):
            # directly or through private helpers of the same file
            cg = M.CallGraph(F)
            reach = {q for q in cg.reachable_from([fn]) if q == what or (q in F.fns and F.fns[q]["file"] == g["file"])}
            direct = set()
            for q in reach:
                direct |= set(cg.edges.get(q, ()))
            R.ob("output-routing", "%s writes packets through Pcap::write_all" % H.last(fn), what in direct or what in reach, "", F.loc(g))
    bw = F.fn("builtins::functions::builtin_write")
    if R.anchor("builtin_write", bw):
        B = M.Body(bw)
        calls = [b["term"].get("callee_inst") or "" for b in B.blocks if b["term"]["k"] == "call" and not b.get("cleanup")]
        ser = [c for c in calls if "builtins::pcap::PcapPacket as std::convert::Into<std::vec::Vec<u8>>>::into" in c]
        ok_ = len(ser) == 3
        det_ = "%d serialisation calls" % len(ser)
        if not ok_:
            # the same, however the three handle kinds share code: in the normal form of write() (a shared `write_object(out,
            # data)` helper read in place) every arm for a packet argument serialises it with `.into()` to Vec<u8> and writes that
            nb = H.normal(F, H.body_of(bw), keep=("write", "write_all", "into"))
            pk = [a_ for m_ in H.walk(nb) if m_.get("k") == "match" and not H.is_try(m_) for a_ in m_["arms"]
                  if any((v or "").endswith("Object::Packet") for v in H.pat_variants(a_["pat"]))]
            good = [a_ for a_ in pk if any(c.get("k") == "mcall" and c["m"] == "into" and "Vec<u8>" in (c.get("ty") or "") and "PcapPacket" in (c.get("recv_ty") or "")
                                           for c in H.walk(a_["body"]))]
            ok_ = bool(pk) and len(good) == len(pk)
            det_ += "; in normal form %d of %d packet arms serialise through into()" % (len(good), len(pk))
        R.ob("output-routing", "write() serialises packets through From<&PcapPacket> for all three handle kinds", ok_, det_, F.loc(bw))
