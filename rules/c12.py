"""C12 — format / print mini-language (structural part only).

Decided: the finite tables of the renderer and the sibling agreement of the four printing builtins —
  (a) specifier letter → number format → formatting trait: b→Binary, o→Octal, x→LowerHex, X→UpperHex, none→Display
      (composition of format_buf's letter table with format_obj's dispatch, read off the decoded format_args! sites);
  (b) the two escapes write exactly "{" and "}";
  (c) argument selection: an unindexed specifier takes args[cursor] and advances the cursor by one (cursor starts
      behind the format string), an indexed one takes args[n + 1]; both are behind a bounds test whose failure is an Err;
  (d) print/println write to stdout, eprint/eprintln to stderr; the ln variants add exactly one newline; all four
      return the number of bytes written (String::len of the pieces, +1 for the newline).
NOT decided: what format_buf's character state machine produces for a given format string (fill / width / alignment
interplay, nesting of braces) — that is the behaviour of a loop over runtime characters.  The check therefore
establishes necessary conditions of C12, not C12 (DESIGN.md §4)."""
from .lib import hir as H
from .lib import fmtargs as FA
from .lib.tables import builtin_table

EXPL = ("Table agreement (E2) on the renderer's finite tables (specifier letter → formatting trait, escapes, argument "
        "selection arithmetic and its bounds tests) and sibling agreement of print / println / eprint / eprintln (stream, "
        "newline, returned byte count), read from typed HIR with helpers inlined and format_args! templates decoded. "
        "The state machine's output for a given format string is not decided.")

P = "builtins::print::"
WANT_RADIX = {"b": "Binary", "o": "Octal", "x": "LowerHex", "X": "UpperHex"}


def enclosing_conditions(root, target):
    """rendered conditions (with polarity) of the if / match-arm chain around node `target` inside `root`"""
    found = []

    def go(n, conds):
        if n is target:
            found.append(list(conds))
            return True
        if isinstance(n, list):
            return any(go(x, conds) for x in n)
        if not isinstance(n, dict):
            return False
        if n.get("k") == "if":
            if go(n["c"], conds):
                return True
            if go(n["t"], conds + [H.render(n["c"])]):
                return True
            if n.get("e") is not None and go(n["e"], conds + ["!(" + H.render(n["c"]) + ")"]):
                return True
            return False
        if n.get("k") == "match":
            if go(n.get("scrut"), conds):
                return True
            for a in n["arms"]:
                c2 = conds + ["%s is %s" % (H.render(n["scrut"]), H.render_pat(a["pat"]))]
                if a.get("guard") is not None:
                    c2 = c2 + [H.render(a["guard"])]
                if go(a["body"], c2):
                    return True
            return False
        for v in n.values():
            if isinstance(v, (dict, list)) and go(v, conds):
                return True
        return False
    go(root, [])
    return found[0] if found else None


def run(F, R, tier):
    R.explanation = EXPL
    R.assumptions += ["core::fmt's Binary/Octal/LowerHex/UpperHex/Display render as documented (std)",
                      "the output of the character state machine for a given format string is not decided"]
    fb, fo = F.fn(P + "format_buf"), F.fn(P + "format_obj")
    FO = P + "format_obj"
    if fb is not None and fo is None:
        # the renderer by role: the one function of the module, reachable from format_buf, that pads with `repeat`
        from .lib import mir as M_
        reach = M_.CallGraph(F).reachable_from([P + "format_buf"])
        cands = [q for q in sorted(reach) if q in F.fns and q != P + "format_buf" and F.fns[q]["file"] == fb["file"] and H.body_of(F.fns[q]) is not None
                 and any(c.get("k") == "mcall" and c["m"] == "repeat" for c in H.walk(H.body_of(F.fns[q])))]
        if len(cands) == 1:
            FO, fo = cands[0], F.fns[cands[0]]
    if not (R.anchor(P + "format_buf", fb) and R.anchor(P + "format_obj", fo)):
        return
    bb = H.inline_helpers(F, H.body_of(fb), skip=(FO,))
    bo = H.inline_helpers(F, H.body_of(fo))
    # ---- (a0) default justification and where the padding goes ------------------------------------------------------------------
    from .lib import decide as D
    from .lib import fmtargs as FA2
    # the two ways the padded text is put together (format! with two arguments, one of them the repeated fill) are marked,
    # and the conditional that chooses between them is read as a decision table over the alignment and the value's kind
    pad_ids = {x["pat"]["id"] for x in H.walk(bo) if x.get("k") == "let" and x.get("pat", {}).get("k") == "bind" and x.get("init") is not None
               and any(c.get("k") == "mcall" and c["m"] == "repeat" for c in H.walk(x["init"]))}
    marks = {}
    for node in H.walk(bo):
        if node.get("k") != "call" or not (node.get("callee") or "").endswith("fmt::format"):
            continue
        for _, parts in FA2.sites(node):
            args_ = [pt[1] for pt in parts if pt[0] == "arg"]
            lits_ = [pt[1] for pt in parts if pt[0] == "lit"]
            if len(args_) == 2 and not lits_:
                is_pad = [any(c.get("k") == "mcall" and c["m"] == "repeat" for c in H.walk(a_)) or H.local_id(H.strip(a_)) in pad_ids for a_ in args_]
                if is_pad in ([True, False], [False, True]):
                    marks[id(node)] = {"k": "lit", "lk": "str", "v": "pad-first" if is_pad[0] else "value-first", "ty": "&str"}
    mbo = H.replace_nodes(bo, marks)
    kinds_seen = lambda x: {y.get("v") for y in H.walk(x) if y.get("k") == "lit" and y.get("v") in ("pad-first", "value-first")}
    holders = sorted([x for x in H.walk(mbo) if x.get("k") in ("if", "match") and not H.is_try(x) and kinds_seen(x) == {"pad-first", "value-first"}], key=H._size)
    ok, det = False, "the two layouts (fill first / value first) were not found under one decision: %s" % sorted(m_["v"] for m_ in marks.values())
    if holders:
        # the decision may depend on locals computed before it (`let justify = match justify { Default => .. }`): evaluate the
        # function body up to and including the holder
        rows, why = D.table_expr(F, mbo, inline=False, upto=holders[0])
        det = why
        if rows is not None:
            rows2 = [(e_, "pad-first" if "pad-first" in str(r_) else ("value-first" if "value-first" in str(r_) else "neither")) for e_, r_ in rows]
            ok, det = D.check(rows2, [(r"^[\w\.\*&]+ : SpecJustify$", "just"), (r"^[\w\.\*&]+ : Object$", "kind")],
                              {"just": ("Left", "Right", "Default"), "kind": ("Integer", "Float", "Byte", "Str", "Char", "Bool", "Null", "Arr", "Map", "other")},
                              lambda e_: "value-first" if e_["just"] == "Left" else ("pad-first" if (e_["just"] == "Right" or e_["kind"] == "Integer") else "value-first"))
    R.ob("default-justify", "`<` pads on the right, `>` on the left; without either an integer is padded on the left (right-justified), every other value on the right",
         ok, det, F.loc(fo))
    # ---- (a) letter → number format → trait ----------------------------------------------------------------------------------
    letter = {}
    enum_ty = None
    for m in H.matches_in(bb, lambda x: True):
        arms = [(a["pat"]["lit"]["v"], H.ctor_of(H.strip(a["body"]))) for a in m["arms"] if a["pat"].get("k") == "plit" and a["pat"]["lit"].get("lk") == "char"]
        arms = [(c, v) for c, v in arms if v]
        if len(arms) >= 3 and len({v.rsplit("::", 1)[0] for _, v in arms}) == 1:
            letter = {c: H.last(v) for c, v in arms}
            enum_ty = arms[0][1].rsplit("::", 1)[0]
    if not R.anchor("format_buf: the match from specifier letters to number formats", letter):
        return
    variants = [v for v, _ in (F.enum_variants(enum_ty) or [])]
    trait_of = {}
    for m in H.matches_in(bo, lambda x: True):
        for a in m["arms"]:
            pats = a["pat"]["pats"] if a["pat"].get("k") == "or" else [a["pat"]]
            for pt in pats:
                heads = [pt] + (pt.get("pats", []) if pt.get("k") == "tuple" else [])
                for hp in heads:
                    for v in H.pat_variants(hp):
                        if v and v.rsplit("::", 1)[0] == enum_ty:
                            tr = {x[2] for _, parts in FA.sites(a["body"]) for x in parts if x[0] == "arg"}
                            if tr:
                                trait_of.setdefault(H.last(v), set()).update(tr)
    for c, want in sorted(WANT_RADIX.items()):
        v = letter.get(c)
        got = sorted(trait_of.get(v, ())) if v else None
        R.ob("radix-table", "specifier %r renders an integer with %s" % (c, want), got == [want],
             "%r → %s → %s" % (c, v, got), F.loc(fo))
    extra = sorted(set(letter) - set(WANT_RADIX))
    R.ob("radix-table", "no other letter selects a number format", not extra, "letters: %s" % sorted(letter), F.loc(fb))
    default = [v for v in variants if v not in letter.values()]
    R.ob("radix-table", "without a letter the value is rendered with Display", len(default) == 1 and sorted(trait_of.get(default[0], ())) == ["Display"],
         "default format %s → %s" % (default, sorted(trait_of.get(default[0], ())) if default else None), F.loc(fo))
    # ---- (b) escapes ----------------------------------------------------------------------------------------------------------
    lit_sites = []
    for x in H.walk(bb):
        if x.get("k") == "call" and (x.get("callee") or "").endswith("Arguments::<'a>::from_str"):
            a = H.strip(x["args"][0])
            if a.get("k") == "lit":
                lit_sites.append((a["v"], x))
    for brace in ("{", "}"):
        ss = [x for v, x in lit_sites if v == brace]
        ok = len(ss) == 1
        det = "%d literal writes of %r" % (len(ss), brace)
        if ok:
            conds = enclosing_conditions(bb, ss[0]) or []
            n = sum(c.count("'%s'" % brace) for c in conds if not c.startswith("!("))
            ok = n >= 2
            det = "written under %s" % [c[:50] for c in conds]
        R.ob("escape", "%s%s writes a single %r" % (brace, brace, brace), ok, det, F.loc(fb))
    other = sorted({v for v, _ in lit_sites} - {"{", "}"})
    R.ob("escape", "format_buf writes no other fixed text", not other, "literal writes: %s" % other, F.loc(fb))
    # ---- (c) argument selection -------------------------------------------------------------------------------------------------
    lets = {x["pat"]["id"]: x for x in H.walk(bb) if x.get("k") == "let" and x.get("pat", {}).get("k") == "bind" and x.get("init") is not None}
    calls = [c for c in H.walk(bb) if c.get("k") in ("call", "mcall") and c.get("callee") == FO]
    kinds = []

    def guarded(name):
        return any(x.get("k") == "if" and H.render(H.strip(x["c"])) in ("(%s >= args.len())" % name, "(args.len() <= %s)" % name) and
                   any(y.get("k") == "call" and H.last(y.get("ctor") or "") == "Err" for y in H.walk(x["t"])) for x in H.walk(bb))

    def classify(e, g_outer, d=0):
        """leaves of the index expression: ('sequential' | 'indexed' | '?', text, ok)"""
        e = H.strip(H.untry(H.strip(e)))
        out = []
        if H.is_local(e) and d < 5:
            lid = H.local_id(e)
            nm = e["res"]["name"]
            g_here = g_outer or guarded(nm)
            incs = [x for x in H.walk(bb) if x.get("k") == "assignop" and x.get("op") in ("+", "+=") and H.local_id(H.strip(x["l"])) == lid]
            init = lets.get(lid, {}).get("init")
            init_s = H.strip(H.untry(H.strip(init))) if init is not None else {}
            if init_s.get("k") == "lit" and incs:
                one = all(H.strip(x["r"]).get("v") == 1 for x in incs)
                return [("sequential", "starts at %s, += %s" % (init_s.get("v"), [H.strip(x["r"]).get("v") for x in incs]), g_here and init_s.get("v") == 1 and one and len(incs) == 1)]
            if init is None:
                return [("?", nm, False)]
            for leaf in H.value_leaves(init):
                out += classify(leaf, g_here, d + 1)
            return out
        if e.get("k") == "bin" and e.get("op") == "-" and H.is_local(H.strip(e["l"])) and H.strip(e["r"]).get("k") == "lit" and d < 5:
            # `cursor += 1; cursor - 1`: the value the cursor had before the step (the block's last statement advances the
            # cursor by what the tail expression takes off again)
            lid = H.local_id(H.strip(e["l"]))
            k_ = H.strip(e["r"]).get("v")
            for blk in H.walk(bb):
                if blk.get("k") == "block" and blk.get("expr") is not None and H.strip(blk["expr"]) is e and blk.get("stmts"):
                    last = blk["stmts"][-1]
                    le = last.get("e") if last.get("k") in ("semi", "expr") else None
                    if le is not None and le.get("k") == "assignop" and le.get("op") in ("+", "+=") and H.local_id(H.strip(le["l"])) == lid and H.strip(le["r"]).get("v") == k_:
                        return classify(e["l"], g_outer, d + 1)
        if e.get("k") == "bin" and e.get("op") == "+":
            r = H.strip(e["r"])
            parsed = any(y.get("k") == "mcall" and y["m"] == "parse" for y in H.walk(e))
            if not parsed:
                # `given + 1` with `given` parsed in an earlier let
                l = H.strip(H.untry(H.strip(e["l"])))
                if H.is_local(l) and H.local_id(l) in lets:
                    parsed = any(y.get("k") == "mcall" and y["m"] == "parse" for y in H.walk(lets[H.local_id(l)]["init"]))
            return [("indexed", H.render(e)[:60], g_outer and parsed and r.get("k") == "lit" and r.get("v") == 1)]
        return [("?", H.render(e)[:40], False)]
    for c in calls:
        arg = H.strip(c["args"][-1])
        idx = H.strip(arg["i"]) if arg.get("k") == "index" and H.render(H.strip(arg["e"])) == "args" else None
        if idx is None:
            kinds.append(("?", H.render(arg)[:40], False))
            continue
        kinds += classify(idx, False)
    R.ob("argument-selection", "an unindexed specifier takes args[cursor], cursor starting behind the format string and advancing by one; bounds-tested",
         any(k == "sequential" and ok for k, _, ok in kinds), str([x for x in kinds if x[0] == "sequential"] or kinds), F.loc(fb))
    R.ob("argument-selection", "an indexed specifier {n} takes args[n + 1]; bounds-tested", any(k == "indexed" and ok for k, _, ok in kinds),
         str([x for x in kinds if x[0] == "indexed"] or kinds), F.loc(fb))
    R.ob("argument-selection", "no other way of choosing the argument", all(k in ("sequential", "indexed") for k, _, _ in kinds) and bool(kinds), str(kinds), F.loc(fb))
    # ---- (d) the print family ---------------------------------------------------------------------------------------------------
    tab = dict(builtin_table(F, R) or [])
    want = {"print": ("stdout", False), "println": ("stdout", True), "eprint": ("stderr", False), "eprintln": ("stderr", True)}
    for nm, (stream, ln) in want.items():
        g = F.fn(tab.get(nm, ""))
        if not R.anchor("builtin " + nm, g):
            continue
        b = H.beta(H.inline_helpers(F, H.body_of(g), skip=(P + "format_buf",)))
        uses_fb = any(c.get("k") == "call" and c.get("callee") == P + "format_buf" for c in H.walk(b))
        per_path = set()
        for evs, ex in H.paths(b, lambda c: None, limit=2000):
            if ex == "limit":
                per_path.add(("limit",))
                continue
            # paths that end in an Err (arity / format errors) write nothing that matters here
            calls_ = [e_ for e_ in evs if e_[0] == "call"]
            if not any(H.last(str(e_[1])) == "Integer" or (e_[2].get("ctor") or "").endswith("Object::Integer") for e_ in calls_):
                continue
            st = tuple(sorted({H.last(e_[1]) for e_ in calls_ if e_[1] in ("std::io::stdout", "std::io::stderr")}))
            nl = 0
            for e_ in calls_:
                if str(e_[1]).endswith("Arguments::<'a>::from_str"):
                    a0 = H.strip(e_[2]["args"][0])
                    nl += a0.get("v", "").count("\n") if a0.get("k") == "lit" else 0
            p1 = sum(1 for e_ in evs if e_[0] == "assignop" and e_[2] in ("+", "+=") and H.strip(e_[3]).get("k") == "lit" and H.strip(e_[3]).get("v") == 1)
            per_path.add((st, nl, p1))
        streams = sorted({x for pp in per_path if pp != ("limit",) for x in pp[0]})
        R.ob("print-family", "%s formats through format_buf and writes to %s only" % (nm, stream), uses_fb and bool(per_path) and all(pp != ("limit",) and set(pp[0]) <= {stream} for pp in per_path) and streams == [stream],
             "format_buf used: %s; streams per successful path: %s" % (uses_fb, sorted(per_path)), F.loc(g))
        lens = [x for x in H.walk(b) if x.get("k") == "mcall" and x["m"] == "len" and (x.get("callee") or "").endswith("String::len")]
        chars = [x for x in H.walk(b) if x.get("k") == "mcall" and x["m"] in ("chars", "count") and "str" in (x.get("callee") or "")]
        ret_int = any(c.get("k") == "call" and H.last(c.get("ctor") or "") == "Integer" for c in H.walk(b))
        nl_ok = bool(per_path) and all(pp != ("limit",) and (pp[1], pp[2]) == ((1, 1) if ln else (0, 0)) for pp in per_path)
        R.ob("print-family", "%s %s" % (nm, "adds one newline and counts it" if ln else "adds no newline"), nl_ok,
             "(streams, newline literals written, `+= 1` on the count) per successful path: %s" % sorted(per_path), F.loc(g))
        R.ob("print-family", "%s returns the number of bytes written" % nm, bool(lens) and not chars and ret_int,
             "String::len uses: %d; character counts: %d; Integer result: %s" % (len(lens), len(chars), ret_int), F.loc(g))
