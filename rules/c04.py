"""C04 — name resolution and closure capture (structural clauses only; closure
values and shadowing across sibling blocks are not decided)."""
import re

from .lib import hir as H
from .lib import decide as D
from .lib import mir as M
from .lib import emit as E
from .lib.vmarms import vm_arms

EXPL = ("(a) Must-pass-through (E3, MIR): every path of SymbolTable::resolve to its None result passes the test of "
        "self.outer — the enclosing table is consulted whenever no local symbol qualifies. (b) Pairing (E3): scope_depth "
        "+= 1 / -= 1 bracket compile_block_statement, and enter_scope / leave_scope bracket compile_function_literal and "
        "compile_filter_statement, as unconditional top-level statements (error exits by `?` in between return before "
        "the closing half; the compiler is discarded after an error). (c) Parameters of the lookup (append on define, "
        "newest-first scan with a `<=` depth filter) are reported as information. (d) Closure plumbing: free symbols are "
        "captured before leave_scope, loaded in free_symbols order right before emit(Closure, [idx, free_symbols.len()]); "
        "the VM's Closure arm hands both operands to push_closure, which copies exactly that many stack slots in order, "
        "and GetFree/SetFree index the current closure's free vector. Captured values and shadowing semantics across "
        "sibling blocks: (e) a block's bindings leave the table when the block ends (compile_block_statement calls "
        "symtab.end_block(depth of that block) after its statements on the success path; end_block drops the Global/Local "
        "symbols of that depth or deeper from every name's list), so what a table holds is exactly the bindings of the "
        "open blocks; (f) an enclosing table is therefore searched without the inner function's block depth (depths are "
        "per function scope and not comparable across tables); (g) a captured (Free) symbol is found again at any "
        "depth of the capturing function, so one variable is captured once. Captured *values* are not decided.")

C = "compiler::Compiler::"


def top_level_calls(body):
    """names of Compiler methods called by top-level statements of the function body (through `?` and let)"""
    out = []
    if body.get("k") != "block":
        return out
    items = list(body.get("stmts", []))
    if body.get("expr") is not None:
        items.append({"k": "expr", "e": body["expr"]})
    for s in items:
        e = s.get("init") if s["k"] == "let" else s.get("e")
        if e is None:
            continue
        e = H.untry(H.strip(e))
        if e.get("k") in ("call", "mcall"):
            out.append((H.last(e.get("callee") or e.get("m") or ""), "call"))
        elif e.get("k") == "assignop":
            out.append((H.render(e), "assignop"))
        else:
            out.append((e.get("k"), "other"))
    return out


def run(F, R, tier):
    R.explanation = EXPL
    R.assumptions += ["the symbol-table data structure of today (store: name → Vec<Symbol>) is what rule (c) reports on"]
    # ---- (a) resolve consults outer before answering None ---------------------------------------------------------------
    rs = F.fn("compiler::symtab::SymbolTable::resolve")
    if R.anchor("SymbolTable::resolve", rs):
        B = M.Body(rs)
        none_blocks = set()
        for bi, b in enumerate(B.blocks):
            if b.get("cleanup"):
                continue
            for s in b["stmts"]:
                if s["k"] == "assign" and s["lhs"]["l"] == 0 and not s["lhs"]["p"] and s["rv"]["k"] == "agg" and s["rv"]["ak"].endswith("Option::None"):
                    none_blocks.add(bi)
            # `x?` on an Option: the None answer is built by FromResidual::from_residual
            t = b["term"]
            if t["k"] == "call" and not t["dest"]["p"] and t["dest"]["l"] == 0 and "from_residual" in (t.get("callee") or t.get("decl") or "") \
                    and "Option" in (B.local_ty(0) or ""):
                none_blocks.add(bi)
        barriers = set()
        for bi, b in enumerate(B.blocks):
            t = b["term"]
            if t["k"] == "switch":
                sym = B.sym_op(t["d"], through_vars=True)
                if sym[0] == "discr" and "outer" in M.show(sym[1]) and "self" in M.show(sym[1]):
                    barriers.add(bi)
        reach = M.reachable_avoiding(B, 0, barriers, through_start=False)
        R.ob("resolve-consults-outer", "every path to the None result tests self.outer", bool(none_blocks) and bool(barriers) and not (reach & none_blocks),
             "%d None-result blocks, %d tests of self.outer, None reachable without the test: %s" % (len(none_blocks), len(barriers), sorted(reach & none_blocks)), F.loc(rs))
        # (c) informational parameters
        txt = H.render(H.body_of(rs))
        R.note("resolve: scans %s with filter %s" % ("newest first (iter().rev())" if ".iter().rev()" in txt else "?",
                                                      "(symbol.depth <= depth)" if "(symbol.depth <= depth)" in txt else "?"))
        # results for outer symbols: Global/Builtin returned as is, every other kind through define_free — the decision
        # of the innermost conditional around the define_free call, as a table over the outer symbol's scope
        body = H.body_of(rs)
        holders = [x for x in H.walk(body) if x.get("k") in ("if", "match") and not H.is_try(x) and
                   any(c.get("k") in ("call", "mcall") and H.last(c.get("callee") or "") == "define_free" for c in H.walk(x))]
        holders.sort(key=H._size)
        ok, det = False, "no conditional around define_free"
        for hnode in holders:
            rows, why = D.table_expr(F, hnode, keep=("define_free", "resolve"))
            if rows is None:
                det = why
                continue
            keys = {k for e, _ in rows for k in e}
            if not any(k.endswith(": SymbolScope") for k in keys):
                continue
            scope_keys = [k for k in keys if k.endswith(": SymbolScope")]
            roles = [(r"^%s$" % re.escape(scope_keys[0]), "scope")] + [(r".*", "x%d" % n) for n in range(1)]
            cls = [(e, "free" if "define_free" in str(r) else ("none" if str(r).endswith("None") else "same")) for e, r in rows]
            cls = [(e, r) for e, r in cls if all(k == scope_keys[0] for k in e)]
            ok, det = D.check(cls, [(r"^%s$" % re.escape(scope_keys[0]), "scope")],
                              {"scope": ("Global", "Local", "BuiltinFn", "BuiltinVar", "Free", "Function")},
                              lambda e: "same" if e["scope"] in ("Global", "BuiltinFn", "BuiltinVar") else "free")
            ok = ok and len(cls) == len(rows)
            if len(cls) != len(rows):
                det = "the decision also depends on %s" % sorted(keys - set(scope_keys[:1]))
            break
        R.ob("resolve-free-capture", "non-global outer symbols are turned into free symbols", ok, det, F.loc(rs))
    if rs is not None:
        b = H.body_of(rs)
        rec = [c for c in H.walk(b) if c.get("k") == "mcall" and c["m"] == "resolve" and "outer" in H.render(c["recv"])]
        arg = H.render(rec[0]["args"][1]) if len(rec) == 1 and len(rec[0].get("args", [])) == 2 else None
        R.ob("outer-lookup-depth", "the enclosing table is not filtered by the inner function's block depth", arg == "MAX",
             "outer.resolve(name, %s)%s" % (arg, "" if arg == "MAX" else ": block depths are counted per function scope; passing this scope's depth hides block-local bindings of the "
                                          "enclosing function from a nested function, or shows it bindings of a block that has ended"), F.loc(rs))
        # the selection predicate of the local lookup: the condition of the `if` in the loop over the name's symbols, or
        # the closure handed to find / rfind / position — as a decision table: visible iff depth <= limit or captured
        preds = []
        newest_first = []
        for x in H.walk(b):
            if x.get("k") == "mcall" and x["m"] in ("find", "rfind", "position", "rposition", "find_map", "filter", "any", "max_by_key", "min_by_key", "last") \
                    and x.get("args") and H.strip(x["args"][0]).get("k") == "closure" and "depth" in H.render(x["args"][0]):
                preds.append(H.strip(x["args"][0])["body"])
                revs = H.render(x["recv"]).count(".rev()")
                # the first match of a newest-first scan: find/position over a reversed iterator, or rfind/rposition over a forward one
                newest_first.append((x["m"] in ("find", "position") and revs == 1) or (x["m"] in ("rfind", "rposition") and revs == 0))
            if x.get("k") == "match" and x.get("src", "").startswith("ForLoop") and x["scrut"].get("k") == "call" and x["scrut"].get("args") and \
                    H.last(x["scrut"].get("callee") or "") == "into_iter":
                conds = [y for y in H.walk(x) if y.get("k") == "if" and "depth" in H.render(y["c"]) and any(z.get("k") in ("ret", "break") for z in H.walk(y["t"]))]
                if conds:
                    preds.append(conds[0]["c"])
                    newest_first.append(H.render(x["scrut"]["args"][0]).count(".rev()") == 1 and len(conds) == 1)
        R.ob("newest-first", "the lookup returns the first visible symbol of a newest-first scan of the name's bindings (a later `let` of a name hides an earlier one)",
             bool(newest_first) and all(newest_first), "%d scans over the name's symbols, newest-first first-match: %s" % (len(newest_first), newest_first), F.loc(rs))
        ok, det = False, "no selection predicate over the name's symbols found"
        for pr in preds:
            rows, why = D.table_expr(F, pr)
            if rows is None:
                det = why
                continue
            roles = [(r"^depth < \w+\.depth$", "deeper"), (r"^\w+\.scope : SymbolScope$", "scope"), (r"^\w+\.depth < depth$", "shallower"),
                     (r"^depth == \w+\.depth$|^\w+\.depth == depth$", "same")]
            doms = {"deeper": (True, False), "scope": ("Free", "other")}
            ok, det = D.check(rows, roles[:2], doms, lambda e: (e["scope"] == "Free") or not e["deeper"])
            if ok:
                break
        R.ob("free-symbol-visible", "a symbol is visible at its own depth and shallower; a captured symbol is found again at any depth of the capturing "
             "function (one capture per variable)", ok, det, F.loc(rs))
    eb = F.fn("compiler::symtab::SymbolTable::end_block")
    if R.anchor("SymbolTable::end_block (a block's bindings end with the block)", eb):
        t = H.render(H.body_of(eb))
        cl = [x for x in H.walk(H.body_of(eb)) if x.get("k") == "mcall" and x["m"] in ("retain", "retain_mut") and x.get("args") and H.strip(x["args"][0]).get("k") == "closure"]
        ok, det = False, "no retain(..) over the symbol lists"
        if cl and ("self.store.values_mut()" in t or "self.store.iter_mut()" in t):
            rows, why = D.table_expr(F, H.strip(cl[0]["args"][0])["body"])
            det = why
            if rows is not None:
                roles = [(r"^\w+\.depth < depth$", "shallower"), (r"^\w+\.scope : SymbolScope$", "scope")]
                doms = {"shallower": (True, False), "scope": ("Global", "Local", "BuiltinFn", "BuiltinVar", "Free", "Function")}
                ok, det = D.check(rows, roles, doms, lambda e: e["shallower"] or e["scope"] not in ("Global", "Local"))
        R.ob("block-end-invalidation", "end_block(d) keeps, in every name's list, only symbols shallower than d (captured and builtin symbols stay)", ok, det, F.loc(eb))
    df = F.fn("compiler::symtab::SymbolTable::define")
    if R.anchor("SymbolTable::define", df):
        txt = H.render(H.body_of(df))
        R.note("define: %s" % ("appends to the name's symbol list and increments num_definitions" if ".push(Rc::clone(&symbol))" in txt and "self.num_definitions += 1" in txt else "?"))
        # every definition gets a slot of its own: the index of the Symbol built by define() is the table's running
        # count on every path, and every return is behind the increment of that count.  Reusing the slot of an earlier
        # binding of the same name lets code compiled against the earlier binding (a function written between two
        # `let x`) read and write the later one.
        B = M.Body(df)
        news = [(bi, b["term"]) for bi, b in enumerate(B.blocks) if not b.get("cleanup") and b["term"]["k"] == "call" and (b["term"].get("callee") or "").endswith("symtab::Symbol::new")]
        idx_ok, idx_txt = bool(news), []
        for bi, t in news:
            a = B.sym_op(t["args"][2], through_vars=True) if len(t["args"]) > 2 else ("?",)
            sh = M.show(a)
            idx_txt.append(sh)
            if sh.replace(" ", "") not in ("*self.num_definitions", "self.num_definitions", "(*self).num_definitions"):
                idx_ok = False
        incs = set()
        for bi, b in enumerate(B.blocks):
            for st in b["stmts"]:
                if st.get("k") == "assign" and any(isinstance(pp, dict) and pp.get("n") == "num_definitions" for pp in st["lhs"]["p"]):
                    incs.add(bi)
        free = M.reachable_avoiding(B, 0, incs)
        rets = sorted(free & M.return_blocks(B))
        R.ob("define-index", "a new symbol takes index num_definitions, which is then incremented", idx_ok and bool(incs) and not rets,
             "index argument of Symbol::new: %s; returns reachable without incrementing num_definitions: %s" % (idx_txt, rets), F.loc(df))
    # a captured symbol's index is its position in the list of captured symbols (what GetFree / the closure's copy is indexed by):
    # the length right after the symbol was pushed, minus one — or the length right before the push
    dff = F.fn("compiler::symtab::SymbolTable::define_free")
    if R.anchor("SymbolTable::define_free", dff):
        Bf = M.Body(dff)
        newsf = [(bi, b["term"]) for bi, b in enumerate(Bf.blocks) if not b.get("cleanup") and b["term"]["k"] == "call" and (b["term"].get("callee") or "").endswith("symtab::Symbol::new")]
        pushes = [bi for bi, b in enumerate(Bf.blocks) if not b.get("cleanup") and b["term"]["k"] == "call" and (b["term"].get("callee") or "").endswith("Vec::<T, A>::push")
                  and "free_symbols" in M.show(Bf.sym_op(b["term"]["args"][0], through_vars=True))]
        okf, detf = len(newsf) == 1 and len(pushes) == 1, "%d Symbol::new, %d pushes to free_symbols" % (len(newsf), len(pushes))
        if okf:
            bi, t = newsf[0]
            a = Bf.sym_op(t["args"][2], through_vars=True)
            detf = "index argument: %s" % M.show(a)
            # (len - 1) with the length taken after the push, or len taken before it
            def len_call(x):
                while x[0] in ("ref", "deref"):
                    x = x[1]
                return x if (x[0] == "call" and (x[1] or "").endswith("Vec::<T, A>::len") and "free_symbols" in M.show(x)) else None
            minus1 = a[0] == "field" and a[2] == "0" and a[1][0] == "bin" and a[1][1] in ("SubWithOverflow", "Sub") and a[1][3] == ("const", 1, "usize") and len_call(a[1][2])
            plain = len_call(a)
            lc = (minus1 or plain)
            if lc:
                len_bb = lc[3][0] if len(lc) > 3 and lc[3] else None
                after_push = len_bb is not None and Bf.dominates(pushes[0], len_bb) and pushes[0] != len_bb
                okf = (bool(minus1) and after_push) or (bool(plain) and not minus1 and not after_push and len_bb is not None and Bf.dominates(len_bb, pushes[0]))
                detf += "; length taken %s the push" % ("after" if after_push else "before")
            else:
                okf = False
        R.ob("define-index", "a captured symbol takes its position in the list of captured symbols as its index", okf, detf, F.loc(dff))
    # a slot index, once handed out, is never handed out again: the running count only grows (a function written in a block keeps
    # the slot of a global it captured by reference; recycling the slots of an ended block lets a later binding share it), and
    # the frame size reported to the compiler is that count
    writes = []
    for p_, g_ in sorted(F.fns.items()):
        if not p_.startswith("compiler::symtab::") or H.body_of(g_) is None:
            continue
        for x in H.walk(H.body_of(g_)):
            if x.get("k") in ("assign", "assignop") and H.strip(x["l"]).get("k") == "field" and H.strip(x["l"]).get("name") == "num_definitions":
                writes.append((H.last(p_), x.get("op", "="), H.render(x["r"])))
            if x.get("k") == "struct":
                for fd in x.get("fields", []):
                    if fd.get("name") == "num_definitions" and "e" in fd:
                        writes.append((H.last(p_), "init", H.render(H.strip(fd["e"]))))
    ok = bool(writes) and all((op == "+=" and r == "1") or (op == "init" and r == "0") for _, op, r in writes) and any(op == "+=" for _, op, _ in writes)
    R.ob("slot-never-reused", "SymbolTable::num_definitions starts at 0 and is only ever incremented", ok, str(writes), F.loc(df) if df else "")
    gn = F.fn("compiler::symtab::SymbolTable::get_num_definitions")
    if R.anchor("SymbolTable::get_num_definitions", gn):
        t_ = D.canon_text(H.body_of(gn))
        R.ob("slot-never-reused", "the frame size a scope reports is the number of slots handed out", t_ == "self.num_definitions", t_, F.loc(gn))
    # ---- (b) pairing -----------------------------------------------------------------------------------------------------------
    cb = F.fn(C + "compile_block_statement")
    if R.anchor(C + "compile_block_statement", cb):
        tl = [n for n, k in top_level_calls(H.body_of(cb))]
        ok = tl[:1] == ["self.scopes[self.scope_index].scope_depth += 1"] and "self.scopes[self.scope_index].scope_depth -= 1" in tl and \
            tl.index("self.scopes[self.scope_index].scope_depth -= 1") == len(tl) - 2
        R.ob("depth-pairing", "scope_depth += 1 … -= 1 bracket the block, unconditionally", ok, str(tl), F.loc(cb))
        b = H.body_inl(F, cb, keep=("end_block", "compile_statement", "compile_statements"))
        seq = []
        lets = {}
        for st in b.get("stmts", []):
            e = st.get("init") if st["k"] == "let" else st.get("e")
            t = H.render(e) if e is not None else ""
            if st["k"] == "let" and st.get("pat", {}).get("k") == "bind":
                lets[st["pat"]["name"]] = t
            if t.endswith(".scope_depth += 1"):
                seq.append("+1")
            elif t.endswith(".scope_depth -= 1"):
                seq.append("-1")
            elif "ForLoopDesugar" in str(e.get("src", "")) if isinstance(e, dict) else False:
                seq.append("statements")
            elif "end_block" in t:
                m = [c for c in H.walk(e) if c.get("k") == "mcall" and c["m"] == "end_block"]
                a = H.render(m[0]["args"][0]) if m else "?"
                a = lets.get(a, a)
                seq.append("end_block(%s)" % a)
        R.ob("block-end-invalidation", "a block's bindings are dropped after its statements, at the block's own depth", seq == ["+1", "statements", "end_block(self.scopes[self.scope_index].scope_depth)", "-1"],
             str(seq), F.loc(cb))
    for fn in ("compile_function_literal", "compile_filter_statement"):
        g = F.fn(C + fn)
        if R.anchor(C + fn, g):
            tl = [n for n, k in top_level_calls(H.body_of(g))]
            # nothing is compiled, emitted or defined before the scope is entered (plain reads of the node's fields may precede)
            pre = tl[:tl.index("enter_scope")] if "enter_scope" in tl else tl
            busy = [n for n in pre if str(n).startswith(("compile", "emit", "define", "load_", "save_", "add_constant"))]
            ok = "enter_scope" in tl and not busy and tl.count("enter_scope") == 1 and tl.count("leave_scope") == 1 and \
                tl.index("enter_scope") < tl.index("leave_scope")
            # no enter/leave nested in conditionals
            allc = [H.last(c.get("callee") or "") for c in H.walk(H.body_of(g)) if c.get("k") in ("call", "mcall")]
            ok = ok and allc.count("enter_scope") == 1 and allc.count("leave_scope") == 1
            R.ob("scope-pairing", fn, ok, "top-level statements: %s" % tl, F.loc(g))
    callers = {}
    for p, g in F.fns.items():
        b = H.body_of(g)
        if b is None:
            continue
        for c in H.walk(b):
            if c.get("k") in ("call", "mcall") and H.last(c.get("callee") or "") in ("enter_scope", "leave_scope") and (c.get("callee") or "").startswith(C):
                callers.setdefault(H.last(c["callee"]), set()).add(p)
    want = {C + "compile_function_literal", C + "compile_filter_statement"}
    R.ob("scope-pairing", "enter_scope / leave_scope are called only by the two bracketing functions",
         callers.get("enter_scope") == want and callers.get("leave_scope") == want, str({k: sorted(v) for k, v in callers.items()}))
    # ---- (d) closure plumbing ----------------------------------------------------------------------------------------------------
    g = F.fn(C + "compile_function_literal")
    if g is not None:
        b = H.body_inl(F, g, keep=("leave_scope", "enter_scope", "load_symbol", "emit", "add_constant"))
        lets = {x["pat"]["id"]: x["init"] for x in H.walk(b) if x.get("k") == "let" and x.get("pat", {}).get("k") == "bind" and x.get("init") is not None}

        def unlet(n, depth=0):
            """value expression with single-assignment locals replaced by their initialisers (borrows / clones dropped)"""
            n = H.strip(n)
            lid = H.local_id(n)
            if lid in lets and depth < 4:
                return unlet(lets[lid], depth + 1)
            return n
        seq = []
        cap_id = None
        loop_vars = {}
        for x in H.walk(b):
            if x.get("k") == "match" and x.get("src", "").startswith("ForLoop"):
                # for <pat> in <iter>: the loop variable is bound by the Some(..) arm of the inner match
                if not (x["scrut"].get("k") == "call" and H.last(x["scrut"].get("callee") or "") == "into_iter" and x["scrut"].get("args")):
                    continue
                it = H.render(H.strip(x["scrut"]["args"][0]))
                for y in H.walk(x):
                    if y.get("k") == "bind":
                        loop_vars.setdefault(y["id"], it)
        for x in E.eval_order(b):
            if x.get("k") == "let" and x.get("init") is not None and "symtab.free_symbols" in H.render(H.strip(x["init"])) and x.get("pat", {}).get("k") == "bind":
                seq.append("capture:" + H.render(H.strip(x["init"])))
                cap_id = x["pat"]["id"]
            if x.get("k") in ("call", "mcall"):
                nm = H.last(x.get("callee") or "")
                if nm == "leave_scope":
                    seq.append("leave_scope")
                if nm == "load_symbol":
                    a = H.strip(x["args"][0])
                    src = loop_vars.get(H.local_id(a))
                    seq.append("load:each of " + src if src else "load:" + H.render(a))
                if nm == "emit" and H.last(H.ctor_of(H.strip(x["args"][0])) or "") == "Closure":
                    arr = H.strip(x["args"][1])
                    es = [H.render(unlet(e)) for e in arr.get("es", [])] if arr.get("k") == "array" else [H.render(arr)]
                    seq.append("emit-closure:" + ", ".join(es[1:]))
        cap = [t for t in seq if t.startswith("capture:")]
        name = None
        for x in H.walk(b):
            if x.get("k") == "let" and x.get("pat", {}).get("id") == cap_id and cap_id is not None:
                name = x["pat"]["name"]
        ok = bool(cap) and seq[:2] == [cap[0], "leave_scope"] and cap[0] in ("capture:self.symtab.free_symbols", "capture:self.symtab.free_symbols.clone()") and \
            len(seq) == 4 and re.fullmatch(r"load:each of (into_iter\()?%s(\.iter\(\))?\)?" % re.escape(name or "?"), seq[2]) is not None and \
            seq[3] in ("emit-closure:%s.len()" % name, "emit-closure:self.symtab.free_symbols.len()")
        R.ob("closure-plumbing", "free symbols captured before leave_scope, loaded in order, count = free_symbols.len()", ok, str(seq), F.loc(g))
    arms = vm_arms(F, R)
    KEEPVM = ("push", "pop", "top", "current_frame", "push_closure")

    def norm(node):
        """arm / function body with decoding helpers inlined and named intermediates substituted, as a tree"""
        return H.unlet(H.inline_helpers(F, node, skip=lambda c: H.last(c) in KEEPVM or c.endswith("Closure::new")))
    if arms and arms.get("Closure"):
        nb = norm(arms["Closure"]["body"])
        cs = [c for c in H.walk(nb) if c.get("k") == "mcall" and H.last(c.get("callee") or "") == "push_closure"]
        a = [D.canon_text(x) for x in cs[0]["args"]] if len(cs) == 1 else []

        def offsets(x):
            """constant offsets k of the reads `code[ip + k]` / `code[ip + k ..]` in x (sums folded)"""
            from .lib.vmarms import _ip_plus
            out = set()
            for y in H.walk(x):
                if y.get("k") == "index":
                    i = H.strip(y["i"])
                    if i.get("k") == "struct" and i.get("fields"):
                        for fd in i["fields"]:
                            if fd["name"] == "start":
                                k_ = _ip_plus(fd["e"])
                                if k_ is not None:
                                    out.add(k_)
                    else:
                        k_ = _ip_plus(i)
                        if k_ is not None:
                            out.add(k_)
            return out
        o0, o1 = (offsets(cs[0]["args"][0]), offsets(cs[0]["args"][1])) if len(cs) == 1 and len(cs[0]["args"]) >= 2 else (set(), set())
        ok = len(a) >= 2 and 1 in o0 and o0 <= {1, 2} and o1 == {3}
        R.ob("closure-plumbing", "VM Closure arm passes (const_idx, num_free) — the u16 at ip+1 and the byte at ip+3 — to push_closure", ok, str(a)[:200],
             "src/vm/interpreter.rs:%s" % arms["Closure"]["line"])
    pc = F.fn("vm::interpreter::VM::push_closure")
    if R.anchor("VM::push_closure", pc):
        nb = norm(H.body_of(pc))
        t = D.canon_text(nb)
        par = [q.get("name") for q in pc["hir"]["params"] if q.get("k") == "bind"]
        nf = par[2] if len(par) >= 3 else "num_free"
        e = re.escape
        loop_form = re.search(r"into_iter\(ops::Range\{start: 0, end: %s\}\)" % e(nf), t) is not None and \
            re.search(r"(\w+)\.push\(self\.stack\[\(\(self\.sp - %s\) \+ \w+\)\]\)" % e(nf), t) is not None
        slice_form = re.search(r"self\.stack\[ops::Range\{start: \(self\.sp - %s\), end: self\.sp\}\]\.to_vec\(\)" % e(nf), t) is not None
        drops = re.search(r"self\.sp -= %s\b" % e(nf), t) is not None or re.search(r"self\.sp = \(self\.sp - %s\)" % e(nf), t) is not None
        m = re.search(r"Closure::new\(function, ([^()]*|self\.stack\[ops::Range\{start: \(self\.sp - %s\), end: self\.sp\}\]\.to_vec\(\))\)" % e(nf), t)
        ok = (loop_form or slice_form) and drops and m is not None
        R.ob("closure-plumbing", "push_closure copies stack[sp-num_free .. sp] in order, then drops those slots", ok,
             "loop form: %s, slice form: %s, sp lowered by %s: %s, closure built from them: %s" % (loop_form, slice_form, nf, drops, bool(m)), F.loc(pc))
    if arms:
        for op in ("GetFree", "SetFree"):
            a = arms.get(op)
            if not R.anchor("VM arm " + op, a):
                continue
            nb = norm(a["body"])
            cell = r"^self\.current_frame\(\)\.closure\.free(\.borrow(_mut)?\(\))?\[(.*\(ip \+ 1\).*)\]$"
            if op == "GetFree":
                vals = [D.canon_text(c["args"][0]) for c in H.walk(nb) if c.get("k") == "mcall" and H.last(c.get("callee") or "") == "push" and c.get("args")]
                ok = len(vals) == 1 and re.search(cell, vals[0]) is not None
            else:
                asg = [(D.canon_text(x["l"]), D.canon_text(H.untry(x["r"]))) for x in H.walk(nb) if x.get("k") == "assign"]
                vals = ["%s = %s" % p for p in asg]
                ok = len(asg) == 1 and re.search(cell, asg[0][0]) is not None and re.search(r"^self\.top\(0, ", asg[0][1]) is not None
            R.ob("closure-plumbing", op + " indexes the current closure's free vector with its operand", ok, str(vals)[:200], "src/vm/interpreter.rs:%s" % a["line"])
    # load_symbol / save_symbol: scope → opcode table
    for fn, want in (("load_symbol", {"Global": "GetGlobal", "Local": "GetLocal", "BuiltinFn": "GetBuiltinFn", "BuiltinVar": "GetBuiltinVar", "Free": "GetFree", "Function": "CurrClosure"}),
                     ("save_symbol", {"Global": "SetGlobal", "Local": "SetLocal", "Free": "SetFree"})):
        g = F.fn(C + fn)
        if R.anchor(C + fn, g):
            got = {}
            for m in H.walk(H.body_of(g)):
                if m.get("k") == "match" and not H.is_try(m) and H.render(m["scrut"]) == "sym.scope":
                    for a in m["arms"]:
                        ems = [c for c in H.walk(a["body"]) if E.is_emit(c)]
                        for v in H.pat_variants(a["pat"]):
                            if ems:
                                op, ops = E.emit_info(ems[0])
                                got[H.last(v)] = (op, ops)
            ok = {k: v[0] for k, v in got.items()} == want and all(v[1] == ["sym.index"] for v in got.values())
            R.ob("symbol-opcode-table", fn, ok, str(got), F.loc(g))
