"""C04 — name resolution and closure capture (structural clauses only; closure
values and shadowing across sibling blocks are not decided)."""
import re

from .lib import hir as H
from .lib import mir as M
from .lib import emit as E
from .lib.vmarms import vm_arms

EXPL = ("(a) Must-pass-through (E3, MIR): every path of SymbolTable::resolve to its None result passes the test of "
        "self.outer — the enclosing table is consulted whenever no local symbol qualifies. (b) Pairing (E3): scope_depth "
        "+= 1 / -= 1 bracket compile_block_statement, and enter_scope / leave_scope bracket compile_function_literal and "
        "compile_filter_statement, as unconditional top-level statements (error exits by `?` in between return before "
        "the closing half; the compiler is discarded after an error). (c) Parameters of the lookup (append on define, "
        "newest-first scan with a `<=` depth filter) are reported as information. (d) Closure plumbing: free symbols are "
        "captured before leave_scope, loaded in free_symbols order right before emit(Closure, [idx, free_symbols.len()]); "
        "the VM's Closure arm hands both operands to push_closure, which copies exactly that many stack slots in order, "
        "and GetFree/SetFree index the current closure's free vector. Captured values and shadowing semantics across "
        "sibling blocks: (e) a block's bindings leave the table when the block ends (compile_block_statement calls "
        "symtab.end_block(depth of that block) after its statements on the success path; end_block drops the Global/Local "
        "symbols of that depth or deeper from every name's list), so what a table holds is exactly the bindings of the "
        "open blocks; (f) an enclosing table is therefore searched without the inner function's block depth (depths are "
        "per function scope and not comparable across tables); (g) a captured (Free) symbol is found again at any "
        "depth of the capturing function, so one variable is captured once. Captured *values* are not decided.")

C = "compiler::Compiler::"


def top_level_calls(body):
    """names of Compiler methods called by top-level statements of the function body (through `?` and let)"""
    out = []
    if body.get("k") != "block":
        return out
    items = list(body.get("stmts", []))
    if body.get("expr") is not None:
        items.append({"k": "expr", "e": body["expr"]})
    for s in items:
        e = s.get("init") if s["k"] == "let" else s.get("e")
        if e is None:
            continue
        e = H.untry(H.strip(e))
        if e.get("k") in ("call", "mcall"):
            out.append((H.last(e.get("callee") or e.get("m") or ""), "call"))
        elif e.get("k") == "assignop":
            out.append((H.render(e), "assignop"))
        else:
            out.append((e.get("k"), "other"))
    return out


def run(F, R, tier):
    R.explanation = EXPL
    R.assumptions += ["the symbol-table data structure of today (store: name → Vec<Symbol>) is what rule (c) reports on"]
    # ---- (a) resolve consults outer before answering None ---------------------------------------------------------------
    rs = F.fn("compiler::symtab::SymbolTable::resolve")
    if R.anchor("SymbolTable::resolve", rs):
        B = M.Body(rs)
        none_blocks = set()
        for bi, b in enumerate(B.blocks):
            if b.get("cleanup"):
                continue
            for s in b["stmts"]:
                if s["k"] == "assign" and s["lhs"]["l"] == 0 and not s["lhs"]["p"] and s["rv"]["k"] == "agg" and s["rv"]["ak"].endswith("Option::None"):
                    none_blocks.add(bi)
        barriers = set()
        for bi, b in enumerate(B.blocks):
            t = b["term"]
            if t["k"] == "switch":
                sym = B.sym_op(t["d"], through_vars=True)
                if sym[0] == "discr" and "outer" in M.show(sym[1]) and "self" in M.show(sym[1]):
                    barriers.add(bi)
        reach = M.reachable_avoiding(B, 0, barriers, through_start=False)
        R.ob("resolve-consults-outer", "every path to the None result tests self.outer", bool(none_blocks) and bool(barriers) and not (reach & none_blocks),
             "%d None-result blocks, %d tests of self.outer, None reachable without the test: %s" % (len(none_blocks), len(barriers), sorted(reach & none_blocks)), F.loc(rs))
        # (c) informational parameters
        txt = H.render(H.body_of(rs))
        R.note("resolve: scans %s with filter %s" % ("newest first (iter().rev())" if ".iter().rev()" in txt else "?",
                                                      "(symbol.depth <= depth)" if "(symbol.depth <= depth)" in txt else "?"))
        # results for outer symbols: Global/Builtin returned as is, others through define_free
        R.ob("resolve-free-capture", "non-global outer symbols are turned into free symbols", "self.define_free(obj)" in txt and
             "SymbolScope::Global | SymbolScope::BuiltinFn | SymbolScope::BuiltinVar" in txt, "", F.loc(rs))
    if rs is not None:
        b = H.body_of(rs)
        rec = [c for c in H.walk(b) if c.get("k") == "mcall" and c["m"] == "resolve" and "outer" in H.render(c["recv"])]
        arg = H.render(rec[0]["args"][1]) if len(rec) == 1 and len(rec[0].get("args", [])) == 2 else None
        R.ob("outer-lookup-depth", "the enclosing table is not filtered by the inner function's block depth", arg == "MAX",
             "outer.resolve(name, %s)%s" % (arg, "" if arg == "MAX" else ": block depths are counted per function scope; passing this scope's depth hides block-local bindings of the "
                                          "enclosing function from a nested function, or shows it bindings of a block that has ended"), F.loc(rs))
        conds = [H.render(x["c"]) for x in H.walk(b) if x.get("k") == "if" and "symbol.depth" in H.render(x["c"])]
        R.ob("free-symbol-visible", "a captured symbol is found again at any depth of the capturing function (one capture per variable)",
             conds == ["((symbol.depth <= depth) || (symbol.scope == SymbolScope::Free))"], str(conds), F.loc(rs))
    eb = F.fn("compiler::symtab::SymbolTable::end_block")
    if R.anchor("SymbolTable::end_block (a block's bindings end with the block)", eb):
        t = H.render(H.body_of(eb))
        cl = [x for x in H.walk(H.body_of(eb)) if x.get("k") == "closure"]
        ct = H.render(cl[0]["body"]) if cl else ""
        ok = "self.store.values_mut()" in t and ".retain(" in t and "(symbol.depth < depth)" in ct and "SymbolScope::Global" in ct and "SymbolScope::Local" in ct
        R.ob("block-end-invalidation", "end_block(d) keeps, in every name's list, only symbols shallower than d (captured and builtin symbols stay)", ok, ct[:200], F.loc(eb))
    df = F.fn("compiler::symtab::SymbolTable::define")
    if R.anchor("SymbolTable::define", df):
        txt = H.render(H.body_of(df))
        R.note("define: %s" % ("appends to the name's symbol list and increments num_definitions" if ".push(Rc::clone(&symbol))" in txt and "self.num_definitions += 1" in txt else "?"))
        # every definition gets a slot of its own: the index of the Symbol built by define() is the table's running
        # count on every path, and every return is behind the increment of that count.  Reusing the slot of an earlier
        # binding of the same name lets code compiled against the earlier binding (a function written between two
        # `let x`) read and write the later one.
        B = M.Body(df)
        news = [(bi, b["term"]) for bi, b in enumerate(B.blocks) if not b.get("cleanup") and b["term"]["k"] == "call" and (b["term"].get("callee") or "").endswith("symtab::Symbol::new")]
        idx_ok, idx_txt = bool(news), []
        for bi, t in news:
            a = B.sym_op(t["args"][2], through_vars=True) if len(t["args"]) > 2 else ("?",)
            sh = M.show(a)
            idx_txt.append(sh)
            if sh.replace(" ", "") not in ("*self.num_definitions", "self.num_definitions", "(*self).num_definitions"):
                idx_ok = False
        incs = set()
        for bi, b in enumerate(B.blocks):
            for st in b["stmts"]:
                if st.get("k") == "assign" and any(isinstance(pp, dict) and pp.get("n") == "num_definitions" for pp in st["lhs"]["p"]):
                    incs.add(bi)
        free = M.reachable_avoiding(B, 0, incs)
        rets = sorted(free & M.return_blocks(B))
        R.ob("define-index", "a new symbol takes index num_definitions, which is then incremented", idx_ok and bool(incs) and not rets,
             "index argument of Symbol::new: %s; returns reachable without incrementing num_definitions: %s" % (idx_txt, rets), F.loc(df))
    # ---- (b) pairing -----------------------------------------------------------------------------------------------------------
    cb = F.fn(C + "compile_block_statement")
    if R.anchor(C + "compile_block_statement", cb):
        tl = [n for n, k in top_level_calls(H.body_of(cb))]
        ok = tl[:1] == ["self.scopes[self.scope_index].scope_depth += 1"] and "self.scopes[self.scope_index].scope_depth -= 1" in tl and \
            tl.index("self.scopes[self.scope_index].scope_depth -= 1") == len(tl) - 2
        R.ob("depth-pairing", "scope_depth += 1 … -= 1 bracket the block, unconditionally", ok, str(tl), F.loc(cb))
        b = H.body_of(cb)
        seq = []
        lets = {}
        for st in b.get("stmts", []):
            e = st.get("init") if st["k"] == "let" else st.get("e")
            t = H.render(e) if e is not None else ""
            if st["k"] == "let" and st.get("pat", {}).get("k") == "bind":
                lets[st["pat"]["name"]] = t
            if t.endswith(".scope_depth += 1"):
                seq.append("+1")
            elif t.endswith(".scope_depth -= 1"):
                seq.append("-1")
            elif "ForLoopDesugar" in str(e.get("src", "")) if isinstance(e, dict) else False:
                seq.append("statements")
            elif "end_block" in t:
                m = [c for c in H.walk(e) if c.get("k") == "mcall" and c["m"] == "end_block"]
                a = H.render(m[0]["args"][0]) if m else "?"
                a = lets.get(a, a)
                seq.append("end_block(%s)" % a)
        R.ob("block-end-invalidation", "a block's bindings are dropped after its statements, at the block's own depth", seq == ["+1", "statements", "end_block(self.scopes[self.scope_index].scope_depth)", "-1"],
             str(seq), F.loc(cb))
    for fn in ("compile_function_literal", "compile_filter_statement"):
        g = F.fn(C + fn)
        if R.anchor(C + fn, g):
            tl = [n for n, k in top_level_calls(H.body_of(g))]
            ok = tl[:1] == ["enter_scope"] and tl.count("enter_scope") == 1 and tl.count("leave_scope") == 1
            # no enter/leave nested in conditionals
            allc = [H.last(c.get("callee") or "") for c in H.walk(H.body_of(g)) if c.get("k") in ("call", "mcall")]
            ok = ok and allc.count("enter_scope") == 1 and allc.count("leave_scope") == 1
            R.ob("scope-pairing", fn, ok, "top-level statements: %s" % tl, F.loc(g))
    callers = {}
    for p, g in F.fns.items():
        b = H.body_of(g)
        if b is None:
            continue
        for c in H.walk(b):
            if c.get("k") in ("call", "mcall") and H.last(c.get("callee") or "") in ("enter_scope", "leave_scope") and (c.get("callee") or "").startswith(C):
                callers.setdefault(H.last(c["callee"]), set()).add(p)
    want = {C + "compile_function_literal", C + "compile_filter_statement"}
    R.ob("scope-pairing", "enter_scope / leave_scope are called only by the two bracketing functions",
         callers.get("enter_scope") == want and callers.get("leave_scope") == want, str({k: sorted(v) for k, v in callers.items()}))
    # ---- (d) closure plumbing ----------------------------------------------------------------------------------------------------
    g = F.fn(C + "compile_function_literal")
    if g is not None:
        b = H.body_of(g)
        txt = H.render(b)
        seq = []
        for x in E.eval_order(b):
            if x.get("k") == "let" and x.get("pat", {}).get("name") == "free_symbols":
                seq.append("capture:" + H.render(x.get("init")))
            if x.get("k") in ("call", "mcall"):
                nm = H.last(x.get("callee") or "")
                if nm == "leave_scope":
                    seq.append("leave_scope")
                if nm == "load_symbol":
                    seq.append("load:" + H.render(x["args"][0]))
                if nm == "emit" and H.last(H.ctor_of(H.strip(x["args"][0])) or "") == "Closure":
                    seq.append("emit-closure:" + H.render(x["args"][1]))
        ok = seq == ["capture:self.symtab.free_symbols.clone()", "leave_scope", "load:f.clone()", "emit-closure:&[idx, free_symbols.len()]"]
        R.ob("closure-plumbing", "free symbols captured before leave_scope, loaded in order, count = free_symbols.len()", ok, str(seq), F.loc(g))
        loops = [H.render(x["scrut"]) for x in H.walk(b) if x.get("k") == "match" and x.get("src", "").startswith("ForLoop")]
        R.ob("closure-plumbing", "the load loop iterates &free_symbols in order", any("into_iter(&free_symbols)" in t for t in loops), str(loops), F.loc(g))
    arms = vm_arms(F, R)
    if arms and arms.get("Closure"):
        t = H.render(arms["Closure"]["body"])
        R.ob("closure-plumbing", "VM Closure arm passes (const_idx, num_free) to push_closure", "self.push_closure(const_idx, num_free, line)?" in t, t[:200],
             "src/vm/interpreter.rs:%s" % arms["Closure"]["line"])
    pc = F.fn("vm::interpreter::VM::push_closure")
    if R.anchor("VM::push_closure", pc):
        t = H.render(H.body_of(pc))
        ok = "let idx = ((self.sp - num_free) + i); free.push(self.stack[idx].clone())" in t and "self.sp -= num_free" in t and \
            "Closure::new(function.clone(), free)" in t and "ops::Range{start: 0, end: num_free}" in t
        R.ob("closure-plumbing", "push_closure copies stack[sp-num_free+i], i = 0..num_free, then drops them", ok, t[:260], F.loc(pc))
    if arms:
        for op, want in (("GetFree", "curr_closure.free.borrow()[free_idx].clone()"), ("SetFree", "curr_closure.free.borrow_mut()[free_idx] = self.top(0, line)?")):
            a = arms.get(op)
            if R.anchor("VM arm " + op, a):
                t = H.render(a["body"])
                R.ob("closure-plumbing", op + " indexes the current closure's free vector", want in t and "let curr_closure = self.current_frame().closure.clone()" in t,
                     t[:200], "src/vm/interpreter.rs:%s" % a["line"])
    # load_symbol / save_symbol: scope → opcode table
    for fn, want in (("load_symbol", {"Global": "GetGlobal", "Local": "GetLocal", "BuiltinFn": "GetBuiltinFn", "BuiltinVar": "GetBuiltinVar", "Free": "GetFree", "Function": "CurrClosure"}),
                     ("save_symbol", {"Global": "SetGlobal", "Local": "SetLocal", "Free": "SetFree"})):
        g = F.fn(C + fn)
        if R.anchor(C + fn, g):
            got = {}
            for m in H.walk(H.body_of(g)):
                if m.get("k") == "match" and not H.is_try(m) and H.render(m["scrut"]) == "sym.scope":
                    for a in m["arms"]:
                        ems = [c for c in H.walk(a["body"]) if E.is_emit(c)]
                        for v in H.pat_variants(a["pat"]):
                            if ems:
                                op, ops = E.emit_info(ems[0])
                                got[H.last(v)] = (op, ops)
            ok = {k: v[0] for k, v in got.items()} == want and all(v[1] == ["sym.index"] for v in got.values())
            R.ob("symbol-opcode-table", fn, ok, str(got), F.loc(g))
