"""C06 — truthiness table and short-circuit templates."""
import os
import re

from .lib import hir as H
from .lib import objtables as T
from .lib.vmarms import vm_arms
from .lib import emit as E

EXPL = ("(a) Table agreement (E2): the per-variant decision of Object::is_falsey, extracted from its match arms with "
        "resolved callees, against the documented truthiness table (docs/language/operators.md) and the property's "
        "list — exhaustive over the 23 variants. (b) Routing (E3): the Bang, JumpIfFalse and JumpIfFalseNoPop arms of "
        "VM::run decide through is_falsey on the popped / peeked value with the documented polarity, and no other "
        "code in src/vm or src/main.rs decides on the Bool payload of an Object. (c) Emission templates (E5): the "
        "straight-line emission sequences of compile_logical_and/or are the documented templates, and if/while/filter "
        "patterns branch with JumpIfFalse / JumpIfFalseNoPop. Values of operands are not enumerated.")

# property statement: falsey exactly when false, 0, 0.0, null, '\0', b'\0', "", [], map{}
WANT = {
    "Bool": "payload == false", "Integer": "payload == 0", "Null": "always", "Float": "payload == 0.0",
    "Char": "payload == '\\0'", "Byte": "payload == 0", "Str": "String::is_empty", "Arr": "Vec::is_empty(elements)",
    "Map": "HashMap::is_empty(pairs)",
}
DOC_ROWS = {"false": "Bool", "0": "Integer", "null": "Null", "0.0": "Float", "'\\0'": "Char", "b'\\0'": "Byte",
            '""': "Str", "[]": "Arr", "map {}": "Map"}


def falsey_descriptor(pat, body, variant):
    """semantic descriptor of one (pattern alternative, body)"""
    b = H.strip(body)
    if pat.get("k") in ("ppath",):
        return "always" if (b.get("k") == "lit" and b["v"] is True) else "?"
    if pat.get("k") == "ts" and len(pat["pats"]) == 1:
        inner = pat["pats"][0]
        if inner.get("k") == "plit":
            v = inner["lit"]["v"]
            if b.get("k") == "lit" and b["v"] is True:
                if v is False:
                    return "payload == false"
                if v == 0:
                    return "payload == 0"
                return "payload == %r" % (v,)
            return "?"
        if inner.get("k") == "bind":
            name = inner["name"]
            if b.get("k") == "bin" and b["op"] == "==":
                l, r = H.strip(b["l"]), H.strip(b["r"])
                if H.is_local(l, name) and r.get("k") == "lit":
                    if r["lk"] == "float":
                        return "payload == 0.0" if float(r["v"]) == 0.0 else "payload == %s" % r["v"]
                    if r["lk"] == "char":
                        return "payload == '\\0'" if r["v"] == "\0" else "payload == %r" % r["v"]
                    if r["lk"] == "int":
                        return "payload == %d" % r["v"]
                return "?"
            if b.get("k") == "mcall" and b["m"] == "is_empty":
                cal = b.get("callee") or ""
                recv = b["recv"]
                chain = H.render(recv)
                if cal == "std::string::String::is_empty" and H.is_local(H.strip(recv), name):
                    return "String::is_empty"
                if cal.startswith("std::vec::Vec") and chain == "%s.elements.borrow()" % name:
                    return "Vec::is_empty(elements)"
                if cal.startswith("std::collections::HashMap") and chain == "%s.pairs.borrow()" % name:
                    return "HashMap::is_empty(pairs)"
                return "? %s on %s" % (cal, chain)
            if b.get("k") == "lit" and b["v"] is False:
                return "never"
    return "?"


def run(F, R, tier):
    R.explanation = EXPL
    vs = T.variants(F)
    f = F.fn("object::Object::is_falsey")
    if not (R.anchor("enum object::Object", vs) and R.anchor("object::Object::is_falsey", f)):
        return
    m = T.top_match(f)
    if not R.anchor("is_falsey: match self", m):
        return
    table = {}
    for a in m["arms"]:
        alts = a["pat"]["pats"] if a["pat"].get("k") == "or" else [a["pat"]]
        for p in alts:
            for v in H.pat_variants(p):
                v = H.last(v)
                if v == "*":
                    b = H.strip(a["body"])
                    table.setdefault("*", "never" if (b.get("k") == "lit" and b["v"] is False) else "?")
                else:
                    table.setdefault(v, []).append(falsey_descriptor(p, a["body"], v))
    default = table.get("*", "?")
    for v in vs:
        got = table.get(v)
        if got is None:
            got = [default]
        want = WANT.get(v, "never")
        ok = got == [want]
        # a literal payload pattern (Bool(false), Integer(0)) leaves other payloads to the default arm
        if got in (["payload == false"], ["payload == 0"]) and want == got[0]:
            ok = ok and default == "never"
        R.ob("falsey-table", v, ok, "is_falsey decides %s: %s; property: %s" % (v, got, want), F.loc(f))
    R.count("Object variants × falsey decision", len(vs))
    R.floor("Object variants", len(vs), 23)
    # documented table
    doc = os.path.join(F.repo, "docs/language/operators.md")
    if R.anchor("docs/language/operators.md", os.path.exists(doc)):
        rows, on = [], False
        for line in open(doc, encoding="utf-8"):
            if line.startswith("## "):
                on = line.strip() == "## Truthiness"
            elif on and line.startswith("|") and "falsey" in line.split("|")[2]:
                rows.append(line.split("|")[1].strip())
        docset = {DOC_ROWS.get(r, "?" + r) for r in rows}
        codeset = {v for v in vs if (table.get(v) or [default]) != ["never"]}
        R.ob("falsey-docs", "documented falsey kinds = code's falsey kinds", docset == codeset,
             "docs: %s; code: %s" % (sorted(docset), sorted(codeset)), "docs/language/operators.md")

    # ---- (b) routing in the VM --------------------------------------------------------
    arms = vm_arms(F, R)
    if arms:
        want_src = {"Bang": "pop", "JumpIfFalse": "pop", "JumpIfFalseNoPop": "top"}
        for op, src in want_src.items():
            a = arms.get(op)
            if not R.anchor("VM::run arm " + op, a):
                continue
            calls = [c for c in H.walk(a["body"]) if c.get("k") == "mcall" and c["m"] == "is_falsey"]
            ok = len(calls) == 1
            det = "%d is_falsey calls" % len(calls)
            if ok:
                c = calls[0]
                recv = H.strip(c["recv"])
                # receiver must be the local bound from self.pop(line)? / self.top(0, line)?
                origin = None
                if H.is_local(recv):
                    for s in H.walk(a["body"]):
                        if s.get("k") == "let" and s["pat"].get("k") == "bind" and s["pat"]["id"] == H.local_id(recv):
                            origin = H.render(s.get("init"))
                want = {"pop": "self.pop(line)?", "top": "self.top(0, line)?"}[src]
                ok = origin == want
                det = "is_falsey on %s = %s (want %s)" % (H.render(recv), origin, want)
                # polarity
                if op == "Bang":
                    par = [x for x in H.walk(a["body"]) if x.get("k") == "call" and H.last(x.get("ctor", "")) == "Bool"]
                    pol = bool(par) and H.render(H.strip(par[0]["args"][0])) == H.render(c)
                    ok = ok and pol
                    det += "; result Bool(is_falsey) %s" % pol
                else:
                    ifs = [x for x in H.walk(a["body"]) if x.get("k") == "if"]
                    pol = len(ifs) == 1 and H.render(H.strip(ifs[0]["c"])) == H.render(c) and \
                        "ip = pos" in H.render(ifs[0]["t"]) and "continue" in H.render(ifs[0]["t"]) and "e" not in ifs[0]
                    ok = ok and pol
                    det += "; jump taken iff is_falsey %s" % pol
            R.ob("truthiness-routing", op, ok, det, "src/vm/interpreter.rs:%s" % a["line"])
        # the value a short-circuit operator yields is the operand itself: the conditional jumps and Jump leave the stack
        # contents alone (JumpIfFalse pops exactly its condition; JumpIfFalseNoPop and Jump change nothing)
        for op, allowed in (("JumpIfFalseNoPop", {"top"}), ("JumpIfFalse", {"pop"}), ("Jump", set())):
            a = arms.get(op)
            if not R.anchor("VM::run arm " + op, a):
                continue
            stack_calls = sorted({c["m"] for c in H.walk(a["body"]) if c.get("k") == "mcall" and (c.get("callee") or "").startswith("vm::interpreter::VM::")
                                  and c["m"] in ("push", "pop", "top", "peek", "last_popped")})
            writes = [H.render(x)[:60] for x in H.walk(a["body"]) if x.get("k") in ("assign", "assignop") and
                      ("self.stack" in H.render(x["l"]) or H.render(x["l"]) == "self.sp")]
            n_pop = sum(1 for c in H.walk(a["body"]) if c.get("k") == "mcall" and c["m"] == "pop" and (c.get("callee") or "").startswith("vm::interpreter::VM::"))
            R.ob("jump-keeps-operands", op, set(stack_calls) <= allowed and not writes and n_pop <= 1,
                 "stack accesses %s, direct writes %s" % (stack_calls, writes), "src/vm/interpreter.rs:%s" % a["line"])
        R.count("truthiness opcodes routed", 3)
    # no other decision on the Bool payload of an Object in the VM / main
    n = 0
    for p, g in sorted(F.fns.items()):
        if not (g["file"].endswith("src/main.rs") or "/vm/" in g["file"] or g["file"].startswith("src/vm/")):
            continue
        b = H.body_of(g)
        if b is None:
            continue
        k = 0
        for x in H.walk(b):
            pats = []
            if x.get("k") == "let" and "pat" in x:
                pats.append(x["pat"])
            if x.get("k") == "match" and not H.is_try(x):
                pats += [a["pat"] for a in x["arms"]]
            for pt in pats:
                for sub in H.walk(pt):
                    if sub.get("k") == "ts" and sub["res"].get("path") == "object::Object::Bool" and \
                            any(q.get("k") in ("bind", "plit") for q in sub["pats"]):
                        n += 1
                        R.ob("truthiness-outside-is_falsey", "%s#%d" % (p, k), False,
                             "decides on the Bool payload of an Object without is_falsey: %s" % H.render_pat(pt),
                             F.loc(g, x.get("line")))
                        k += 1
    R.count("Bool-payload decisions outside is_falsey", n)

    # ---- (c) emission templates ---------------------------------------------------------
    C = "compiler::Compiler::"
    want_and = ["compile_expression(left)", "p0=emit(JumpIfFalseNoPop,[65535])", "emit(Pop,[0])",
                "compile_expression(right)", "patch(p0)"]
    want_or = ["compile_expression(left)", "p0=emit(JumpIfFalseNoPop,[65535])", "p1=emit(Jump,[65535])", "patch(p0)",
               "emit(Pop,[0])", "compile_expression(right)", "patch(p1)"]
    for nm, want in (("compile_logical_and", want_and), ("compile_logical_or", want_or)):
        g = F.fn(C + nm)
        if not R.anchor(C + nm, g):
            continue
        seq, straight = E.linear_events(H.body_of(g))
        R.ob("short-circuit-template", nm, straight and seq == want, "emission sequence %s" % seq, F.loc(g))
    # dispatch: "&&" → compile_logical_and, "||" → compile_logical_or
    ce = F.fn(C + "compile_expression")
    if R.anchor(C + "compile_expression", ce):
        disp = {}
        for mm in H.walk(H.body_of(ce)):
            if mm.get("k") == "match" and not H.is_try(mm):
                for a in mm["arms"]:
                    for alt in (a["pat"]["pats"] if a["pat"].get("k") == "or" else [a["pat"]]):
                        if alt.get("k") == "plit" and alt["lit"]["lk"] == "str":
                            cs = [H.last(c.get("callee") or "") for c in H.walk(a["body"]) if c.get("k") in ("call", "mcall")
                                  and H.last(c.get("callee") or "").startswith("compile_logical")]
                            if cs:
                                disp[alt["lit"]["v"]] = (cs, [H.render(H.strip(x)) for c in H.walk(a["body"])
                                                              if c.get("k") in ("call", "mcall") and H.last(c.get("callee") or "").startswith("compile_logical")
                                                              for x in c["args"][:2]])
        R.ob("short-circuit-dispatch", "&&", disp.get("&&") == (["compile_logical_and"], ["binary.left", "binary.right"]), str(disp.get("&&")), F.loc(ce))
        R.ob("short-circuit-dispatch", "||", disp.get("||") == (["compile_logical_or"], ["binary.left", "binary.right"]), str(disp.get("||")), F.loc(ce))
    # conditionals branch on truthiness opcodes
    for nm, op in (("compile_if_expression", "JumpIfFalse"), ("compile_filter_statement", "JumpIfFalseNoPop")):
        g = F.fn(C + nm)
        if R.anchor(C + nm, g):
            ev = E.all_emits(H.body_of(g))
            jumps = [e for e in ev if e.startswith("JumpIfFalse")]
            R.ob("conditional-opcode", nm, jumps == [op], "conditional jumps emitted: %s" % jumps, F.loc(g))
    cs = F.fn(C + "compile_statement")
    if R.anchor(C + "compile_statement", cs):
        for mm in H.walk(H.body_of(cs)):
            if mm.get("k") == "match" and not H.is_try(mm):
                for a in mm["arms"]:
                    if "While" in {H.last(v) for v in H.pat_variants(a["pat"])}:
                        ev = [e for e in E.all_emits(a["body"]) if e.startswith("JumpIfFalse")]
                        R.ob("conditional-opcode", "while", ev == ["JumpIfFalse"], "conditional jumps emitted: %s" % ev, F.loc(cs, a.get("line")))
