"""C06 — truthiness table and short-circuit templates."""
import os
import re

from .lib import hir as H
from .lib import objtables as T
from .lib.vmarms import vm_arms
from .lib import emit as E

EXPL = ("(a) Table agreement (E2): the per-variant decision of Object::is_falsey, extracted from its match arms with "
        "resolved callees, against the documented truthiness table (docs/language/operators.md) and the property's "
        "list — exhaustive over the 23 variants. (b) Routing (E3): the Bang, JumpIfFalse and JumpIfFalseNoPop arms of "
        "VM::run decide through is_falsey on the popped / peeked value with the documented polarity, and no other "
        "code in src/vm or src/main.rs decides on the Bool payload of an Object. (c) Emission templates (E5): the "
        "straight-line emission sequences of compile_logical_and/or are the documented templates, and if/while/filter "
        "patterns branch with JumpIfFalse / JumpIfFalseNoPop. Values of operands are not enumerated.")

# property statement: falsey exactly when false, 0, 0.0, null, '\0', b'\0', "", [], map{}
WANT = {
    "Bool": "payload == false", "Integer": "payload == 0", "Null": "always", "Float": "payload == 0.0",
    "Char": "payload == '\\0'", "Byte": "payload == 0", "Str": "String::is_empty", "Arr": "Vec::is_empty(elements)",
    "Map": "HashMap::is_empty(pairs)",
}
DOC_ROWS = {"false": "Bool", "0": "Integer", "null": "Null", "0.0": "Float", "'\\0'": "Char", "b'\\0'": "Byte",
            '""': "Str", "[]": "Arr", "map {}": "Map"}


def _lit_desc(v, lk=None):
    if v is False:
        return "payload == false"
    if v is True:
        return "payload == true"
    if lk == "float" or isinstance(v, float):
        return "payload == 0.0" if float(v) == 0.0 else "payload == %s" % v
    if lk == "char" or (isinstance(v, str) and len(v) == 1):
        return "payload == '\\0'" if v == "\0" else "payload == %r" % v
    if isinstance(v, int):
        return "payload == %d" % v
    return "payload == %r" % (v,)


def predicate_table(F, fn_path, depth=0):
    """Per variant of Object, the set of payloads for which a `match self {..}` predicate method is true, in normal form:
    'always' | 'never' | 'payload == <lit>' | 'String::is_empty' | 'Vec::is_empty(elements)' | 'HashMap::is_empty(pairs)'
    | '?..'.  Arms are read in order (a literal payload pattern leaves the other payloads to later arms); a body may be a
    constant, a comparison of the payload with a literal, `!payload` for a bool, an is_empty() of the payload, or a call
    of another such predicate of Object on `self` (looked through)."""
    f = F.fn(fn_path)
    vs = T.variants(F)
    if f is None or not vs or depth > 2:
        return None
    m = T.top_match(f)
    if m is None:
        return None
    table = {}
    for v in vs:
        lits_true, lits_false, final = [], [], None
        for arm in m["arms"]:
            alts = arm["pat"]["pats"] if arm["pat"].get("k") == "or" else [arm["pat"]]
            for p in alts:
                pvs = [H.last(x) for x in H.pat_variants(p)]
                if v not in pvs and "*" not in pvs:
                    continue
                body = H.strip(arm["body"])
                const = body["v"] if (body.get("k") == "lit" and body.get("lk") == "bool") else None
                inner = p["pats"][0] if (p.get("k") == "ts" and len(p.get("pats", [])) == 1) else None
                if inner is not None and inner.get("k") == "plit":
                    # a literal payload: decides that payload only
                    if const is True:
                        lits_true.append(_lit_desc(inner["lit"]["v"], inner["lit"].get("lk")))
                    elif const is False:
                        lits_false.append(_lit_desc(inner["lit"]["v"], inner["lit"].get("lk")))
                    else:
                        final = "? literal arm with a computed body"
                    continue
                # every remaining payload of this variant
                name = inner.get("name") if inner is not None and inner.get("k") == "bind" else None
                if const is not None:
                    final = "always" if const else "never"
                elif body.get("k") == "bin" and body["op"] in ("==", "!=") and name:
                    l, r = H.strip(body["l"]), H.strip(body["r"])
                    if H.is_local(r, name):
                        l, r = r, l
                    if H.is_local(l, name) and r.get("k") == "lit":
                        d = _lit_desc(r["v"], r.get("lk"))
                        if body["op"] == "!=":
                            d = {"payload == false": "payload == true", "payload == true": "payload == false"}.get(d, "? != " + d)
                        final = d
                    else:
                        final = "? " + H.render(body)[:50]
                elif body.get("k") == "un" and body.get("op") == "!" and name and H.is_local(H.strip(body["e"]), name):
                    final = "payload == false"
                elif H.is_local(body, name) if name else False:
                    final = "payload == true"
                elif body.get("k") == "mcall" and body["m"] == "is_empty" and name:
                    cal = body.get("callee") or ""
                    chain = H.render(body["recv"])
                    if cal == "std::string::String::is_empty" and H.is_local(H.strip(body["recv"]), name):
                        final = "String::is_empty"
                    elif cal.startswith("std::vec::Vec") and chain == "%s.elements.borrow()" % name:
                        final = "Vec::is_empty(elements)"
                    elif cal.startswith("std::collections::HashMap") and chain == "%s.pairs.borrow()" % name:
                        final = "HashMap::is_empty(pairs)"
                    else:
                        final = "? %s on %s" % (cal, chain)
                elif body.get("k") in ("mcall", "call") and (body.get("callee") or "").startswith("object::Object::") and \
                        H.render(H.strip(body.get("recv") or (body.get("args") or [{}])[0])) == "self":
                    sub = predicate_table(F, body["callee"], depth + 1)
                    final = (sub or {}).get(v, "? " + H.last(body["callee"]))
                else:
                    final = "? " + H.render(body)[:50]
                break
            if final is not None:
                break
        if final is None:
            final = "never" if not m["arms"] else "? no arm"
        # combine the literal arms with what the remaining payloads get
        if final == "never":
            d = "never" if not lits_true else (lits_true[0] if len(set(lits_true)) == 1 else "? " + " | ".join(sorted(set(lits_true))))
        elif final == "always":
            d = "always" if not lits_false else "? all but " + " | ".join(sorted(set(lits_false)))
        elif final in lits_true or (not lits_true and not lits_false):
            d = final
        elif lits_true and set(lits_true) == {final}:
            d = final
        else:
            d = "? %s after literal arms %s/%s" % (final, lits_true, lits_false)
        table[v] = d
    return table


def run(F, R, tier):
    R.explanation = EXPL
    vs = T.variants(F)
    f = F.fn("object::Object::is_falsey")
    if not (R.anchor("enum object::Object", vs) and R.anchor("object::Object::is_falsey", f)):
        return
    table = predicate_table(F, "object::Object::is_falsey")
    if not R.anchor("is_falsey: match self", table):
        return
    for v in vs:
        got = table.get(v, "?")
        want = WANT.get(v, "never")
        R.ob("falsey-table", v, got == want, "is_falsey decides %s: %s; property: %s" % (v, got, want), F.loc(f))
    R.count("Object variants × falsey decision", len(vs))
    R.floor("Object variants", len(vs), 23)
    # documented table
    doc = os.path.join(F.repo, "docs/language/operators.md")
    if R.anchor("docs/language/operators.md", os.path.exists(doc)):
        rows, on = [], False
        for line in open(doc, encoding="utf-8"):
            if line.startswith("## "):
                on = line.strip() == "## Truthiness"
            elif on and line.startswith("|") and "falsey" in line.split("|")[2]:
                rows.append(line.split("|")[1].strip())
        docset = {DOC_ROWS.get(r, "?" + r) for r in rows}
        codeset = {v for v in vs if table.get(v) != "never"}
        R.ob("falsey-docs", "documented falsey kinds = code's falsey kinds", docset == codeset,
             "docs: %s; code: %s" % (sorted(docset), sorted(codeset)), "docs/language/operators.md")

    # ---- (b) routing in the VM --------------------------------------------------------
    arms = vm_arms(F, R)
    if arms:
        want_src = {"Bang": "pop", "JumpIfFalse": "pop", "JumpIfFalseNoPop": "top"}
        VMP = "vm::interpreter::VM::"
        OPAQUE = tuple(VMP + x for x in ("pop", "push", "top", "peek", "current_frame", "last_popped")) + ("object::Object::is_falsey",)
        for op, src in want_src.items():
            a = arms.get(op)
            if not R.anchor("VM::run arm " + op, a):
                continue
            # the arm with its small helpers inlined; paths enumerated for both answers of is_falsey
            body = H.inline_helpers(F, a["body"], skip=OPAQUE)
            lets = {x["pat"]["id"]: x["init"] for x in H.walk(body) if x.get("k") == "let" and x.get("pat", {}).get("k") == "bind" and x.get("init") is not None}

            def origin(e, d=0):
                """the stack access a value comes from: 'pop' | 'top' | None"""
                e = H.strip(H.untry(H.strip(e)))
                if H.is_local(e) and H.local_id(e) in lets and d < 6:
                    return origin(lets[H.local_id(e)], d + 1)
                if e.get("k") in ("mcall", "call") and (e.get("callee") or "") in (VMP + "pop", VMP + "top"):
                    return H.last(e["callee"])
                return None
            ok, det = True, []
            for answer in (True, False):
                ps = H.paths(body, lambda c: answer if (c.get("k") == "mcall" and c.get("callee") == "object::Object::is_falsey") else None)
                ps = [(evs, ex) for evs, ex in ps if not (ex == "ret" and any(e_[0] == "call" and H.last(str(e_[1])) in ("pop", "top") for e_ in evs) is False)]
                ps = [(evs, ex) for evs, ex in ps if any(e_[0] == "call" and e_[1] == "object::Object::is_falsey" for e_ in evs)]   # paths past the `?` exits
                if not ps:
                    ok = False
                    det.append("no path reaches is_falsey")
                    continue
                for evs, ex in ps:
                    tests = [e_[2] for e_ in evs if e_[0] == "call" and e_[1] == "object::Object::is_falsey"]
                    o = origin(tests[0]["recv"]) if len(tests) == 1 else None
                    if len(tests) != 1 or o != src:
                        ok = False
                        det.append("is_falsey asked %d times on a value from %s (want one test of the value from %s)" % (len(tests), o, src))
                    jumps = [e_ for e_ in evs if e_[0] == "assign" and e_[1].endswith(".ip")]
                    if op == "Bang":
                        pushes = [e_[2] for e_ in evs if e_[0] == "call" and e_[1] == VMP + "push"]
                        good = len(pushes) == 1 and any(x.get("k") == "call" and H.last(x.get("ctor", "")) == "Bool" and
                                                        any(y is tests[0] or (H.is_local(y) and H.local_id(y) in lets and H.strip(lets[H.local_id(y)]) is tests[0]) for y in H.walk(x["args"][0]))
                                                        for x in H.walk(pushes[0])) if tests else False
                        if not good:
                            ok = False
                            det.append("the pushed value is not Bool(is_falsey(operand))")
                    elif answer:
                        if not (len(jumps) == 1 and ex == "continue"):
                            ok = False
                            det.append("falsey: %d absolute ip assignments, exit %s (want one, then continue)" % (len(jumps), ex))
                    else:
                        if jumps or ex != "fall":
                            ok = False
                            det.append("truthy: %d absolute ip assignments, exit %s (want none, fall through)" % (len(jumps), ex))
            R.ob("truthiness-routing", op, ok, "; ".join(sorted(set(det)))[:300] or "one is_falsey test of the %s value decides; polarity as documented" % ("popped" if src == "pop" else "top"),
                 "src/vm/interpreter.rs:%s" % a["line"])
        # the value a short-circuit operator yields is the operand itself: the conditional jumps and Jump leave the stack
        # contents alone (JumpIfFalse pops exactly its condition; JumpIfFalseNoPop and Jump change nothing)
        for op, allowed in (("JumpIfFalseNoPop", {"top"}), ("JumpIfFalse", {"pop"}), ("Jump", set())):
            a = arms.get(op)
            if not R.anchor("VM::run arm " + op, a):
                continue
            stack_calls = sorted({c["m"] for c in H.walk(a["body"]) if c.get("k") == "mcall" and (c.get("callee") or "").startswith("vm::interpreter::VM::")
                                  and c["m"] in ("push", "pop", "top", "peek", "last_popped")})
            writes = [H.render(x)[:60] for x in H.walk(a["body"]) if x.get("k") in ("assign", "assignop") and
                      ("self.stack" in H.render(x["l"]) or H.render(x["l"]) == "self.sp")]
            n_pop = sum(1 for c in H.walk(a["body"]) if c.get("k") == "mcall" and c["m"] == "pop" and (c.get("callee") or "").startswith("vm::interpreter::VM::"))
            R.ob("jump-keeps-operands", op, set(stack_calls) <= allowed and not writes and n_pop <= 1,
                 "stack accesses %s, direct writes %s" % (stack_calls, writes), "src/vm/interpreter.rs:%s" % a["line"])
        R.count("truthiness opcodes routed", 3)
    # no other decision on the Bool payload of an Object in the VM / main
    n = 0
    for p, g in sorted(F.fns.items()):
        if not (g["file"].endswith("src/main.rs") or "/vm/" in g["file"] or g["file"].startswith("src/vm/")):
            continue
        b = H.body_of(g)
        if b is None:
            continue
        k = 0
        for x in H.walk(b):
            pats = []
            if x.get("k") == "let" and "pat" in x:
                pats.append(x["pat"])
            if x.get("k") == "match" and not H.is_try(x):
                pats += [a["pat"] for a in x["arms"]]
            for pt in pats:
                for sub in H.walk(pt):
                    if sub.get("k") == "ts" and sub["res"].get("path") == "object::Object::Bool" and \
                            any(q.get("k") in ("bind", "plit") for q in sub["pats"]):
                        n += 1
                        R.ob("truthiness-outside-is_falsey", "%s#%d" % (p, k), False,
                             "decides on the Bool payload of an Object without is_falsey: %s" % H.render_pat(pt),
                             F.loc(g, x.get("line")))
                        k += 1
    R.count("Bool-payload decisions outside is_falsey", n)

    # ---- (c) emission templates ---------------------------------------------------------
    C = "compiler::Compiler::"
    # `a && b` / `a || b`: decided on the emission verifier's paths through compile_expression's Binary arm (helpers of any
    # shape inlined): the left operand is compiled first; `&&` then emits JumpIfFalseNoPop (placeholder), Pop, compiles the
    # right operand and patches the jump behind it; `||` emits JumpIfFalseNoPop, Jump, patches the first behind the Jump,
    # Pop, right operand, patches the Jump behind it.  So b is evaluated only when a is truthy (falsey), and the value left
    # on the stack is a itself when the jump is taken (NoPop) and b otherwise.
    from .lib import e5run
    from . import c02 as _c02
    res = e5run.analyse(F, R)
    if not res["ok"]:
        R.ob("emission-verifier", "the compiler's code is inside the fragment the verifier interprets", False, "unsupported construct: %s" % res.get("unsupported"))
    else:
        r = res["expr"].get(("Binary", "fn"))
        seen = {"&&": [], "||": []}
        if R.anchor("Expression::Binary arm", r):
            for t, st in r["ends"]:
                if t != "ok":
                    continue
                ops, _ = _c02.ops_of(st, "$:Binary.operator", r["pname"])
                for o in (ops or ()):
                    if o in seen:
                        order = tuple(x[0] for x in e5run.corder(st, r["pname"]))
                        em = [e[0] for e in st.emits]
                        want_em = ["JumpIfFalseNoPop", "Pop"] if o == "&&" else ["JumpIfFalseNoPop", "Jump", "Pop"]
                        # the right operand is compiled after the Pop: position of the second child among the emits
                        evs = [e[0] for e in st.events]
                        seen[o].append((order == ("$:Binary.left", "$:Binary.right") and em == want_em and not st.pend, order, em))
            for o in ("&&", "||"):
                R.ob("short-circuit-template", "compile_logical_%s" % ("and" if o == "&&" else "or"), bool(seen[o]) and all(x[0] for x in seen[o]),
                     "operator %s: child order / emitted opcodes per path: %s" % (o, sorted({(x[1], tuple(x[2])) for x in seen[o]})), F.loc(F.fn(C + "compile_expression")))
        # jump landing heights of these templates are E5's own obligations (shared rules): report the ones raised in the Binary arm
        seen_v = set()
        for v in res["viol"]:
            rule, key, detail, line, facts = v
            if "expression[Binary]" in key and rule in _c02.SHARED and (rule, key) not in seen_v:
                seen_v.add((rule, key))
                R.ob(rule, key, False, detail, "src/compiler/mod.rs:%s" % line if line else "")
    # conditionals branch on truthiness opcodes
    for nm, op in (("compile_if_expression", "JumpIfFalse"), ("compile_filter_statement", "JumpIfFalseNoPop")):
        g = F.fn(C + nm)
        if R.anchor(C + nm, g):
            ev = E.all_emits(H.normal(F, H.body_of(g), keep=("emit", "compile_expression", "compile_block_statement", "patch_jump", nm, "compile_statement")))
            jumps = [e for e in ev if e.startswith("JumpIfFalse")]
            R.ob("conditional-opcode", nm, jumps == [op], "conditional jumps emitted: %s" % jumps, F.loc(g))
    cs = F.fn(C + "compile_statement")
    if R.anchor(C + "compile_statement", cs):
        for mm in H.walk(H.body_of(cs)):
            if mm.get("k") == "match" and not H.is_try(mm):
                for a in mm["arms"]:
                    if "While" in {H.last(v) for v in H.pat_variants(a["pat"])}:
                        ev = [e for e in E.all_emits(H.normal(F, a["body"], keep=("emit", "compile_expression", "compile_block_statement", "patch_jump", "compile_if_expression", "compile_statement"))) if e.startswith("JumpIfFalse")]
                        R.ob("conditional-opcode", "while", ev == ["JumpIfFalse"], "conditional jumps emitted: %s" % ev, F.loc(cs, a.get("line")))
