"""C01 — scanning, parsing and compiling are total on every source text."""
import re

from .lib import audit_run
from .lib import hir as H
from .lib import mir as M
from .lib.tables import parse_rules_table

EXPL = ("(a) Panic-site audit (E1) over the call graph from Scanner/Parser/Compiler entry points, including the 27 parse "
        "functions reached through PARSE_RULES function pointers and the lazy_static initialisers: every bounds/overflow "
        "assert and every panicking callee is discharged by dominating guards, the enum-index rule, who-writes "
        "invariants (scope_index == scopes.len()-1, scanner position <= input.len()) or a reviewed justification. "
        "(b) Progress: every CFG loop of scanner/parser has, on every cycle path, a call that must advance the cursor "
        "(or a finite std iterator), the parser's call graph has no advance-free recursion cycle, and the Pratt loop is "
        "discharged by a table obligation on PARSE_RULES. (c) A program with diagnostics is not executed: every "
        "construction of Statement::Invalid / Expression::Invalid is preceded on every path by a recorded error "
        "(must-pass-through on MIR), parse_program returns Some only when no error was printed, and VM construction / "
        "run is dominated by the success arms of parsing and compiling. Decides absence of panic paths and the shape "
        "'every iteration consumes input or exits'; Rust-stack exhaustion by nesting is not decided.")

ROOTS = ["scanner::Scanner::new", "scanner::Scanner::next_token", "parser::Parser::new", "parser::Parser::parse_program",
         "compiler::Compiler::new", "compiler::Compiler::new_with_state", "compiler::Compiler::compile",
         "compiler::Compiler::bytecode", "parse_program", "print_parse_errors"]
FE = ("src/scanner/", "src/parser/", "src/compiler/", "src/code/")

ERR_FNS = {"parser::Parser::push_error", "parser::Parser::push_error_at", "parser::Parser::peek_error",
           "parser::Parser::no_prefix_parse_error"}
EXPECT_PEEK = "parser::Parser::expect_peek"
ITER_NEXT = re.compile(r"(as std::iter::Iterator>::next|Iterator::next|range::<impl std::iter::Iterator for std::ops::Range<A>>::next)$")


def front_end(p, f):
    return any(x in f["file"] for x in FE) or p in ("parse_program", "print_parse_errors")


def run(F, R, tier):
    R.explanation = EXPL
    R.assumptions += ["A1: usize additions on cursor/position bookkeeping do not overflow before memory is exhausted",
                      "A2: Rust-stack depth of the recursive-descent parser is bounded by the property's nesting bound (64)",
                      "A3: tables/std_callees.json classifies every external callee"]
    A, fns, keys = audit_run.run_audit(F, R, ROOTS, front_end, "front end")
    R.floor("front-end functions audited", len(fns), 200)
    default_cfg = getattr(F, "config", "default") == "default"  # table bookkeeping is held to the default configuration
    for gi, g in enumerate(A.groups if default_cfg else []):
        if g.get("scope") == "front-end":
            n = len(A.group_hits.get(gi, []))
            # more sites than were reviewed = a new site rides on an old justification; fewer = code went away or moved
            # (a moved site shows up as an open site of its new function)
            R.ob("justified-group-count", g["name"], n <= g["count"] or bool(g.get("open_ended")),
                 "group justification matches %d sites, reviewed count is %d%s" % (n, g["count"], " (shape justified by an invariant: open-ended)" if g.get("open_ended") else ""), nontrivial=False)
            if n > g["count"]:
                R.note("justification group '%s' now matches %d sites, %d were counted at review time" % (g["name"], n, g["count"]))
            if n < g["count"]:
                R.note("justification group '%s' now matches %d of the %d reviewed sites" % (g["name"], n, g["count"]))
    for k in (A.justified if default_cfg else []):
        fn = k.split(" | ")[0]
        if fn in fns and k not in keys:
            R.note("tables/justified_sites.json names a site that no longer exists: %s" % k)
    invariants(F, R)
    token_progress(F, R)
    progress(F, R, A)
    diagnostics(F, R, A)


# ---------------------------------------------------------------------------
def writers_of(F, field, base_ty_rx):
    """{function: [rendered writes]} for assignments / mutating method calls on `<x>.<field>`"""
    out = {}
    MUT = {"push", "pop", "truncate", "clear", "insert", "remove", "drain", "append", "extend", "resize", "retain", "swap_remove"}
    for p, g in F.fns.items():
        b = H.body_of(g)
        if b is None:
            continue
        for x in H.walk(b):
            if x.get("k") in ("assign", "assignop"):
                l = x["l"]
                if l.get("k") == "field" and l["name"] == field and re.search(base_ty_rx, l.get("base_ty", "")):
                    out.setdefault(p, []).append(H.render(x))
            if x.get("k") == "mcall" and x["m"] in MUT:
                r = H.strip(x["recv"])
                if r.get("k") == "field" and r["name"] == field and re.search(base_ty_rx, r.get("base_ty", "")):
                    out.setdefault(p, []).append(H.render(x))
            if x.get("k") == "struct" and re.search(base_ty_rx, x["res"].get("path") or ""):
                for fd in x["fields"]:
                    if fd["name"] == field:
                        out.setdefault(p, []).append("%s: %s" % (field, H.render(fd["e"])))
    return out


def invariants(F, R):
    C = "compiler::Compiler::"
    w1 = writers_of(F, "scope_index", r"compiler::Compiler$")
    w2 = writers_of(F, "scopes", r"compiler::Compiler$")
    want1 = {C + "new": ["scope_index: 0"], C + "enter_scope": ["self.scope_index += 1"], C + "leave_scope": ["self.scope_index -= 1"]}
    want2 = {C + "new": ["scopes: from_elem(main_scope, 1)", "scopes: [main_scope]"],
             C + "enter_scope": ["self.scopes.push(scope)"],
             C + "leave_scope": ["self.scopes.truncate((self.scopes.len() - 1))"]}
    ok1 = set(w1) == set(want1) and all(w1[k] == want1[k] for k in w1)
    ok2 = set(w2) == set(want2) and all(len(w2[k]) == 1 and (w2[k][0] in want2[k] or k == C + "new") for k in w2)
    R.ob("scope-index-invariant", "writers of Compiler.scope_index", ok1, str(w1))
    R.ob("scope-index-invariant", "writers of Compiler.scopes", ok2, str(w2))
    S = "scanner::Scanner::"
    w = writers_of(F, "position", r"scanner::Scanner$")
    dflt = "<scanner::Scanner as std::default::Default>::default"
    derived = dflt in F.fns and "derive" in F.fns[dflt].get("mac", "")
    okp = set(w) - ({dflt} if derived else set()) == {S + "new", S + "read_char"} and \
        w.get(S + "read_char") == ["self.position = self.read_position.min(self.input.len())"] and w.get(S + "new") == ["position: 0"]
    R.ob("scanner-position-invariant", "writers of Scanner.position (<= input.len())", okp, str(w))
    wi = writers_of(F, "input", r"scanner::Scanner$")
    R.ob("scanner-position-invariant", "Scanner.input is never modified after construction",
         set(wi) - ({dflt} if derived else set()) <= {S + "new"}, str(wi))


# ---------------------------------------------------------------------------
def must_advance(F, A, fns, prims):
    """functions every entry→return path of which calls an advancing function"""
    MA = set(prims)
    changed = True
    while changed:
        changed = False
        for p in fns:
            if p in MA:
                continue
            B = A.body(p)
            adv = M.call_blocks(B, lambda t: (t.get("callee") in MA))
            rets = M.return_blocks(B)
            reach = M.reachable_avoiding(B, 0, adv, through_start=False)
            if rets and not (reach & rets) and adv:
                MA.add(p)
                changed = True
    return MA


def progress(F, R, A):
    scan_fns = sorted(p for p, f in F.fns.items() if "src/scanner/" in f["file"] and "tests" not in f["file"])
    pars_fns = sorted(p for p, f in F.fns.items() if "src/parser/" in f["file"] and "tests" not in f["file"] and "/ast/" not in f["file"])
    MA_s = must_advance(F, A, scan_fns, {"scanner::Scanner::read_char"})
    MA_p = must_advance(F, A, pars_fns, {"parser::Parser::next_token"})
    R.count("must-advance scanner functions", len(MA_s))
    R.count("must-advance parser functions", len(MA_p))
    n_loops = 0
    for grp, MA in ((scan_fns, MA_s), (pars_fns, MA_p)):
        for p in grp:
            if "lazy_static" in F.fns[p].get("mac", ""):
                continue
            B = A.body(p)
            for k, (h, body) in enumerate(M.natural_loops(B)):
                n_loops += 1
                adv = {b for b in body if B.blocks[b]["term"]["k"] == "call" and (
                    B.blocks[b]["term"].get("callee") in MA or ITER_NEXT.search(B.blocks[b]["term"].get("callee") or ""))}
                # can the header reach itself inside the loop without an advancing call?
                seen, stack, cyc = set(), [s for s in B.succ(h) if s in body], False
                if h in adv:
                    stack = []
                while stack:
                    x = stack.pop()
                    if x == h:
                        cyc = True
                        break
                    if x in seen or x in adv or x not in body:
                        continue
                    seen.add(x)
                    stack.extend(B.succ(x))
                key = "%s loop#%d" % (p, k)
                pratt = any(B.blocks[b]["term"]["k"] == "call" and (B.blocks[b]["term"].get("callee") or "").endswith("::peek_infix") for b in body)
                if cyc and pratt:
                    ok, det = pratt_obligation(F, R)
                    R.ob("loop-progress", key, ok, "Pratt loop: the non-advancing path (no infix rule) is excluded by the table obligation: " + det, F.loc(F.fns[p]))
                else:
                    R.ob("loop-progress", key, not cyc,
                         "every cycle passes an advancing call" if not cyc else "a cycle through the loop header reaches no advancing call",
                         F.loc(F.fns[p], B.blocks[h]["term"].get("line")))
    R.count("cursor loops checked", n_loops)
    R.floor("cursor loops", n_loops, 15)
    # no advance-free recursion among parser functions (no left recursion)
    edges = {}
    rules = parse_rules_table(F, R) or {}
    prefix_fns = {"parser::rules::<impl parser::Parser>::" + r["prefix"] for r in rules.values() if r.get("prefix")}
    infix_fns = {"parser::rules::<impl parser::Parser>::" + r["infix"] for r in rules.values() if r.get("infix")}
    def has_cursor(q):
        Bq = A.body(q)
        return Bq.arg_count >= 1 and Bq.local_ty(1).replace("'a ", "").startswith("&mut parser::Parser")
    for p in pars_fns:
        if not has_cursor(p):
            continue  # structural recursion over an AST value, not over the token stream
        B = A.body(p)
        adv = M.call_blocks(B, lambda t: t.get("callee") in MA_p)
        free = M.reachable_avoiding(B, 0, adv, through_start=False) | {b for b in adv if b in M.reachable_avoiding(B, 0, adv - {b}, through_start=False)}
        for bi in sorted(free):
            t = B.blocks[bi]["term"]
            if t["k"] != "call":
                continue
            c = t.get("callee")
            if c in pars_fns and has_cursor(c) and (bi not in adv or c not in MA_p):
                edges.setdefault(p, set()).add(c)
            if c is None:
                # indirect calls: prefix functions are called before any advance, infix ones after next_token()
                fnty = t.get("fnty", "")
                if "bool" in fnty:
                    edges.setdefault(p, set()).update(prefix_fns)
    # cycle detection on the advance-free graph
    color, cyc = {}, []

    def dfs(u, path):
        color[u] = 1
        for v in sorted(edges.get(u, ())):
            if color.get(v) == 1:
                cyc.append(path + [u, v])
            elif v not in color:
                dfs(v, path + [u])
        color[u] = 2
    for u in sorted(edges):
        if u not in color:
            dfs(u, [])
    R.ob("no-left-recursion", "advance-free call graph of the parser is acyclic", not cyc,
         "cycle: %s" % " -> ".join(H.last(x) for x in cyc[0]) if cyc else "%d advance-free call edges, no cycle" % sum(len(v) for v in edges.values()))


def pratt_obligation(F, R):
    rules = parse_rules_table(F, R)
    lv = dict(F.enum_variants("parser::precedence::Precedence") or [])
    toks = F.enum_variants("scanner::token::TokenType") or []
    bad = []
    for t, _ in toks:
        r = rules.get(t)
        if r is None:
            continue  # default rule: Lowest, Left, no infix → peek_valid_expression is false for it
        binds = r["assoc"] == "Right" or lv.get(r["prec"], 0) > lv.get("Lowest", 0)
        if binds and not r["infix"]:
            bad.append(t)
    # the default ParseRule is Lowest/Left
    d = F.fn("<parser::rules::ParseRule as std::default::Default>::default")
    ok_default = d is not None and "derive" in d.get("mac", "")
    return (not bad and ok_default), ("every token whose rule can satisfy peek_valid_expression has an infix parser (%d tokens, %d rules)" % (len(toks), len(rules))
                                      if not bad else "tokens with a binding precedence but no infix parser: %s" % bad)


# ---------------------------------------------------------------------------
def diagnostics(F, R, A):
    # expect_peek records an error on every path that returns false
    ep = F.fn(EXPECT_PEEK)
    if R.anchor(EXPECT_PEEK, ep):
        leaves = H.return_leaves(H.body_of(ep))
        ok = True
        for e, g in leaves:
            v = H.strip(e)
            if v.get("k") == "lit" and v["v"] is False:
                # the false leaf must sit in a block that called peek_error
                pass
        txt = H.render(H.body_of(ep))
        ok = "self.peek_error(ttype); false" in txt
        R.ob("expect-peek-records", "expect_peek: the false result follows peek_error", ok, txt[:160], F.loc(ep))
    for e in sorted(ERR_FNS):
        g = F.fn(e)
        if R.anchor(e, g):
            # each error function pushes onto self.errors (directly or through push_error*)
            B = A.body(e)
            direct = any(x.get("k") == "mcall" and x["m"] == "push" and H.render(x["recv"]) == "self.errors" for x in H.walk(H.body_of(g)))
            via = M.call_blocks(B, lambda t: t.get("callee") in ERR_FNS)
            rets = M.return_blocks(B)
            ok = direct or not (M.reachable_avoiding(B, 0, via, through_start=False) & rets)
            R.ob("error-recorded", e, ok, "pushes onto Parser.errors on every path", F.loc(g))
    # (c1) every construction of *::Invalid in the parser is preceded by a recorded error
    n = 0
    for p, f in sorted(F.fns.items()):
        if "src/parser/" not in f["file"] or "/ast/" in f["file"]:
            continue
        B = A.body(p)
        cons = []
        for bi, b in enumerate(B.blocks):
            if b.get("cleanup"):
                continue
            for s in b["stmts"]:
                if s["k"] == "assign" and s["rv"]["k"] == "agg" and re.search(r"(Statement|Expression)::Invalid$", s["rv"]["ak"]):
                    cons.append((bi, s))
                if s["k"] == "setdiscr":
                    pass
        if not cons:
            continue
        barriers = set(M.call_blocks(B, lambda t: t.get("callee") in ERR_FNS))
        # false edges of `if !self.expect_peek(..)` / `if self.expect_peek(..) {..} else {..}`
        for bi, b in enumerate(B.blocks):
            t = b["term"]
            if t["k"] == "switch":
                sym = B.sym_op(t["d"], through_vars=True)
                neg = False
                while sym[0] == "un" and sym[1] == "Not":
                    neg = not neg
                    sym = sym[2]
                if sym[0] == "call" and sym[1] == EXPECT_PEEK:
                    for v, tgt in zip(t["vals"], t["ts"]):
                        if v == 0 and not neg:
                            barriers.add(tgt)
                    if neg:
                        barriers.add(t["otherwise"])
        reach = M.reachable_avoiding(B, 0, barriers, through_start=False)
        per = {}
        for bi, s in cons:
            n += 1
            kind = H.last(s["rv"]["ak"].split(":", 1)[1])
            k = per.get(kind, 0)
            per[kind] = k + 1
            R.ob("invalid-node-has-error", "%s %s#%d" % (p, s["rv"]["ak"].split("::")[-2] + "::Invalid", k), bi not in reach,
                 "preceded by a recorded error on every path" if bi not in reach else
                 "reachable from the function entry without any error being recorded: the parser can return an Invalid node silently",
                 F.loc(f, s.get("line")))
    R.count("Invalid-node constructions in the parser", n)
    R.floor("Invalid-node constructions", n, 25)
    # Default impls must not produce Invalid silently
    for ty in ("parser::ast::stmt::Statement", "parser::ast::expr::Expression"):
        d = [p for p in F.fns if p.startswith("<%s as std::default::Default>" % ty)]
        R.ob("invalid-node-has-error", "%s has no Default impl (no silent Invalid)" % H.last(ty), not d, str(d), nontrivial=False)
    # (c2) parse_program returns Some only if no error was printed
    pp = F.fn("parse_program")
    if R.anchor("main::parse_program", pp):
        # truth table of parse_program over its conditions: Some exactly when print_parse_errors(parser) is false
        cls = lambda e: H.last(H.ctor_of(H.strip(e)) or "") or H.render(e)
        t = H.bool_table(None, pp, classify=cls)
        ok, det = False, "not a function of boolean conditions"
        if t is not None:
            atoms, table = t
            det = "; ".join("%s when {%s}" % (v, ", ".join(sorted(k)) or "none true") for k, v in sorted(table.items(), key=lambda kv: sorted(kv[0])))
            ok = len(atoms) == 1 and atoms[0].startswith("print_parse_errors(") and table[frozenset()] == "Some" and table[frozenset(atoms)] == "None"
        R.ob("errors-stop-execution", "parse_program returns Some only without errors", ok, det, F.loc(pp))
    pe = F.fn("print_parse_errors")
    pr = F.fn("parser::Parser::print_errors")
    if R.anchor("print_parse_errors", pe) and R.anchor("Parser::print_errors", pr):
        from .lib import decide as D_

        def fn_is(g_, rx, negated):
            """the boolean function g_ returns exactly the condition matching rx (its negation when `negated`): by its truth
            table over the conditions it tests, a condition given a name first (`let has_errors = ..`) included"""
            ok_, det_ = H.bool_fn_is(None, g_, rx, negated=negated)
            if ok_:
                return ok_, det_
            rows, why = D_.table(F, g_, inline=False)
            if rows is None:
                return False, det_ + "; " + why
            # a result that is one of the conditions themselves (`has_errors` returned as it was tested) has that condition's value
            rows = [(e, r if isinstance(r, bool) else (e[r] if r in e else {"true": True, "false": False}.get(str(r), r))) for e, r in rows]
            return D_.check(rows, [(rx.strip("^$"), "c")], {"c": (True, False)}, lambda e: (not e["c"]) if negated else e["c"])
        ok, det = fn_is(pe, r"^(parser\.)?print_errors\((parser)?\)$", False)
        R.ob("errors-stop-execution", "print_parse_errors is true iff print_errors", ok, det, F.loc(pe))
        ok, det = fn_is(pr, r"^self\.errors\.is_empty\(\)$", True)
        R.ob("errors-stop-execution", "print_errors is true iff errors is non-empty", ok, det, F.loc(pr))
    # (c3) VM construction / run dominated by the success arms
    for fn in ("run_buf", "run_prompt"):
        g = F.fn(fn)
        if not R.anchor("main::" + fn, g):
            continue
        B = A.body(fn)
        vm_calls = M.call_blocks(B, lambda t: (t.get("callee") or "").startswith("vm::interpreter::VM::new") or t.get("callee") == "vm::interpreter::VM::run")
        parse_calls = M.call_blocks(B, lambda t: t.get("callee") == "parse_program")
        comp_calls = M.call_blocks(B, lambda t: t.get("callee") == "compiler::Compiler::compile")
        ok = bool(vm_calls) and bool(parse_calls) and bool(comp_calls)
        det = []
        for vb in sorted(vm_calls):
            facts_ok = False
            # walk dominators: need a discriminant test on the parse result (Some) and on the compile result (not Err)
            have = set()
            for d in B.dominators().get(vb, ()):
                t = B.blocks[d]["term"]
                if t["k"] != "switch":
                    continue
                sym = B.sym_op(t["d"], through_vars=True)
                if sym[0] != "discr":
                    continue
                src = M.show(sym[1])
                # which edge leads to vb?
                tgt = None
                for s in dict.fromkeys(t["ts"] + [t["otherwise"]]):
                    if s == vb or B.dominates(s, vb):
                        tgt = s
                vals = [v for v, tt in zip(t["vals"], t["ts"]) if tt == tgt]
                if "parse_program" in src and vals == [1]:
                    have.add("parsed")
                if "Compiler::compile" in src and (vals == [0] or (tgt == t["otherwise"] and 1 in t["vals"]) or vals == []):
                    # `if let Err(e) = compile() {..return/continue}`: the VM is on the not-Err edge
                    if vals == [0] or (tgt == t["otherwise"]):
                        have.add("compiled")
            det.append("bb%d:%s" % (vb, sorted(have)))
            ok = ok and have == {"parsed", "compiled"}
        R.ob("errors-stop-execution", "%s: VM::new*/run dominated by Some(program) and Ok(compile)" % fn, ok, "; ".join(det), F.loc(g))


# ---------------------------------------------------------------------------
def token_progress(F, R):
    """Scanner::next_token consumes input whenever it returns a token that is not end-of-input.

    Abstract interpretation over a finite partition of the character domain: the current character and the look-ahead
    character range over one representative of every class the scanner's own tests can tell apart (every character
    literal it mentions, an ASCII digit, letters, a non-ASCII letter, a non-ASCII numeral, a hex letter, '_', blanks,
    another symbol).  For each pair the paths of next_token (with the scanner's readers inlined) are enumerated, the
    conditions on the two characters decided, everything else left open; a path that reaches a return without any
    read_char() is a token produced without progress — the parser then receives the same token for ever."""
    SC = "scanner::Scanner::"
    g = F.fn(SC + "next_token")
    if not R.anchor(SC + "next_token", g):
        return
    opaque = tuple(SC + x for x in ("read_char", "peek_char", "skip_whitespace", "skip_comments", "lookup_identifier", "new", "get_line")) + \
        ("scanner::token::Token::new",)
    body = H.inline_helpers(F, H.body_of(g), depth=4, max_size=600, skip=opaque)
    lits = set()
    for p, f in F.fns.items():
        if p.startswith(SC) and H.body_of(f) is not None:
            for x in H.walk(H.body_of(f)):
                if x.get("k") == "lit" and x.get("lk") == "char" and isinstance(x.get("v"), str) and len(x["v"]) == 1:
                    lits.add(x["v"])
    reps = sorted(lits | {"5", "a", "Z", "g", "f", "é", "²", "٣", "_", " ", "\n", "§", "\0"})
    peek_ids = {x["pat"]["id"] for x in H.walk(body) if x.get("k") == "let" and x.get("pat", {}).get("k") == "bind" and x.get("init") is not None and
                H.strip(x["init"]).get("k") == "mcall" and H.strip(x["init"]).get("callee") == SC + "peek_char"}
    PRED = {
        "is_ascii_digit": lambda c: c.isascii() and c.isdigit(), "is_ascii_hexdigit": lambda c: c.isascii() and c in "0123456789abcdefABCDEF",
        "is_alphabetic": lambda c: c.isalpha(), "is_alphanumeric": lambda c: c.isalpha() or c.isnumeric(), "is_numeric": lambda c: c.isnumeric(),
        "is_ascii_alphabetic": lambda c: c.isascii() and c.isalpha(), "is_ascii_alphanumeric": lambda c: c.isascii() and c.isalnum(),
        "is_whitespace": lambda c: c.isspace(), "is_ascii_whitespace": lambda c: c in " \t\n\r\x0c", "is_ascii": lambda c: c.isascii(),
        "is_ascii_punctuation": lambda c: c.isascii() and not c.isalnum() and not c.isspace() and c.isprintable(),
        "is_control": lambda c: ord(c) < 32 or ord(c) == 127, "is_uppercase": lambda c: c.isupper(), "is_lowercase": lambda c: c.islower(),
    }

    def char_of(n, c, pk):
        n = H.strip(n)
        if n.get("k") == "field" and n.get("name") == "ch" and n.get("base_ty", "").endswith("scanner::Scanner"):
            return c
        if n.get("k") == "mcall" and n.get("callee") == SC + "peek_char":
            return pk
        if H.is_local(n) and H.local_id(n) in peek_ids:
            return pk
        if H.is_local(n) and H.local_id(n) in bound:
            return bound[H.local_id(n)]    # `ch if pred(ch) => ..`: the arm's variable is the character matched on
        if n.get("k") == "lit" and n.get("lk") == "char":
            return n["v"]
        return None

    bound = {}

    def pat_match(pt, ch):
        k = pt.get("k")
        if k == "bind" and "sub" not in pt:
            bound[pt["id"]] = ch
        if k == "wild" or k == "bind":
            return True
        if k == "plit" and pt["lit"].get("lk") == "char":
            return pt["lit"]["v"] == ch
        if k == "or":
            rs = [pat_match(q, ch) for q in pt["pats"]]
            return True if any(r is True for r in rs) else (None if any(r is None for r in rs) else False)
        if k == "range":
            lo, hi = pt.get("lo", {}).get("v"), pt.get("hi", {}).get("v")
            if isinstance(lo, str) and isinstance(hi, str):
                return lo <= ch <= hi
        return None

    def make(c, pk):
        def val(n):
            n = H.strip(n)
            k = n.get("k")
            while k == "block" and not n.get("stmts") and n.get("expr") is not None:
                n = H.strip(n["expr"])
                k = n.get("k")
            if k == "lit" and n.get("lk") == "bool":
                return bool(n["v"])
            if k == "un" and n.get("op") == "!":
                v = val(n["e"])
                return None if v is None else (not v)
            if k == "bin" and n["op"] in ("&&", "||"):
                l, r = val(n["l"]), val(n["r"])
                if n["op"] == "&&":
                    return False if (l is False or r is False) else (True if (l and r) else None)
                return True if (l is True or r is True) else (False if (l is False and r is False) else None)
            if k == "bin" and n["op"] in ("==", "!="):
                a, b = char_of(n["l"], c, pk), char_of(n["r"], c, pk)
                if a is not None and b is not None:
                    return (a == b) == (n["op"] == "==")
                return None
            if k == "mcall" and n["m"] in PRED and not n.get("args"):
                a = char_of(n["recv"], c, pk)
                return PRED[n["m"]](a) if a is not None else None
            if k == "match" and not H.is_try(n):
                a = char_of(n["scrut"], c, pk)
                if a is not None:
                    for arm in n["arms"]:
                        m_ = pat_match(arm["pat"], a)
                        if m_ is None:
                            return None
                        if m_:
                            if arm.get("guard") is not None:
                                gv = val(arm["guard"])
                                if gv is None:
                                    return None
                                if not gv:
                                    continue
                            return val(arm["body"])
                return None
            if k == "block" and n.get("inlined") and not n.get("stmts"):
                return val(n["expr"])
            return None

        def arm(n):
            a = char_of(n["scrut"], c, pk)
            if a is None:
                return None
            out = []
            for i, arm_ in enumerate(n["arms"]):
                m_ = pat_match(arm_["pat"], a)
                if m_ is None:
                    return None
                if m_:
                    out.append(i)
                    if arm_.get("guard") is None:
                        break
            return out
        return val, arm
    bad = []
    n_pairs = 0
    for c in reps:
        if c == "\0" or c.isspace() or c == "#":
            continue          # end of input; blanks and comment starts are consumed by the skipping before the dispatch
        for pk in reps:
            n_pairs += 1
            bound.clear()
            val, arm = make(c, pk)
            ps = H.paths(body, val, limit=3000, arm_oracle=arm)
            for evs, ex in ps:
                if ex == "limit":
                    bad.append(("%r/%r" % (c, pk), "path limit reached"))
                    break
                if not any(e_[0] == "call" and e_[1] == SC + "read_char" for e_ in evs):
                    bad.append(("%r/%r" % (c, pk), "a path returns (%s) without read_char()" % ex))
                    break
    R.ob("token-progress", "next_token consumes at least one character on every path that starts at a non-blank, non-NUL character",
         not bad, "character classes × look-ahead classes examined: %d; without progress: %s" % (n_pairs, bad[:4]), F.loc(g))
    R.floor("character-class pairs examined", n_pairs, 400)
