"""C14 — bytecode operands are encoded losslessly or the program is rejected.

Codec tables are compared exhaustively (opcode numbering, DEFINITIONS widths,
what each VM::run arm decodes and how far it advances ip, operand counts at
every emit site); the rejection clause is a guard rule on the narrowing casts
of make()."""
import re

from .lib import hir as H
from .lib import mir as M
from .lib.tables import lazy_init
from .lib.vmarms import vm_arms, definitions_table, decode_reads, ip_increments

EXPL = ("Table agreement (E2) over the finite opcode set: enum discriminants vs From<u8> for all 256 byte values; "
        "DEFINITIONS has one entry per opcode with widths in {1,2}; for every VM::run arm the operand reads (offset, "
        "width, byte order) and the total ip advance equal the encoder's width list; make/read_operands use the same "
        "width→codec mapping; every emit site passes at least as many operands as the opcode has widths. Guard rule "
        "(E1/E3): each narrowing cast in make() must be protected by a range test whose failure makes compile() "
        "return an error. GLOBALS_SIZE/BUILTINS_SIZE cover the decoders' index ranges.")


def run(F, R, tier):
    R.explanation = EXPL
    ops = F.enum_variants("code::opcode::Opcode")
    if not R.anchor("enum code::opcode::Opcode", ops):
        return
    discr = {n: d for n, d in ops}
    R.floor("opcodes", len(ops), 49)

    # ---- (a) From<u8> is the inverse of the discriminant, total over 256 values
    f = F.fn("<code::opcode::Opcode as std::convert::From<u8>>::from")
    if R.anchor("From<u8> for Opcode", f):
        table, default = {}, None
        for m in H.find(H.body_of(f), lambda x: x.get("k") == "match"):
            for a in m["arms"]:
                p = a["pat"]
                v = H.ctor_of(H.strip(a["body"]))
                if p.get("k") == "plit" and p["lit"]["lk"] == "int":
                    table[p["lit"]["v"]] = H.last(v)
                elif p.get("k") == "wild":
                    default = H.last(v)
        bad = []
        for b in range(256):
            got = table.get(b, default)
            want = [n for n, d in ops if d == b and n != "Invalid"]
            want = want[0] if want else "Invalid"
            if got != want:
                bad.append((b, got, want))
        R.ob("opcode-from-u8", "all 256 byte values", not bad,
             "mismatches (byte, decoded, discriminant owner): %s" % bad[:6] if bad else "from(b) is the variant numbered b, else Invalid",
             F.loc(f))
        R.count("byte values decoded", 256)

    # ---- (b) DEFINITIONS ---------------------------------------------------
    defs = definitions_table(F, R)
    if defs is None:
        return
    for n, d in ops:
        if n == "Invalid":
            R.ob("definitions-entry", "Invalid has no definition", n not in defs, "")
            continue
        ok = n in defs and all(w in (1, 2) for w in defs[n]["widths"])
        R.ob("definitions-entry", n, ok, "widths %s" % (defs.get(n, {}).get("widths"),), "src/code/definitions.rs")
    R.ob("definitions-unique", "one insert per opcode", all(v["count"] == 1 for v in defs.values()),
         str([k for k, v in defs.items() if v["count"] != 1]), nontrivial=False)

    # ---- (c) reader/writer agreement per VM::run arm -------------------------
    arms = vm_arms(F, R)
    if arms is None:
        return
    R.floor("VM::run opcode arms", len(arms), 49)
    cf = F.fn("vm::interpreter::VM::call_func")
    cb = F.fn("vm::interpreter::VM::call_builtin")
    for n, d in ops:
        a = arms.get(n)
        if not R.ob("vm-arm-exists", n, a is not None, "VM::run has an arm for %s" % n, "src/vm/interpreter.rs"):
            continue
        if n == "Invalid":
            continue
        widths = defs.get(n, {}).get("widths", [])
        # operand decoding may live in small helpers (`read_u16_operand(code, ip)`): the arm is read with them inlined
        reads = decode_reads(H.inline_helpers(F, a["body"]))
        want, off = [], 1
        for w in widths:
            want.append((off, w, "be" if w == 2 else "-"))
            off += w
        R.ob("decode-reads", n, sorted(reads) == sorted(want),
             "arm reads %s, encoder writes %s" % (sorted(reads), want), "src/vm/interpreter.rs:%s" % a["line"])
        incs, has_continue, tail_continue = ip_increments(a["body"])
        total = sum(widths)
        if not has_continue:
            R.ob("ip-advance", n, sum(incs) == total, "arm advances ip by 1+%s, instruction length 1+%d" % (incs, total),
                 "src/vm/interpreter.rs:%s" % a["line"])
        elif not tail_continue:
            # conditional jump: fall-through path must skip the operand
            R.ob("ip-advance", n, sum(incs) == total, "fall-through advances ip by 1+%s, instruction length 1+%d" % (incs, total),
                 "src/vm/interpreter.rs:%s" % a["line"])
        else:
            # unconditional transfer: Jump (absolute), Call (callee frame), Return*
            if n == "Call":
                for g in (cf, cb):
                    if R.anchor("call_func/call_builtin", g):
                        gi, _, _ = ip_increments(H.body_of(g))
                        R.ob("ip-advance", "Call via %s" % H.last(g["path"]), sum(gi) == 1 + total,
                             "advances caller ip by %s, instruction length %d" % (gi, 1 + total), F.loc(g))
            else:
                R.ob("ip-advance", n, sum(incs) == 0, "absolute transfer; no relative advance expected, got %s" % incs,
                     "src/vm/interpreter.rs:%s" % a["line"])

    # operands are widened before the VM computes with them: every value the encoder accepts (≤ 255 / ≤ 65535) must be
    # usable, so `num_args + 1`, `operand * 2`, .. in u8/u16 arithmetic (wraps or panics at the top of the range) is a
    # reader that does not honour the width the encoder wrote.  Decided on MIR: no arithmetic BinaryOp on u8/u16 in the
    # functions of src/vm/interpreter.rs (operand decoding and everything it hands the operand to).
    from .lib import mir as M
    n_fn = n_arith = 0
    for p, g in sorted(F.fns.items()):
        if not p.startswith("vm::interpreter::") or not g.get("mir"):
            continue
        n_fn += 1
        B = M.Body(g)
        for bi, b in enumerate(B.blocks):
            if b.get("cleanup"):
                continue
            for st in b["stmts"]:
                rv = st.get("rv") or {}
                if st.get("k") != "assign" or rv.get("k") != "bin":
                    continue
                op = rv["op"].replace("WithOverflow", "").replace("Unchecked", "")
                if op not in ("Add", "Sub", "Mul", "Shl"):
                    continue
                n_arith += 1
                tys = []
                for side in ("a", "b"):
                    o = rv[side]
                    tys.append(o.get("ty") if o.get("k") == "const" else B.local_ty(o["pl"]["l"]) if not o["pl"]["p"] else None)
                if op == "Shl":
                    tys = tys[:1]
                narrow = [t for t in tys if t in ("u8", "u16", "i8", "i16")]
                if narrow:
                    R.ob("operand-arith-width", "%s: %s in %s" % (p, op, narrow[0]), False,
                         "arithmetic in a type as narrow as an encoded operand: the top of the encodable range overflows", F.loc(g, st.get("line")))
    R.ob("operand-arith-width", "no u8/u16 arithmetic in the VM (operands are widened to usize first)", True,
         "%d arithmetic operations in %d functions of vm::interpreter inspected" % (n_arith, n_fn), nontrivial=True)
    R.floor("VM arithmetic sites inspected", n_arith, 40)
    # make / read_operands: width → codec
    mk = F.fn("code::definitions::make")
    ro = F.fn("code::definitions::read_operands")
    if R.anchor("code::definitions::make", mk) and R.anchor("code::definitions::read_operands", ro):
        # make and read_operands with the private helpers of their file written out in place (`def.encode(op, operands)`)
        from .lib import codec as C_
        same_file = lambda g_: (lambda c_: (F.fns.get(c_) or {}).get("file") != g_["file"])
        mk_b = H.inline_helpers(F, H.body_of(mk), max_size=400, skip=same_file(mk))
        ro_b = H.inline_helpers(F, H.body_of(ro), max_size=400, skip=same_file(ro))
        # byte order of the 16-bit writer: from the instantiation the MIR records (write_u16::<BigEndian>) or the method (to_be_bytes)
        orders, w8 = set(), False
        for b in C_._with_private_helpers(F, mk)["mir"]["blocks"]:
            t = b["term"]
            if t["k"] != "call" or b.get("cleanup"):
                continue
            ci = (t.get("callee_inst") or "") + " " + (t.get("callee") or "")
            if "write_u16" in ci:
                orders.add("be" if "BigEndian" in ci else ("le" if "LittleEndian" in ci else ci))
            if re.search(r"<impl u16>::to_be_bytes", ci):
                orders.add("be")
            if re.search(r"<impl u16>::to_(le|ne)_bytes", ci):
                orders.add("le")
            if "write_u8" in ci or re.search(r"Vec::<T, A>::push$", t.get("callee") or ""):
                w8 = True
        R.ob("make-codec", "width 2 → write_u16::<BigEndian>, width 1 → write_u8",
             orders == {"be"} and w8, "16-bit writers: %s; 8-bit writer: %s" % (sorted(orders), w8), F.loc(mk))

        def writers(body):
            """the byte writers in an arm: [(bits, the cast applied to the operand)]"""
            out_ = []
            for x in H.walk(body):
                if x.get("k") != "mcall":
                    continue
                casts = [c_.get("ty") for c_ in H.walk(x.get("args", [])) if c_.get("k") == "cast"]
                if x["m"] == "write_u16":
                    out_.append((16, casts))
                elif x["m"] == "write_u8":
                    out_.append((8, casts))
                elif x["m"] == "extend_from_slice" and any(y.get("k") == "mcall" and y["m"] in ("to_be_bytes", "to_le_bytes") for y in H.walk(x["args"])):
                    out_.append((16 if "u16" in casts else (8 if "u8" in casts else 0), casts))
                elif x["m"] == "push" and "Vec<u8>" in (x.get("recv_ty") or ""):
                    out_.append((8, casts))
            return out_
        # which match arm (literal width) reaches which writer
        def arms_by_literal(body):
            """(integer literal, code run for it): arms of a match with literal patterns, or the branches of an
            `if w == 2 {..} else if w == 1 {..}` chain"""
            for m in H.find(body, lambda x: x.get("k") == "match" and not H.is_try(x)):
                for a in m["arms"]:
                    if a["pat"].get("k") == "plit" and a["pat"]["lit"].get("lk") == "int":
                        yield a["pat"]["lit"]["v"], a["body"]
            for x in H.find(body, lambda x: x.get("k") == "if"):
                c = H.strip(x["c"])
                if c.get("k") == "bin" and c["op"] == "==":
                    for a_, b_ in ((c["l"], c["r"]), (c["r"], c["l"])):
                        if H.strip(b_).get("k") == "lit" and H.strip(b_).get("lk") == "int" and H.is_local(H.strip(a_)):
                            yield H.strip(b_)["v"], x["t"]
        wmap = {}
        for lit_, body_ in arms_by_literal(mk_b):
            wmap[lit_] = writers(body_)
        R.ob("make-codec", "arm per width", wmap.get(2) == [(16, ["u16"])] and wmap.get(1) == [(8, ["u8"])],
             str(wmap), F.loc(mk))

        def reader(e):
            """("be"|"le", n bytes) for from_xx_bytes([ins[o], ins[o+1], ..]) / ("-", 1) for ins[o], widened to usize; else its text"""
            e = H.strip(e)
            widened = False
            while e.get("k") == "cast" or (e.get("k") in ("call", "mcall") and H.last(e.get("callee") or "") in ("from", "into") and
                                            len(([e["recv"]] if e.get("k") == "mcall" else []) + e.get("args", [])) == 1):
                widened = widened or "usize" in (e.get("ty") or "")
                e = H.strip(e["e"] if e.get("k") == "cast" else (([e["recv"]] if e.get("k") == "mcall" else []) + e.get("args", []))[0])

            def off(i_):
                i_ = H.strip(i_)
                if H.is_local(i_):
                    return (H.local_id(i_), 0)
                if i_.get("k") == "bin" and i_["op"] == "+" and H.is_local(H.strip(i_["l"])) and H.strip(i_["r"]).get("k") == "lit":
                    return (H.local_id(H.strip(i_["l"])), H.strip(i_["r"])["v"])
                return None
            if not widened:
                return H.render(e)
            if e.get("k") == "index":
                return ("-", 1) if off(e["i"]) is not None else H.render(e)
            cal = e.get("callee") or ""
            if e.get("k") == "call" and re.search(r"<impl u16>::from_(be|le)_bytes$", cal) and H.strip(e["args"][0]).get("k") == "array":
                es = [H.strip(x) for x in H.strip(e["args"][0])["es"]]
                offs = [off(x["i"]) if x.get("k") == "index" else None for x in es]
                bases = {H.local_id(H.strip(x["e"])) for x in es if x.get("k") == "index"}
                if all(o is not None for o in offs) and len(bases) == 1 and len({o[0] for o in offs}) == 1 and [o[1] for o in offs] == list(range(len(offs))):
                    return ("be" if "from_be" in cal else "le", len(offs))
            return H.render(e)
        rmap = {}
        for lit_, body_ in arms_by_literal(ro_b):
            rmap[lit_] = reader(body_)
        R.ob("read-operands-codec", "2 → from_be_bytes([ins[o], ins[o+1]]), 1 → ins[o]",
             rmap.get(2) == ("be", 2) and rmap.get(1) == ("-", 1), str(rmap), F.loc(ro))
        # both iterate def.operand_widths
        for g, nm in ((mk, "make"), (ro, "read_operands")):
            its = [H.render(x) for x in H.find(mk_b if g is mk else ro_b, lambda x: x.get("k") == "field" and x["name"] == "operand_widths")]
            R.ob("width-list", "%s iterates operand_widths" % nm, len(its) >= 1, str(its[:3]), F.loc(g), nontrivial=False)

    # ---- (d) operand counts at emit / make sites -----------------------------
    n_sites = 0
    per = {}
    # the encoder and the functions that hand their own (opcode, operands) parameters on to it unchanged (`emit`, a
    # `make_checked` wrapper): a call of any of them is an encoding site; inside a forwarder the call is not one
    make_like = {"code::definitions::make"}
    forwards = {}
    for _ in range(4):
        for p, g in F.fns.items():
            b = H.body_of(g)
            if b is None or p in forwards or not g.get("hir"):
                continue
            pids = [pr.get("id") for pr in g["hir"]["params"] if pr.get("k") == "bind"]
            for c in H.walk(b):
                if c.get("k") in ("call", "mcall") and c.get("callee") in make_like and len(c.get("args", [])) >= 2 and \
                        H.local_id(H.strip(c["args"][0])) in pids and H.local_id(H.strip(c["args"][1])) in pids:
                    forwards[p] = c["callee"]
                    make_like.add(p)
    for p, g in sorted(F.fns.items()):
        b = H.body_of(g)
        if b is None:
            continue
        for c in H.walk(b):
            if c.get("k") not in ("call", "mcall") or c.get("callee") not in make_like:
                continue
            args = c["args"]
            n_sites += 1
            k = per.get(p, 0)
            per[p] = k + 1
            op = H.ctor_of(H.strip(args[0]))
            arr = H.strip(args[1])
            if H.local_id(arr) is not None:
                # `let operands = [x]; make(op, &operands, ..)`
                li = [x["init"] for x in H.walk(b) if x.get("k") == "let" and x.get("pat", {}).get("id") == H.local_id(arr) and x.get("init") is not None]
                if len(li) == 1:
                    arr = H.strip(li[0])
            cnt = len(arr["es"]) if arr.get("k") == "array" else None
            if op is None:
                if forwards.get(p) == c["callee"] or (p in forwards and H.local_id(H.strip(args[0])) in [pr.get("id") for pr in g["hir"]["params"]]):
                    continue  # forwards its own parameters to make()
                # an opcode chosen into a local first (`let opcode = match .. { .. => Opcode::X, .. }`): every value it can hold
                a0 = H.strip(args[0])
                lid = H.local_id(a0)
                cands = None
                if lid is not None:
                    lets = [x for x in H.walk(b) if x.get("k") == "let" and x.get("pat", {}).get("k") == "bind" and x["pat"].get("id") == lid and x.get("init") is not None]
                    reassigned = any(x.get("k") in ("assign", "assignop") and H.local_id(H.strip(x["l"])) == lid for x in H.walk(b))
                    if len(lets) == 1 and not reassigned:
                        cands = [H.ctor_of(H.strip(v)) for v in H.value_leaves(lets[0]["init"])]
                if cands and all(cands):
                    for co in sorted(set(cands)):
                        opn = H.last(co)
                        need = len(defs.get(opn, {}).get("widths", []))
                        R.ob("operand-count", "%s#%d %s" % (p, k, opn), cnt is not None and cnt >= need and opn in defs,
                             "%s operands passed, %d encoded (opcode held in a local)" % (cnt, need), F.loc(g, c.get("line")))
                    continue
                # dynamic opcode: change_operand re-encodes an existing jump with one operand
                ok = p == "compiler::Compiler::change_operand" and cnt == 1
                R.ob("operand-count", "%s#%d dynamic opcode" % (p, k), ok,
                     "dynamic opcode with %s operands (only jump placeholders are re-encoded: 1 operand)" % cnt,
                     F.loc(g, c.get("line")))
                continue
            opn = H.last(op)
            need = len(defs.get(opn, {}).get("widths", []))
            R.ob("operand-count", "%s#%d %s" % (p, k, opn), cnt is not None and cnt >= need,
                 "%s operands passed, %d encoded" % (cnt, need), F.loc(g, c.get("line")))
    R.count("emit/make call sites", n_sites)
    R.floor("emit/make call sites", n_sites, 100)

    # ---- (e) no silent truncation in make() --------------------------------------
    truncation_guard(F, R, defs)

    # ---- (f) table sizes cover decoder ranges ----------------------------------------
    gs = F.const("vm::interpreter::GLOBALS_SIZE")
    bs = F.const("vm::interpreter::BUILTINS_SIZE")
    R.ob("table-size", "GLOBALS_SIZE >= 2^16", isinstance(gs, int) and gs >= 65536, "GLOBALS_SIZE=%s" % gs)
    R.ob("table-size", "BUILTINS_SIZE >= 2^8", isinstance(bs, int) and bs >= 256, "BUILTINS_SIZE=%s" % bs)


def const_val(n):
    """integer value of a literal / evaluated constant path, through casts"""
    n = H.strip(n)
    while n.get("k") == "cast":
        n = H.strip(n["e"])
    if n.get("k") == "lit" and n["lk"] == "int":
        return n["v"]
    if n.get("k") == "path" and n["res"]["r"] == "const":
        return n["res"].get("val")
    return None


def range_checker_widths(g, F=None):
    """{width: limit} for match arms `w => operand <= MAX_w` (or `>`): the widths a function range-checks
    (private helpers of its file read in place)"""
    b = H.body_of(g)
    out = {}
    if b is None:
        return out
    if F is not None and any(c.get("k") in ("call", "mcall") and (F.fns.get(c.get("callee")) or {}).get("file") == g["file"] for c in H.walk(b)):
        b = H.inline_helpers(F, b, max_size=200, skip=lambda c_: (F.fns.get(c_) or {}).get("file") != g["file"])
    for m in H.find(b, lambda x: x.get("k") == "match" and not H.is_try(x)):
        for a in m["arms"]:
            if a["pat"].get("k") != "plit" or a["pat"]["lit"]["lk"] != "int":
                continue
            w = a["pat"]["lit"]["v"]
            for x in H.walk(a["body"]):
                if x.get("k") == "bin" and x["op"] in ("<=", "<", ">", ">="):
                    for side, other in (("r", "l"), ("l", "r")):
                        v = const_val(x[side])
                        if v is not None and const_val(x[other]) is None:
                            # normalise to the largest accepted value
                            op = x["op"] if side == "r" else {"<=": ">=", "<": ">", ">": "<", ">=": "<="}[x["op"]]
                            lim = v if op in ("<=", ">") else v - 1
                            out[w] = lim
    # the same test with the limits looked up first: `let max = match w { 2 => u16::MAX as usize, 1 => .. }; if x > max ..`
    for st in H.walk(b):
        if st.get("k") != "let" or st.get("pat", {}).get("k") != "bind" or st.get("init") is None:
            continue
        m = H.strip(st["init"])
        if m.get("k") != "match" or H.is_try(m):
            continue
        table = {}
        for a in m["arms"]:
            if a["pat"].get("k") == "plit" and a["pat"]["lit"]["lk"] == "int":
                v = const_val(a["body"])
                if v is not None:
                    table[a["pat"]["lit"]["v"]] = v
        if not table:
            continue
        lid = st["pat"]["id"]
        for x in H.walk(b):
            if x.get("k") == "bin" and x["op"] in ("<=", "<", ">", ">="):
                for side, other in (("r", "l"), ("l", "r")):
                    if H.local_id(H.strip(x[side])) == lid and H.local_id(H.strip(x[other])) != lid:
                        op = x["op"] if side == "r" else {"<=": ">=", "<": ">", ">": "<", ">=": "<="}[x["op"]]
                        for w, v in table.items():
                            out.setdefault(w, v if op in ("<=", ">") else v - 1)
    return out


def truncation_guard(F, R, defs):
    """The two narrowing casts `o as u16` / `o as u8` in make(): an operand that is not
    a compile-time constant must pass a range test against exactly the width's maximum,
    on every call chain into make(), and a failed test must make Compiler::compile
    return an error (so the truncated encoding never reaches the VM)."""
    mk = F.fn("code::definitions::make")
    mk_b = H.inline_helpers(F, H.body_of(mk), max_size=400, skip=lambda c_: (F.fns.get(c_) or {}).get("file") != mk["file"])
    casts = [x for x in H.find(mk_b, lambda x: x.get("k") == "cast" and x.get("ty") in ("u16", "u8"))]
    R.ob("narrowing-casts-found", "make: o as u16 / o as u8", len(casts) == 2, "%d narrowing casts" % len(casts),
         F.loc(mk), nontrivial=False)
    # 1. range checkers: functions with per-width limits 2 -> 65535, 1 -> 255 over DEFINITIONS' width list
    checkers = {}
    for p, g in F.fns.items():
        if "{closure" in p:
            continue
        w = {}
        for q, h in F.fns.items():
            if q == p or q.startswith(p + "::{closure"):
                w.update(range_checker_widths(h, F))
        if w:
            checkers[p] = w
    def uses_widths(h):
        b_ = H.body_of(h)
        if b_ is None:
            return False
        b_ = H.inline_helpers(F, b_, max_size=200, skip=lambda c_: (F.fns.get(c_) or {}).get("file") != h["file"])
        return any(x.get("k") == "field" and x["name"] == "operand_widths" for x in H.walk(b_))
    good = [p for p, w in checkers.items() if w.get(2) == 65535 and w.get(1) == 255
            and any(uses_widths(h) for q, h in F.fns.items() if (q == p or q.startswith(p + "::{closure")))]
    R.ob("operand-range-checker", "limits 2→65535, 1→255 over operand_widths", bool(good),
         "range checkers found: %s" % {H.last(k): v for k, v in checkers.items()}, "src/code/definitions.rs")
    # closures have no HIR of their own: their bodies are inlined in the parent, so look there too
    if not good:
        for p, g in F.fns.items():
            w = range_checker_widths(g, F)
            if w.get(2) == 65535 and w.get(1) == 255:
                good.append(p)
    # 1b. the checker looks at *every* operand: the operands are walked in full, each with its width, and the verdict is the
    # conjunction (`.iter().zip(widths).all(..)`, or a loop that answers false at the first operand that does not fit)
    for p in good:
        g = F.fn(p)
        cb = H.inline_helpers(F, H.body_of(g), max_size=200, skip=lambda c_: (F.fns.get(c_) or {}).get("file") != g["file"])
        pids = [pr.get("id") for pr in g["hir"]["params"] if pr.get("k") == "bind"]
        chains = []
        for c in H.walk(cb):
            if c.get("k") != "mcall":
                continue
            names, cur = [], c
            while isinstance(cur, dict) and cur.get("k") == "mcall":
                names.append(cur["m"])
                cur = H.strip(cur["recv"])
            if H.is_local(cur) and H.local_id(cur) in pids and "zip" in names:
                chains.append(list(reversed(names)))
        chains = [ch for ch in chains if not any(set(ch) < set(o) for o in chains)]
        PARTIAL = {"take", "skip", "filter", "step_by", "any", "find", "position", "last", "nth", "take_while", "skip_while", "filter_map", "max", "min"}
        loops = [m for m in H.walk(cb) if m.get("k") == "match" and m.get("src", "").startswith("ForLoop") and "zip" in H.render(m["scrut"])]
        ok = bool(chains) and all(not (set(ch) & PARTIAL) for ch in chains) and (any("all" in ch for ch in chains) or bool(loops))
        R.ob("operand-range-checker", "%s tests every operand against its own width (conjunction over the whole list)" % H.last(p), ok,
             "operand walks: %s" % [".".join(ch) for ch in chains], F.loc(g))
    # 2. recorders: functions that call a checker and store a CompileError into a field of self on failure
    recorders = {}
    for p, g in F.fns.items():
        b = H.body_of(g)
        if b is None:
            continue
        if not any(c.get("callee") in good for c in H.walk(b) if c.get("k") in ("call", "mcall")):
            continue
        for (fld, base, rhs, node) in H.assigned_fields(b):
            if base == "self" and "CompileError::new" in H.render(rhs):
                recorders[p] = fld
    # ... and the store happens exactly when the test fails (at most also conditioned on no error being on record yet)
    for p in sorted(recorders):
        g = F.fn(p)
        b = H.body_of(g)
        okc, detc = False, "the store is not under a test of the range check"
        # the condition under which the store runs: the `if` around it, or the negation of the early returns before it
        # (`if self.err.is_some() || fits(..) { return; } self.err = Some(..)`)
        conds = []
        for x in H.walk(b):
            if x.get("k") == "if":
                in_then = any(fld == recorders[p] and base == "self" for (fld, base, rhs, node) in H.assigned_fields(x["t"]))
                in_else = x.get("e") is not None and any(fld == recorders[p] and base == "self" for (fld, base, rhs, node) in H.assigned_fields(x["e"]))
                if in_then or in_else:
                    conds.append((H.bool_expr(x["c"]), in_then))
            if x.get("k") == "block":
                sts = x.get("stmts", [])
                for i_, st in enumerate(sts):
                    e_ = st.get("e") if st.get("k") in ("semi", "expr") else None
                    if e_ is not None and e_.get("k") == "assign" and any(fld == recorders[p] and base == "self" for (fld, base, rhs, node) in H.assigned_fields({"k": "block", "stmts": [st], "expr": None})):
                        pre = [H.strip(s2.get("e")) for s2 in sts[:i_] if s2.get("k") in ("semi", "expr") and isinstance(s2.get("e"), dict)]
                        outs = [q for q in pre if q.get("k") == "if" and q.get("e") is None and H.diverges(q["t"])]
                        if outs:
                            ee = ("not", H.bool_expr(outs[0]["c"]))
                            for q in outs[1:]:
                                ee = ("and", ee, ("not", H.bool_expr(q["c"])))
                            conds.append((ee, True))
        for e, in_then in conds[:1]:
            in_else = not in_then
            atoms = sorted(H.bool_atoms(e))
            chk = [a for a in atoms if any(H.last(q) + "(" in a for q in good)]
            rec = [a for a in atoms if ("." + recorders[p]) in a and ("is_none" in a or "is_some" in a)]
            if len(chk) != 1 or len(atoms) != len(chk) + len(rec):
                detc = "the condition of the store is not a function of the range check (and the recorded error) alone: %s" % atoms
                break
            okc = True
            for fits in (True, False):
                for none_ in (True, False):
                    env = {chk[0]: fits}
                    for a in rec:
                        env[a] = none_ if "is_none" in a else (not none_)
                    v = H.bool_eval(e, env)
                    stored = v if in_then else (not v)
                    want = (not fits) and (none_ or not rec)
                    if none_ and stored != want or (not none_ and stored and fits):
                        okc = False
                        detc = "with the operands %s and %s the error is %s" % ("fitting" if fits else "not fitting", "no error on record" if none_ else "an error on record", "stored" if stored else "not stored")
            if okc:
                detc = "stored exactly when %s is false" % chk[0][:50]
            break
        R.ob("operand-error-recorded", "%s stores the error exactly when the range test fails" % H.last(p), okc, detc, F.loc(g))
    R.ob("operand-error-recorded", "failed range test stores a CompileError", bool(recorders),
         "recorders: %s" % {H.last(k): v for k, v in recorders.items()})
    guards = set(good) | set(recorders)
    # 3. every non-constant caller of make() runs a guard first, on the same (op, operands)
    n = 0
    for p, g in sorted(F.fns.items()):
        b = H.body_of(g)
        if b is None or p in ("code::definitions::make",):
            continue
        seq = []
        for c in H.walk(b):
            if c.get("k") in ("call", "mcall") and c.get("callee"):
                if c["callee"] in guards:
                    seq.append(("guard", H.render(c["args"][:2])))
                elif c["callee"] == "code::definitions::make":
                    seq.append(("make", H.render(c["args"][:2]), c))
        for i, ev in enumerate(seq):
            if ev[0] != "make":
                continue
            n += 1
            c = ev[2]
            arr = H.strip(c["args"][1])
            consts = arr.get("k") == "array" and all(const_val(e) is not None for e in arr["es"])
            if consts and H.ctor_of(H.strip(c["args"][0])):
                opn = H.last(H.ctor_of(H.strip(c["args"][0])))
                ws = defs.get(opn, {}).get("widths", [])
                fits = all(const_val(e) <= (65535 if w == 2 else 255) for e, w in zip(arr["es"], ws))
                R.ob("make-call-guarded", "%s: constant operands" % p, fits, "constant operands %s fit widths %s" % (ev[1], ws),
                     F.loc(g, c.get("line")))
                continue
            before = [e for e in seq[:i] if e[0] == "guard" and e[1] == ev[1]]
            # ... and on every path: in the MIR of the caller no path from the entry reaches the make() call without
            # passing a call of the range check (a check made only "when the first operand is large" leaves the others)
            dom_ok, dom_det = True, ""
            if before and g.get("mir"):
                Bm = M.Body(g)
                gb = M.call_blocks(Bm, lambda t: t.get("callee") in guards)
                mb = M.call_blocks(Bm, lambda t: t.get("callee") == "code::definitions::make")
                # a path on which an operand error is already on record needs no further check (the program is rejected anyway):
                # the edge taken when `self.<recorded field>.is_none()` is false / `.is_some()` is true counts as checked
                rec_edges = set()
                for bi_, blk_ in enumerate(Bm.blocks):
                    t_ = blk_["term"]
                    if t_["k"] != "switch" or t_.get("dty") != "bool":
                        continue
                    sy_ = M.show(Bm.sym_op(t_["d"], through_vars=True))
                    for fld_ in set(recorders.values()):
                        if re.search(r"is_none\(&\(?\*?self\)?\.%s\)$" % re.escape(fld_), sy_):
                            rec_edges |= {tt for v_, tt in zip(t_["vals"], t_["ts"]) if v_ == 0}
                        if re.search(r"is_some\(&\(?\*?self\)?\.%s\)$" % re.escape(fld_), sy_):
                            rec_edges.add(t_["otherwise"])
                free = M.reachable_avoiding(Bm, 0, set(gb) | rec_edges, through_start=False)
                bad = sorted(b_ for b_ in mb if b_ in free)
                if bad:
                    dom_ok, dom_det = False, " — but make() is reachable without the check (bb%s): the check is conditional" % bad[:3]
            R.ob("make-call-guarded", "%s: make(%s)" % (p, ev[1]), bool(before) and dom_ok,
                 ("a range check on the same (op, operands) precedes the call" if before else
                  "no range check on (%s) before make()" % ev[1]) + dom_det, F.loc(g, c.get("line")))
    R.floor("make() call sites outside tests", n, 3)
    # 4. compile() returns Err when the recorded field is set; every Ok leaf is behind that test
    cp = F.fn("compiler::Compiler::compile")
    if R.anchor("compiler::Compiler::compile", cp):
        flds = set(recorders.values())
        leaves = H.return_leaves(H.body_of(cp))
        txt = H.render(H.body_of(cp))
        reads = [x for x in H.walk(H.body_of(cp)) if x.get("k") == "field" and x["name"] in flds]
        # an Err result whose payload is what the field held: `if let Some(e) = self.f.take() { return Err(e) }`, or the
        # `Some(e) => Err(e)` arm of a match on it
        pay = {}
        for x in H.walk(H.body_of(cp)):
            cands = []
            if x.get("k") == "match" and not H.is_try(x):
                cands = [(a_["pat"], x["scrut"]) for a_ in x["arms"]]
            elif x.get("k") == "let" and x.get("pat", {}).get("k") in ("ts", "struct") and x.get("init") is not None:
                cands = [(x["pat"], x["init"])]
            for pt, sc_ in cands:
                if pt.get("k") in ("ts", "struct") and H.last(pt["res"].get("path") or "") == "Some":
                    for q in H.walk(pt):
                        if q.get("k") == "bind":
                            pay[q["id"]] = sc_
        errs = [x for x in H.walk(H.body_of(cp)) if x.get("k") == "call" and H.last(x.get("ctor") or "") == "Err" and x.get("args")
                and H.local_id(H.strip(x["args"][0])) in pay
                and any(y.get("k") == "field" and y["name"] in flds for y in H.walk(pay[H.local_id(H.strip(x["args"][0]))]))]
        ok = bool(flds) and bool(reads) and bool(errs)
        # the test must come after compile_program (all emission) on the way to Ok
        order = [H.last(c.get("callee") or "") for c in H.walk(H.body_of(cp)) if c.get("k") in ("call", "mcall")]
        if ok:
            ok = "compile_program" in order and order.index("compile_program") < max(
                i for i, c in enumerate(order) if c in ("take", "is_some", "clone", "as_ref", "is_none") or True)
        R.ob("operand-error-surfaced", "compile() returns the recorded operand error", ok,
             "fields %s read in compile(): %d, Err returns: %d" % (sorted(flds), len(reads), len(errs)), F.loc(cp))
    # 5. who-may-clear: the recorded field is only reset by compile() (take) and the constructor
    for fld in set(recorders.values()):
        writers = []
        for p, g in F.fns.items():
            b = H.body_of(g)
            if b is None:
                continue
            for (f2, base, rhs, node) in H.assigned_fields(b):
                if f2 == fld:
                    writers.append((p, H.render(rhs)[:40]))
            for c in H.walk(b):
                if c.get("k") == "mcall" and c["m"] in ("take", "replace", "insert", "get_or_insert") and \
                        H.strip(c["recv"]).get("k") == "field" and H.strip(c["recv"])["name"] == fld:
                    writers.append((p, "." + c["m"] + "()"))
        allowed = set(recorders) | {"compiler::Compiler::compile"}
        bad = [w for w in writers if w[0] not in allowed]
        R.ob("operand-error-writers", "field %s" % fld, not bad, "writers: %s" % writers)
