"""C21 — file reads return the file's bytes exactly once, in order, however chunked.

Chunk schedules are not decided; structural necessary conditions are."""
import os
import re

from .lib import hir as H

EXPL = ("(a) No exit on a short read: in every read loop over a `Read` in the builtins module the only loop exits are end of "
        "input (n == 0), quota reached (the loop condition) or an error; a break conditioned on `n < requested` is the "
        "classic short-read bug. (b) read(f) / read_to_string(f) without a count read to the end (usize::MAX / "
        "read_to_end) and copy exactly the prefix that was read (`take(bytes_read)` of the buffer read into). (c) Mode "
        "table: the OpenOptions builder calls per mode string equal the documented table (r: read; w: write+create+"
        "truncate; a: append+create; x: write+create_new), compared with docs/language/builtins.md. (d) All reads of "
        "one handle go through the one BufReader stored in the handle, writes through the one BufWriter (who-constructs "
        "rule). Flush-at-exit depends on drop order and is not decided.")

BF = "builtins::functions::"
WANT_MODES = {"r": ["File::open"], "w": ["write(true)", "create(true)", "truncate(true)"], "a": ["append(true)", "create(true)"],
              "x": ["write(true)", "create_new(true)"]}


def run(F, R, tier):
    R.explanation = EXPL
    R.assumptions += ["std BufReader/BufWriter/read_to_end behave as documented"]
    # ---- (a) read loops ---------------------------------------------------------------------------------------------
    n_loops = 0
    for p, g in sorted(F.fns.items()):
        if not g["file"].endswith(("builtins/functions.rs", "builtins/pcap.rs")):
            continue
        b = H.body_of(g)
        if b is None:
            continue
        for lp in H.walk(b):
            if lp.get("k") != "loop":
                continue
            reads = [c for c in H.walk(lp) if c.get("k") == "mcall" and c["m"] == "read" and
                     ((c.get("callee") or "").endswith("Read::read") or (c.get("decl") or "").endswith("Read::read"))]
            if not reads:
                continue
            n_loops += 1
            # names bound to the Ok(n) result of the read
            nvars = set()
            eof_arm = False
            for m in H.walk(lp):
                if m.get("k") == "match" and not H.is_try(m) and any(x is reads[0] for x in H.walk(m["scrut"])):
                    for a in m["arms"]:
                        pt = a["pat"]
                        if pt.get("k") == "ts" and H.last(pt["res"].get("path")) == "Ok" and pt["pats"] and pt["pats"][0].get("k") == "bind":
                            nvars.add(pt["pats"][0]["name"])
                        # `Ok(0) => break`: the end of the input as a literal pattern
                        if pt.get("k") == "ts" and H.last(pt["res"].get("path")) == "Ok" and pt["pats"] and pt["pats"][0].get("k") == "plit" \
                                and H.strip(pt["pats"][0]["lit"]).get("v") == 0 and H.diverges(a["body"]):
                            eof_arm = True
                    # `let bytes_read = match reader.read(..) { .. Ok(n) => n, .. }`: the count under another name
                    for st in H.walk(lp):
                        if st.get("k") == "let" and st.get("init") is m and st.get("pat", {}).get("k") == "bind":
                            nvars.add(st["pat"]["name"])
            exits = []

            def scan(n, guards):
                if not isinstance(n, dict):
                    if isinstance(n, list):
                        for x in n:
                            scan(x, guards)
                    return
                k = n.get("k")
                if k == "closure" or (k == "loop" and n is not lp):
                    return
                if k == "break":
                    exits.append(("break", list(guards)))
                    return
                if k == "ret":
                    exits.append(("return", list(guards)))
                    return
                if k == "if":
                    scan(n["c"], guards)
                    scan(n["t"], guards + [H.render(n["c"])])
                    if "e" in n:
                        scan(n["e"], guards + ["!" + H.render(n["c"])])
                    return
                for v in n.values():
                    if isinstance(v, (dict, list)):
                        scan(v, guards)
            scan(lp["body"], [])
            k = 0
            for kind, guards in exits:
                bad = None
                for gtxt in guards:
                    for nv in nvars:
                        m = re.search(r"\(%s (<|<=|!=|>|>=) ([A-Za-z_][A-Za-z_0-9.]*)\)" % re.escape(nv), gtxt)
                        if m and not m.group(2).isdigit():
                            bad = gtxt
                        m = re.search(r"\(%s (<|<=|!=) (\d+)\)" % re.escape(nv), gtxt)
                        if m and int(m.group(2)) != 0 and not (m.group(1) == "<" and int(m.group(2)) == 1):
                            bad = gtxt
                R.ob("no-exit-on-short-read", "%s read-loop exit#%d (%s)" % (p, k, kind), bad is None,
                     "exit guarded by %s" % guards if bad is None else "loop exit conditioned on a short read: %s" % bad, F.loc(g))
                k += 1
            # an exit on n == 0 (end of input) must exist, otherwise the loop spins at EOF
            eof = any(any(re.search(r"\(%s == 0\)" % re.escape(nv), gt) for nv in nvars for gt in guards) for kind, guards in exits)
            R.ob("read-loop-eof-exit", "%s read loop leaves on a read of 0 bytes" % p, eof or eof_arm, "", F.loc(g))
    R.count("read loops analysed", n_loops)
    R.floor("read loops", n_loops, 1)
    # ---- (b) unbounded reads and prefix copy ----------------------------------------------------------------------------------
    # the chunked reader: the function of functions.rs with a loop around Read::read that builtin_read calls (by role, whatever
    # it is called)
    br = F.fn(BF + "builtin_read")
    rf = None
    if br is not None:
        called = {c.get("callee") for c in H.walk(H.body_of(br)) if c.get("k") == "call" and c.get("callee") in F.fns}
        for q in sorted(called):
            g_ = F.fns[q]
            if g_["file"].endswith("builtins/functions.rs") and any(
                    lp.get("k") == "loop" and any(c.get("k") == "mcall" and c["m"] == "read" and ((c.get("callee") or "").endswith("Read::read") or (c.get("decl") or "").endswith("Read::read"))
                                                  for c in H.walk(lp)) for lp in H.walk(H.body_of(g_))):
                rf = g_
    if R.anchor("the chunked reader called by builtin_read (read_from_file)", rf):
        body = H.body_of(rf)
        rd = [c for c in H.walk(body) if c.get("k") == "mcall" and c["m"] == "read" and ((c.get("callee") or "").endswith("Read::read") or (c.get("decl") or "").endswith("Read::read"))]
        takes = [c for c in H.walk(body) if c.get("k") == "mcall" and c["m"] == "take"]
        # the count the read reported: the Ok(n) binding of the match on the read's result (or a local bound to that match)
        counts = set()
        for m in H.walk(body):
            if m.get("k") == "match" and not H.is_try(m) and rd and any(x is rd[0] for x in H.walk(m["scrut"])):
                for a in m["arms"]:
                    pt = a["pat"]
                    if pt.get("k") == "ts" and H.last(pt["res"].get("path")) == "Ok" and pt["pats"] and pt["pats"][0].get("k") == "bind":
                        counts.add(pt["pats"][0]["id"])
                for st in H.walk(body):
                    if st.get("k") == "let" and st.get("init") is m and st.get("pat", {}).get("k") == "bind":
                        counts.add(st["pat"]["id"])
        window = H.local_id(H.strip(rd[0]["args"][0])) if len(rd) == 1 and rd[0].get("args") else None
        ok = len(takes) == 1 and len(rd) == 1 and window is not None and H.local_id(H.strip(takes[0]["args"][0])) in counts
        src = H.strip(takes[0]["recv"]) if takes else {}
        while src.get("k") == "mcall" and src["m"] in ("iter", "into_iter", "copied", "cloned"):
            src = H.strip(src["recv"])
        R.ob("prefix-copy", "exactly the bytes read are copied: <window>.iter().take(<count reported by read>)", ok,
             H.render(takes[0])[:80] if takes else "no take()", F.loc(rf))
        R.ob("prefix-copy", "the slice read into is the slice copied from", len(rd) == 1 and window is not None and H.local_id(src) == window, "", F.loc(rf))
        adds = [x for x in H.walk(body) if x.get("k") == "assignop"]
        # the running total is advanced by the reported count once, and it is the value the loop condition compares with the limit
        ok = len(adds) == 1 and adds[0]["op"].startswith("+") and H.local_id(H.strip(adds[0]["r"])) in counts
        tot = H.local_id(H.strip(adds[0]["l"])) if adds else None
        conds = [x for x in H.walk(body) if x.get("k") == "bin" and x["op"] in ("<", ">=", ">", "<=") and tot is not None and
                 (H.local_id(H.strip(x["l"])) == tot or H.local_id(H.strip(x["r"])) == tot)]
        R.ob("quota-accounting", "the running total is advanced by the count of each successful read, once, and bounds the loop", ok and bool(conds),
             str([H.render(x) for x in adds]), F.loc(rf))
    if R.anchor("builtin_read", br):
        rname = H.last(rf["path"]) if rf else "read_from_file"
        # (normal form: a `with_input(handle, |input| ..)` helper applied to its closure reads as the match it performs)
        brb = H.normal(F, H.body_of(br), keep=(rname,))
        # the count each read is given, traced to where it is computed; its value when there is no second argument
        lets_b = {x["pat"]["id"]: x["init"] for x in H.walk(brb) if x.get("k") == "let" and x.get("pat", {}).get("k") == "bind" and x.get("init") is not None}
        reads_ = [c for c in H.walk(brb) if c.get("k") == "call" and H.last(c.get("callee") or "") == rname]
        n_reads = len(reads_)

        def absent_value(n_, d=0):
            n_ = H.strip(n_)
            # `read_count_arg(&args)?` read in place: the helper's own conditional, its Ok(..) wrapper looked through
            while d < 8 and (H.is_try(n_) or (n_.get("k") == "block" and n_.get("expr") is not None and not [s_ for s_ in n_.get("stmts", []) if s_.get("k") != "let"])):
                n_ = H.strip(H.untry(n_) if H.is_try(n_) else n_["expr"])
                d += 1
            if d < 4 and H.is_local(n_) and H.local_id(n_) in lets_b:
                return absent_value(lets_b[H.local_id(n_)], d + 1)
            if n_.get("k") == "if":
                ct = H.render(n_["c"])
                if re.search(r"args\)?\.len\(\) (== 2|> 1|>= 2)", ct) and n_.get("e") is not None:
                    return H.render(H.strip(n_["e"]))
                if re.search(r"args\)?\.len\(\) (== 1|< 2|!= 2|<= 1)", ct):
                    return H.render(H.strip(n_["t"]))
            if n_.get("k") == "match" and not H.is_try(n_) and re.search(r"args\)?\.get\(1\)", H.render(n_["scrut"])):
                for a_ in n_["arms"]:
                    if H.last((a_["pat"].get("res") or {}).get("path") or "") == "None":
                        return H.render(H.strip(a_["body"]))
            return None
        defaults = [absent_value(c["args"][1]) for c in reads_ if len(c.get("args", [])) == 2]
        defaults = [re.sub(r"^v1::Ok\((.*)\)$", r"\1", d) for d in defaults if d is not None]
        R.ob("read-all-default", "read(f) without a count reads up to usize::MAX bytes (both handle kinds)", [re.sub(r"^v1::Ok\((.*)\)$", r"\1", d) for d in defaults] == ["MAX"] * n_reads and n_reads == 2,
             "%s for %d reads" % (defaults, n_reads), F.loc(br))

    def reader_borrows(g_):
        """locals bound to `<payload of FileHandle::Reader>.borrow_mut()` in g_"""
        b_ = H.normal(F, H.body_of(g_), keep=("read_from_file",))
        payload = set()
        for m in H.walk(b_):
            if m.get("k") == "match" and not H.is_try(m):
                for a in m["arms"]:
                    if any((v or "").endswith("FileHandle::Reader") for v in H.pat_variants(a["pat"])):
                        payload |= {y["id"] for y in H.walk(a["pat"]) if y.get("k") == "bind"}
        out = set()
        # `let reader = match handle.as_ref() { FileHandle::Reader(r) => r, .. => return .. }`: the payload under another name
        for _ in range(3):
            for st in H.walk(b_):
                if st.get("k") == "let" and st.get("pat", {}).get("k") == "bind" and st.get("init") is not None and st["pat"]["id"] not in payload:
                    leaves = H.value_leaves(st["init"])
                    if leaves and all(H.local_id(H.strip(x)) in payload for x in leaves):
                        payload.add(st["pat"]["id"])
        for st in H.walk(b_):
            if st.get("k") == "let" and st.get("pat", {}).get("k") == "bind" and st.get("init") is not None:
                i_ = H.strip(st["init"]) if st["init"].get("k") != "mcall" else st["init"]
                if i_.get("k") == "mcall" and i_["m"] == "borrow_mut" and H.local_id(H.strip(i_["recv"])) in payload:
                    out.add(st["pat"]["id"])
        return out, payload
    rs = F.fn(BF + "builtin_read_to_string")
    if R.anchor("builtin_read_to_string", rs):
        c = [x for x in H.walk(H.body_of(rs)) if x.get("k") == "mcall" and x["m"] == "read_to_end"]
        rb_, _ = reader_borrows(rs)
        R.ob("read-all-default", "read_to_string uses read_to_end on the handle's reader", len(c) == 1 and H.local_id(H.strip(c[0]["recv"])) in rb_, "", F.loc(rs))
    # ---- (c) mode table ------------------------------------------------------------------------------------------------------------
    bo = F.fn(BF + "builtin_open")
    if R.anchor("builtin_open", bo):
        # the match on the mode string: the one whose arms are string literals (helpers of the file inlined, so that a shared
        # `writer_handle_or_error(open_result)` reads as part of each arm)
        bo_body = H.body_inl(F, bo, keep=("new_reader", "new_writer"))
        if any(c_.get("k") == "call" and not c_.get("callee") and not c_.get("ctor") and H.strip(c_.get("f") or {}).get("k") == "path"
               and (H.strip(c_["f"]).get("res") or {}).get("r") == "fn" for c_ in H.walk(bo_body)):
            # a helper was handed another function of the file as a value (`io_result_object(file, reader_object)`): with the
            # helper read in place that function stands in call position; read it in place as well
            skip_ = lambda c_: H.last(c_) in ("new_reader", "new_writer")
            bo_body = H.inline_helpers(F, H.beta(bo_body), skip=skip_, max_size=400)
        # the local holding the mode: the one compared with string literals (by `==` or as the scrutinee of a match with
        # string-literal arms) most often
        votes = {}
        for x in H.walk(bo_body):
            if x.get("k") == "bin" and x.get("op") in ("==", "!="):
                for a_, b_ in ((x["l"], x["r"]), (x["r"], x["l"])):
                    if H.strip(b_).get("k") == "lit" and H.strip(b_).get("lk") == "str" and H.is_local(H.strip(a_)):
                        votes[H.local_id(H.strip(a_))] = votes.get(H.local_id(H.strip(a_)), 0) + 1
            if x.get("k") == "match" and not H.is_try(x) and H.is_local(H.strip(x["scrut"])):
                n_ = sum(1 for a in x["arms"] for q in H.walk(a["pat"]) if q.get("k") == "plit" and q["lit"].get("lk") == "str")
                if n_:
                    votes[H.local_id(H.strip(x["scrut"]))] = votes.get(H.local_id(H.strip(x["scrut"])), 0) + n_
        mode_id = max(votes, key=votes.get) if votes else None
        got = {}
        OTHER = "\0 any other mode"

        def built(body_):
            calls = []
            for c in H.walk(body_):
                if c.get("k") == "mcall" and (c.get("callee") or "").startswith("std::fs::OpenOptions::") and c["m"] != "open":
                    calls.append("%s(%s)" % (c["m"], H.render(c["args"])))
                if c.get("k") == "call" and c.get("callee") == "std::fs::File::open":
                    calls.append("File::open")
            txt = H.render(body_)
            return sorted(calls), ("reader" if "new_reader" in txt else ("writer" if "new_writer" in txt else "?"))
        if mode_id is not None:
            # the function as it runs for each mode string (a match on the mode, a chain of comparisons, a builder filled in
            # under conditions: all read the same way once the mode is fixed)
            for mode in list(WANT_MODES) + [OTHER]:
                sb = H.specialise_value(bo_body, mode_id, mode)
                # what the chosen arm fixed besides (`let (file, readable) = (File::open(path), true)`) decides later branches
                sb = H.specialise_value(H.unlet(H.split_tuple_lets(sb)), None, None)
                # only what runs after the mode was determined counts
                g_ = built(sb)
                if mode != OTHER or g_[0] or g_[1] != "?":
                    got[mode if mode != OTHER else "<other>"] = g_
        for mode, want in WANT_MODES.items():
            g = got.get(mode)
            R.ob("open-mode-table", "mode %s" % mode, g is not None and g[0] == sorted(want) and g[1] == ("reader" if mode == "r" else "writer"),
                 "mode %r builds %s as a %s; documented: %s" % (mode, g[0] if g else None, g[1] if g else None, want), F.loc(bo))
        R.ob("open-mode-table", "no other mode string is accepted", set(got) == set(WANT_MODES), str(sorted(got)), F.loc(bo))
    doc = os.path.join(F.repo, "docs/language/builtins.md")
    if R.anchor("docs/language/builtins.md", os.path.exists(doc)):
        txt = open(doc, encoding="utf-8").read()
        m = re.search(r'###\s*(?:<a name="open"></a>)?\s*open\b(.*?)\n###', txt, re.S)
        sec = m.group(1) if m else ""
        rows = {k: v.strip() for k, v in re.findall(r"\|\s*([rwax])\s*\|\s*([^|\n]+)\|", sec)}
        R.ob("open-mode-docs", "docs/language/builtins.md has a mode table for open", set(rows) == {"r", "w", "a", "x"}, str(rows), "docs/language/builtins.md", nontrivial=False)

        def doc_flags(mode, text):
            t = text.lower()
            fl = []
            if mode == "r":
                return ["File::open"] if "reading" in t else ["?"]
            if re.search(r"error if it ex", t) and "creat" in t:
                return sorted(["write(true)", "create_new(true)"])
            if "end of the file" in t or "append" in t:
                fl.append("append(true)")
            else:
                fl.append("write(true)")
            if "creat" in t:
                fl.append("create(true)")
            if "truncat" in t:
                fl.append("truncate(true)")
            return sorted(fl)
        if bo is not None and rows:
            for mode, text in sorted(rows.items()):
                g = got.get(mode)
                want = doc_flags(mode, text)
                R.ob("open-mode-docs", "mode %s matches its documentation" % mode, g is not None and g[0] == want,
                     "documented %r → %s; code builds %s" % (text, want, g[0] if g else None), "docs/language/builtins.md")
    # ---- (d) one reader / writer per handle -------------------------------------------------------------------------------------------------
    cons = {}
    for p, g in F.fns.items():
        b = H.body_of(g)
        if b is None:
            continue
        for c in H.walk(b):
            if c.get("k") == "call" and c.get("callee") in ("std::io::BufReader::<R>::new", "std::io::BufWriter::<W>::new"):
                cons.setdefault(H.last(c["callee"].split("::<")[0]) if False else c["callee"].split("::")[2], []).append(p)
    # ... or in helpers that only builtin_open calls (directly or through other such helpers)
    from .lib import mir as M_
    cg_ = M_.CallGraph(F)
    callers_of = {}
    for c_, es in cg_.edges.items():
        for e_ in es:
            callers_of.setdefault(e_, set()).add(c_)
    addr_taken = {x for v in cg_.addr_taken.values() for x in v}
    takers_of = {}
    for q_, v_ in cg_.addr_taken.items():
        for x_ in v_:
            takers_of.setdefault(x_, set()).add(q_)

    def only_from_open(p, depth=0):
        if p == BF + "builtin_open":
            return True
        # callers, and the functions that take its address (a function handed as a value is called by whoever receives it:
        # it stays open()'s own as long as only open() and its helpers hand it out)
        cs = callers_of.get(p, set()) | takers_of.get(p, set())
        return bool(cs) and depth < 4 and all(only_from_open(q, depth + 1) for q in cs)
    R.ob("single-buffer-per-handle", "BufReader / BufWriter are constructed only in builtin_open", all(all(only_from_open(p) for p in v) for v in cons.values()) and len(cons) == 2,
         str({k: sorted(set(v)) for k, v in cons.items()}))
    # no buffer bypass: data read or written on a handle goes through its BufReader / BufWriter; reaching the underlying
    # File (`get_mut`, `into_inner`, `into_parts`; `get_ref` only reads metadata and is allowed) lets bytes overtake — or be returned again after — what the
    # buffer still holds ("exactly once, in order")
    BYPASS = ("get_mut", "into_inner", "into_parts")
    byp = []
    for p, g in sorted(F.fns.items()):
        if not (g["file"].endswith("builtins/functions.rs") or g["file"].endswith("object/file.rs")):
            continue
        b = H.body_of(g)
        if b is None:
            continue
        for c in H.walk(b):
            cal = c.get("callee") or ""
            if c.get("k") in ("call", "mcall") and (cal.startswith("std::io::BufWriter") or cal.startswith("std::io::BufReader")) and H.last(cal) in BYPASS:
                byp.append("%s: %s" % (p, cal))
    R.ob("no-buffer-bypass", "the builtins never reach under a handle's BufReader / BufWriter", not byp, "; ".join(byp)[:300])
    # ---- what write() hands to a *file* is the bytes it was given: no text formatting on the way ---------------------------------
    # (`write!(out, "{}", b as char)` turns every byte above 0x7f into two; stdout / stderr are outside this property)
    bw = F.fn(BF + "builtin_write")
    if R.anchor("builtin_write", bw):
        nb = H.normal(F, H.body_of(bw), keep=("write", "write_all", "into"))
        arms_w = [a_ for m_ in H.walk(nb) if m_.get("k") == "match" and not H.is_try(m_) for a_ in m_["arms"]
                  if any((v or "").endswith("FileHandle::Writer") for v in H.pat_variants(a_["pat"]))]
        fmt = []
        sinks = 0
        for a_ in arms_w:
            for c in H.walk(a_["body"]):
                if c.get("k") == "mcall" and c["m"] in ("write", "write_all") and "Write" in (c.get("decl") or c.get("callee") or ""):
                    sinks += 1
                if c.get("k") == "mcall" and c["m"] == "write_fmt":
                    fmt.append(H.render(c)[:60])
                if c.get("k") == "cast" and c.get("ty") == "char":
                    fmt.append("a byte converted to char: " + H.render(c)[:40])
        R.ob("file-write-verbatim", "write() to a file opened for writing passes bytes, strings and packets to Write::write / write_all unformatted",
             bool(arms_w) and sinks >= 1 and not fmt, "%d writer arms, %d raw writes%s" % (len(arms_w), sinks, "; formatted: %s" % fmt if fmt else ""), F.loc(bw))
    # a read asks the operating system every time: the only state between two reads of a handle is the handle's own
    # BufReader.  (a) a file handle holds a std BufReader<File> / BufWriter<File> and nothing else — a wrapper with an
    # "end of file seen" flag answers later reads from the flag; (b) the I/O builtins use no process-wide or
    # thread-local state (a sticky "stdin is at end of input" flag set by a zero-length read ends all later reads)
    fh = F.adts.get("object::file::FileHandle")
    if R.anchor("enum object::file::FileHandle", fh):
        tys = {v["name"]: [fl.get("ty") for fl in v.get("fields", [])] for v in fh.get("variants", [])}
        want = {"Reader": ["std::cell::RefCell<std::io::BufReader<std::fs::File>>"], "Writer": ["std::cell::RefCell<std::io::BufWriter<std::fs::File>>"]}
        R.ob("handle-state", "a file handle is a std BufReader<File> / BufWriter<File> and nothing else",
             all(tys.get(k) == v for k, v in want.items()), "FileHandle variants: %s" % {k: tys.get(k) for k in want})
    from .lib import mir as M
    from .lib.tables import builtin_table
    tab = dict(builtin_table(F, R) or [])
    roots = [tab[n] for n in ("open", "read", "read_line", "read_to_string", "write", "flush") if n in tab]
    reach = M.CallGraph(F).reachable_from(roots)
    hidden = []
    for p in sorted(reach):
        g = F.fns.get(p)
        b = H.body_of(g) if g else None
        if b is None or not (g["file"].endswith("builtins/functions.rs") or g["file"].endswith("object/file.rs")):
            continue
        for x in H.walk(b):
            if x.get("k") in ("call", "mcall") and "std::thread::LocalKey" in (x.get("callee") or ""):
                hidden.append("%s: thread-local %s" % (H.last(p), H.last(x["callee"])))
            if x.get("k") == "path" and x.get("res", {}).get("r") == "static" and not str(x["res"].get("path", "")).startswith(("code::", "parser::", "scanner::")):
                hidden.append("%s: static %s" % (H.last(p), x["res"].get("path")))
    R.ob("handle-state", "the file builtins keep no state outside the handle (no statics, no thread-locals)", not hidden, "; ".join(sorted(set(hidden)))[:300])
    # reads use the stored reader: builtin_read / read_line / read_to_string borrow the handle's reader
    for fn in ("builtin_read", "builtin_read_line", "builtin_read_to_string"):
        g = F.fn(BF + fn)
        if R.anchor(fn, g):
            txt = H.render(H.body_of(g))
            pl_ = reader_borrows(g)[1]
            through = any(x.get("k") == "mcall" and x["m"] == "borrow_mut" and H.local_id(H.strip(x["recv"])) in pl_
                          for x in H.walk(H.normal(F, H.body_of(g), keep=("read_from_file",))))
            ok = (bool(reader_borrows(g)[0]) or through) and "File::open" not in txt and "BufReader::new" not in txt
            R.ob("single-buffer-per-handle", "%s reads through the handle's BufReader" % fn, ok, "", F.loc(g), nontrivial=False)
