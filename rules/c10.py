"""C10 — map lookups are consistent with value equality (the Eq ⇒ Hash contract
of the key type, exhaustively over variant pairs), plus routing of every map
access through std's HashMap."""
from .lib import hir as H
from .lib import objtables as T

EXPL = ("Table agreement (E2) between `PartialEq for Object` and `Hash for Object`, exhaustive over the 23×23 variant "
        "pairs restricted to valid keys: every pair that can compare equal must feed the hasher identically. Equality "
        "and hash primitives are classified from the resolved callee and receiver type of each arm and compared with a "
        "frozen compatibility table (std's Eq/Hash agreement for i64, char, u8, bool, String; local impls of Array and "
        "BuiltinFunction are inspected structurally; IEEE == against to_bits() is not contract-safe). Routing rule: "
        "every use of HMap.pairs goes through std::collections::HashMap methods. Given std's HashMap, this decides "
        "lookup/equality consistency; it does not enumerate key values.")

STD_SAFE = {"i64", "char", "u8", "bool", "std::string::String"}
HASHMAP_OK = {"get", "insert", "contains_key", "len", "is_empty", "iter", "remove", "keys", "values", "clone", "get_mut",
              "entry", "clear"}


def _single(b):
    b = H.strip(b)
    if b.get("k") == "block" and len(b.get("stmts", [])) == 1:
        return H.strip(b["stmts"][0]["e"])
    return b


def run(F, R, tier):
    R.explanation = EXPL
    R.assumptions += ["std::collections::HashMap is correct for any key type honouring Eq ⇒ Hash",
                      "std's Hash/Eq agree for i64, char, u8, bool, String, str"]
    vs = T.variants(F)
    if not R.anchor("enum object::Object", vs):
        return
    feq = F.fn("<object::Object as std::cmp::PartialEq>::eq")
    fh = F.fn("<object::Object as std::hash::Hash>::hash")
    fk = F.fn("object::Object::is_a_valid_key")
    if not (R.anchor("PartialEq for Object", feq) and R.anchor("Hash for Object", fh) and R.anchor("is_a_valid_key", fk)):
        return
    # named intermediates in the arms (`let bits = canonical(..); state.write_u64(bits)`) are substituted first
    meq, mh = T.top_match(feq, body=H.unlet(H.body_of(feq))), T.top_match(fh, body=H.unlet(H.body_of(fh)))
    if not (R.anchor("eq: match (self, other)", meq) and R.anchor("hash: match self", mh)):
        return
    def eq_as_call(n):
        """`a == b` written with the operator reads like `a.eq(b)` (same PartialEq::eq)"""
        if isinstance(n, list):
            return [eq_as_call(x) for x in n]
        if not isinstance(n, dict):
            return n
        n = {k_: eq_as_call(v_) for k_, v_ in n.items()}
        if n.get("k") == "bin" and n.get("op") == "==":
            return {"k": "mcall", "m": "eq", "recv": n["l"], "args": [n["r"]], "recv_ty": (H.strip(n["l"]).get("ty") or n["l"].get("ty") or ""), "callee": n.get("callee"), "line": n.get("line"), "ty": "bool"}
        return n
    meq = dict(meq)
    meq["arms"] = [dict(a_, body=eq_as_call(a_["body"])) for a_ in meq["arms"]]
    eqa = T.pair_arms(meq)
    ha = T.single_arms(mh)
    # valid keys
    valid = set()
    mk = T.top_match(fk)
    if mk is None:
        # matches!() expands to a match
        R.anchor("is_a_valid_key: matches!", False)
        return
    for vset, a in T.single_arms(mk):
        if T.body_kind(a) == ("const", True):
            valid |= vset
    valid.discard("*")
    R.count("valid key variants", len(valid))
    R.floor("valid key variants", len(valid), 9)
    R.ob("eq-arms-known-shape", "all arms are variant pairs or `_`", all(k != "?" for k, _ in eqa), "", nontrivial=False)

    def hash_kind(v):
        a = T.single_lookup(ha, v)
        own = any(v in s for s, _ in ha)
        k = T.body_kind(a)
        if k[0] == "call" and k[1] == "hash":
            recv = H.strip(a["body"])["recv"]
            r = H.render(recv)
            if recv.get("k") == "lit":
                return ("const", r)
            rs = H.strip(recv)
            if rs.get("k") == "field":
                return ("field", rs["name"], k[2])
            return ("prim", k[2])
        if k[0] == "call" and k[1].startswith("write_"):
            arg = H.strip(H.strip(a["body"] if a["body"].get("k") == "mcall" else _single(a["body"]))["args"][0])
            if arg.get("k") == "call" and arg.get("callee") in F.fns and len(arg["args"]) == 1:
                x = H.strip(arg["args"][0])
                shape = None
                if x.get("k") == "cast" and x.get("ty") == "f64" and H.is_local(H.strip(x["e"])):
                    shape = "payload as f64"
                elif H.is_local(x):
                    shape = "payload"
                return ("canon", arg["callee"], shape, k[1])
            return ("bits", k[3])
        return ("other", k)

    def canon_ok(path):
        """f64 -> u64 with leaves {const when param == 0.0, param.to_bits() otherwise}: values equal under
        IEEE == (other than NaN, never equal) get identical bits"""
        g = F.fn(path)
        if g is None:
            return False, "not a local function"
        leaves = H.return_leaves(H.body_of(g))
        desc = ["%s when %s" % (H.render(e), H.guard_text(gd)) for e, gd in leaves]
        if len(leaves) != 2:
            return False, "; ".join(desc)
        ok_zero = ok_bits = False
        for e, gd in leaves:
            gt = H.guard_text(gd)
            e = H.strip(e)
            if e.get("k") == "lit" and e["lk"] == "int" and gt in ("(f == 0.)", "(f == 0.0)", "(f == 0)"):
                ok_zero = True
            if e.get("k") == "mcall" and e["m"] == "to_bits" and H.is_local(H.strip(e["recv"]), "f") and gt.startswith("!(f == 0"):
                ok_bits = True
        return ok_zero and ok_bits, "; ".join(desc)

    def local_impl_fieldwise(ty, trait, field):
        """the local impl of `trait` for `ty` looks at exactly `field` (of self / other)"""
        tn = ty.split("<")[-1].rstrip(">")
        meth = {"PartialEq": "eq", "Hash": "hash"}[trait]
        tpath = {"PartialEq": "std::cmp::PartialEq", "Hash": "std::hash::Hash"}[trait]
        g = F.fn("<%s as %s>::%s" % (tn, tpath, meth))
        if g is None:
            return False, "no local impl of %s for %s" % (trait, tn)
        flds = {x["name"] for x in H.walk(H.body_of(g)) if x.get("k") == "field"
                and H.render(H.strip(x["e"])) in ("self", "other")}
        return flds == {field}, "%s for %s reads fields %s" % (trait, tn, sorted(flds))

    def container_hash_feeds(ty):
        """what `Hash for <ty>` feeds the hasher: only the elements the equality compares (each through its own Hash) and,
        at most, how many there are.  Anything else — the kind of an element (`mem::discriminant`), an address, a field the
        equality ignores — can differ between two equal containers (1 == 1.0 element-wise)."""
        tn = ty.split("<")[-1].rstrip(">")
        g = F.fn("<%s as std::hash::Hash>::hash" % tn)
        if g is None:
            return False, "no local impl of Hash for %s" % tn
        b = H.unlet(H.body_of(g))
        ps = [p_.get("id") for p_ in g["hir"]["params"] if p_.get("k") == "bind"]
        if len(ps) != 2:
            return False, "unexpected signature"
        st_id = ps[1]
        # loop variables bound from an iteration over self.<field>
        elem_ids = set()
        for m in H.walk(b):
            if m.get("k") == "match" and m.get("src", "").startswith("ForLoop") and "into_iter" in H.render(m["scrut"])[:40] and "self." in H.render(m["scrut"]):
                for x in H.walk(m):
                    if x.get("k") == "match" and x is not m:
                        for a_ in x["arms"]:
                            q = a_["pat"]
                            if q.get("k") in ("ts", "struct") and H.last(q["res"].get("path") or "") == "Some":
                                elem_ids |= {y["id"] for y in H.walk(q) if y.get("k") == "bind"}
        bad = []
        n = 0
        for c in H.walk(b):
            if c.get("k") not in ("mcall", "call"):
                continue
            argv_ = ([c["recv"]] if c.get("k") == "mcall" else []) + c.get("args", [])
            if not any(H.local_id(H.strip(a_)) == st_id for a_ in argv_):
                continue
            fed = [a_ for a_ in argv_ if H.local_id(H.strip(a_)) != st_id]
            n += 1
            for x in fed:
                xs = H.strip(x)
                is_elem = H.local_id(xs) in elem_ids or (xs.get("k") == "field" and H.local_id(H.strip(xs["e"])) in elem_ids)
                is_len = xs.get("k") == "mcall" and xs["m"] == "len" and "self." in H.render(xs["recv"])
                if not (is_elem or is_len):
                    bad.append(H.render(c)[:70])
        return bool(n) and not bad, ("feeds %d values: the elements%s" % (n, "" if not bad else "; and also: %s" % bad))

    n_pairs = 0
    for va in vs:
        for vb in vs:
            if va not in valid or vb not in valid:
                continue
            a = T.pair_lookup(eqa, va, vb)
            ek = T.body_kind(a) if a else ("const", False)
            if ek == ("const", False):
                continue  # never equal: no obligation
            n_pairs += 1
            key = "(%s, %s)" % (va, vb)
            hka, hkb = hash_kind(va), hash_kind(vb)
            loc = F.loc(feq, a.get("line"))
            if va != vb:
                ok = hka[0] == "const" and hkb[0] == "const" and hka == hkb
                det = "cross-variant equality %s but hashes differ in kind: %s vs %s" % (ek[3] if ek[0] == "call" else ek, hka, hkb)
                if not ok and hka[0] == "canon" and hkb[0] == "canon" and hka[1] == hkb[1] and hka[3] == hkb[3] \
                        and ek[0] == "call" and ek[1] == "eq" and ek[2] == "f64":
                    # equality converts one side with `as f64` and compares as IEEE doubles; both hashes must go
                    # through the same canonical function, with the same conversion on the converted side
                    b = H.strip(a["body"])
                    sides = [H.strip(b["recv"]), H.strip(b["args"][0])]
                    # which side belongs to which operand: by the payload bindings of the pattern alternative for (va, vb)
                    # (`(Integer(i), Float(f)) | (Float(f), Integer(i)) => (*i as f64) == *f` serves both orders)
                    alts = a["pat"]["pats"] if a["pat"].get("k") == "or" else [a["pat"]]
                    for alt in alts:
                        if alt.get("k") == "tuple" and len(alt["pats"]) == 2 and va in {H.last(v) for v in H.pat_variants(alt["pats"][0])} and \
                                vb in {H.last(v) for v in H.pat_variants(alt["pats"][1])}:
                            ids = [{y["id"] for y in H.walk(alt["pats"][i_]) if y.get("k") == "bind"} for i_ in (0, 1)]
                            uses = [{H.local_id(y) for y in H.walk(sd) if isinstance(y, dict) and H.local_id(y) is not None} for sd in sides]
                            if ids[0] & uses[1] and ids[1] & uses[0] and not (ids[0] & uses[0]):
                                sides = [sides[1], sides[0]]
                            break
                    conv = ["payload as f64" if (x.get("k") == "cast" and x.get("ty") == "f64") else "payload" for x in sides]
                    cok, cd = canon_ok(hka[1])
                    ok = cok and [hka[2], hkb[2]] == conv
                    det = "equality compares (%s) as IEEE doubles; hashes: %s(%s) / %s(%s); canonical fn: %s" % (
                        ", ".join(conv), H.last(hka[1]), hka[2], H.last(hkb[1]), hkb[2], cd)
                R.ob("eq-implies-hash", key, ok, det, loc)
                continue
            # same variant
            if ek == ("const", True):
                R.ob("eq-implies-hash", key, hka[0] == "const", "always equal; hash %s" % (hka,), loc)
                continue
            if ek[0] != "call" or ek[1] != "eq":
                R.ob("eq-implies-hash", key, False, "unrecognised equality primitive %s" % (ek,), loc)
                continue
            ety = ek[2]
            if hka[0] == "const":
                R.ob("eq-implies-hash", key, True, "constant hash is consistent with any equality", loc)
            elif hka[0] == "prim" and hka[1] == ety and ety in STD_SAFE:
                R.ob("eq-implies-hash", key, True, "std Eq/Hash of %s" % ety, loc)
            elif hka[0] == "prim" and hka[1] == ety and ety.startswith("std::rc::Rc<"):
                o1, d1 = local_impl_fieldwise(ety, "PartialEq", "elements")
                o2, d2 = local_impl_fieldwise(ety, "Hash", "elements")
                o3, d3 = container_hash_feeds(ety)
                R.ob("eq-implies-hash", key, o1 and o2 and o3, "element-wise on both sides: %s; %s; hash %s" % (d1, d2, d3), loc)
            elif hka[0] == "field" and ety.startswith("std::rc::Rc<"):
                o1, d1 = local_impl_fieldwise(ety, "PartialEq", hka[1])
                R.ob("eq-implies-hash", key, o1, "hash of field `%s`; %s" % (hka[1], d1), loc)
            elif hka[0] == "canon" and ety in STD_SAFE and hka[2] is not None:
                R.ob("eq-implies-hash", key, True,
                     "identity equality on %s; hash is a function of the payload (%s via %s)" % (ety, hka[2], H.last(hka[1])), loc)
            elif hka[0] == "canon" and ety == "f64" and hka[2] == "payload":
                cok, cd = canon_ok(hka[1])
                R.ob("eq-implies-hash", key, cok, "IEEE == on f64; hash through %s: %s" % (H.last(hka[1]), cd), loc)
            elif hka[0] == "bits":
                R.ob("eq-implies-hash", key, False,
                     "IEEE `==` on %s but hash by bit pattern (%s): 0.0 == -0.0 with different bits" % (ety, hka[1]), loc)
            else:
                R.ob("eq-implies-hash", key, False, "equality on %s, hash %s: pairing not in the compatibility table" % (ety, hka), loc)
    R.count("variant pairs that can compare equal (valid keys)", n_pairs)
    R.count("variant pairs enumerated", len(vs) * len(vs))
    R.floor("equal-capable valid-key pairs", n_pairs, 9)

    # every valid key variant with its own equality arm: equality must not look at less than the hash does
    # (hash keyed on more than equality ⇒ equal keys with different hashes) — covered by the table above.

    # ---- routing: all uses of HMap.pairs go through HashMap methods -----------------
    n_uses = 0
    for p, g in sorted(F.fns.items()):
        b = H.body_of(g)
        if b is None:
            continue
        for x in H.walk(b):
            if x.get("k") != "mcall":
                continue
            # <...>.pairs.borrow[_mut]().<method>(...)
            r = x["recv"]
            if r.get("k") == "mcall" and r["m"] in ("borrow", "borrow_mut"):
                rr = H.strip(r["recv"])
                if rr.get("k") == "field" and rr["name"] == "pairs" and "HMap" in rr.get("base_ty", ""):
                    n_uses += 1
                    R.ob("map-routing", "%s: pairs.%s().%s" % (p, r["m"], x["m"]),
                         x["m"] in HASHMAP_OK and (x.get("callee") or "").startswith("std::collections::HashMap"),
                         "callee %s" % x.get("callee"), F.loc(g, x.get("line")))
    R.count("uses of HMap.pairs", n_uses)
    R.floor("uses of HMap.pairs", n_uses, 6)
    # a store into a script-visible map is unconditional ("a lookup returns the value most recently inserted under an
    # equal key"): in every function that stores into a HashMap keyed by Rc<Object> (HMap::insert; VM::build_map for
    # literals) no path runs from the entry to a return — or, inside a loop, around the loop once — without passing
    # the HashMap::insert call.  A fast path that skips the store when the entry "already has" an == value loses the
    # newer of two equal-but-distinguishable values (1 / 1.0, 0.0 / -0.0, distinct equal arrays).
    from .lib import mir as M
    n_store = 0
    for p in ("object::hmap::HMap::insert", "vm::interpreter::VM::build_map"):
        g = F.fn(p)
        if not R.anchor(p, g and g.get("mir")):
            continue
        B = M.Body(g)
        ins = M.call_blocks(B, lambda t: (t.get("callee") or "").startswith("std::collections::HashMap") and (t.get("callee") or "").endswith("::insert"))
        if not R.anchor(p + ": HashMap::insert call", ins):
            continue
        n_store += len(ins)
        loops = [(h, body) for h, body in M.natural_loops(B) if ins & body]
        if loops:
            for h, body in loops:
                # an iteration that reaches the loop's back edge without the store; leaving the function with an error is fine
                free = set()
                for s_ in B.succ(h):
                    if s_ in body:
                        free |= M.reachable_avoiding(B, s_, ins | {h}, through_start=False)
                back = [t for t in free if h in B.succ(t) and t in body]
                R.ob("insert-always-stores", "%s: every completed iteration of the building loop stores its pair" % H.last(p), not back,
                     "an iteration can complete without HashMap::insert (through bb%s)" % back[:3] if back else "HashMap::insert is on every path around the loop", F.loc(g))
        else:
            free = M.reachable_avoiding(B, 0, ins)
            rets = sorted(free & M.return_blocks(B))
            R.ob("insert-always-stores", "%s: every return is behind the HashMap::insert call" % H.last(p), not rets,
                 "a return is reachable without storing (bb%s)" % rets[:3] if rets else "HashMap::insert dominates every return", F.loc(g))
    R.floor("stores into Object-keyed maps", n_store, 2)
    # ... and a lookup is answered by the HashMap on every path: no return of HMap::get / HMap::contains without the
    # HashMap query (a side cache keyed by object identity goes stale when the entry is overwritten through an equal
    # but distinct key)
    for p, meths in (("object::hmap::HMap::get", ("get", "get_key_value", "get_mut")), ("object::hmap::HMap::contains", ("contains_key", "get"))):
        g = F.fn(p)
        if not R.anchor(p, g and g.get("mir")):
            continue
        # (the query may sit in a private helper of the map: its MIR is spliced in)
        g2, _ = M.inline_calls(F, g, lambda c: c.startswith("object::hmap::") and len(F.fns[c]["mir"]["blocks"]) <= 120, depth=2)
        B = M.Body(g2)
        q = M.call_blocks(B, lambda t: (t.get("callee") or "").startswith("std::collections::HashMap") and H.last(t.get("callee") or "") in meths)
        free = M.reachable_avoiding(B, 0, q) if q else set(range(B.n))
        rets = sorted(free & M.return_blocks(B))
        R.ob("lookup-always-consults-map", "%s: every return is behind the HashMap query" % H.last(p), bool(q) and not rets,
             "a result is produced without asking the HashMap (bb%s)" % rets[:3] if rets or not q else "the HashMap query dominates every return", F.loc(g))
    # the map object holds nothing but the HashMap: there is no second store a lookup or an insert could disagree with
    hm = F.adts.get("object::hmap::HMap")
    if R.anchor("struct HMap", hm):
        flds = [fl.get("name") for v in hm.get("variants", []) for fl in v.get("fields", [])]
        R.ob("lookup-always-consults-map", "HMap has the HashMap as its only field", flds == ["pairs"], "fields: %s" % flds)
    # lookups take the key itself (no pre-conversion)
    for nm, meth in (("get", ("get",)), ("contains", ("contains_key", "get")), ("insert", ("insert",))):
        g = F.fn("object::hmap::HMap::" + nm)
        if R.anchor("HMap::" + nm, g):
            cs = [c for c in H.walk(H.body_inl(F, g)) if c.get("k") == "mcall" and c["m"] in meth and "HashMap" in (c.get("callee") or c.get("decl") or "")]
            kid = [p_["id"] for p_ in g["hir"]["params"] if p_.get("k") == "bind" and p_.get("name") != "self"][:1]
            ok = len(cs) == 1 and H.local_id(H.strip(cs[0]["args"][0])) in kid
            R.ob("map-routing", "HMap::%s passes the key unchanged" % nm, ok, H.render(cs[0])[:80] if cs else "no call", F.loc(g))
