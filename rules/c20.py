"""C20 — filter mode emits exactly the selected packets with correct per-packet state.

Per-packet values over streams are not decided; the shape of the stream loop is."""
import re

from .lib import hir as H
from .lib import mir as M
from .lib import emit as E
from .lib import e5run

EXPL = ("Shape rules (E3/E2) on main::run_buf / run_filters: the main program runs once before and outside the packet "
        "loop and filters are compiled into Bytecode.filters, never into the main stream; per packet the typestate "
        "set_curr_pkt → NP update → for each filter (vector order) push_filter_frame → run → pop_filter_frame holds, with "
        "the packet counter initialised to 1 and incremented exactly once per packet; a packet is written iff "
        "pop_filter_frame returned Ok(true), once per filter, only through the output pcap; with -s no output pcap exists "
        "and run_filters writes nothing else to stdout; PL/WL/TSS/TSU are wired to caplen/wirelen/sec/usec of the "
        "current packet; the end filter runs once after the loop; the output global header is the input's header. "
        "Which packets are selected (values) is not decided.")


def events(body, interesting):
    """[(name, loop depth, node)] for calls/method calls whose name is in `interesting`, in evaluation order"""
    out = []

    def go(n, depth):
        if isinstance(n, list):
            for x in n:
                go(x, depth)
            return
        if not isinstance(n, dict):
            return
        k = n.get("k")
        if k == "closure":
            return
        if k == "loop":
            go(n["body"], depth + 1)
            return
        if k in ("call", "mcall"):
            if k == "mcall":
                go(n["recv"], depth)
            go(n.get("args", []), depth)
            nm = n.get("m") or H.last(n.get("callee") or "")
            if nm in interesting:
                out.append((nm, depth, n))
            return
        if k == "block":
            for s in n.get("stmts", []):
                go(s.get("init") if s["k"] == "let" else s.get("e"), depth)
                if s["k"] == "let" and "els" in s:
                    go(s["els"], depth)
            go(n.get("expr"), depth)
            return
        if k == "assignop":
            go(n["r"], depth)
            nm = "assignop:" + H.render(n["l"]) + n["op"]
            if nm in interesting:
                out.append((nm, depth, n))
            return
        for key in ("scrut", "c", "t", "e", "init", "l", "r", "body", "es", "i"):
            v = n.get(key)
            if isinstance(v, (dict, list)):
                go(v, depth)
        for a in n.get("arms", []) if k == "match" else []:
            go(a.get("guard"), depth)
            go(a["body"], depth)
        for fd in n.get("fields", []) if k == "struct" else []:
            go(fd["e"], depth)
    go(body, 0)
    return out


def run(F, R, tier):
    R.explanation = EXPL
    R.assumptions += ["'as modified so far' relies on C17; NP in the end filter equals the last assigned counter (read off the shape)"]
    rb, rf = F.fn("run_buf"), F.fn("run_filters")
    if not (R.anchor("main::run_buf", rb) and R.anchor("main::run_filters", rf)):
        return
    # ---- (a) main program runs once, outside any loop, before run_filters ------------------------------------------------
    KEEP_RB = {"run", "run_filters", "new_with_global_store", "compile", "parse_program", "last_popped"}
    ev = events(H.body_inl(F, rb, keep=KEEP_RB), KEEP_RB)
    names = [(n, d) for n, d, _ in ev]
    # the program is parsed, compiled and run once, outside any loop, and the filters start only after that run; printing
    # the last value in -c mode (last_popped) may come before or after the call of run_filters (they exclude each other)
    core_ = [n for n, d in names if n != "last_popped"]
    R.ob("main-runs-once", "run_buf: parse → compile → VM → run → run_filters, none inside a loop",
         core_ == ["parse_program", "compile", "new_with_global_store", "run", "run_filters"] and all(d == 0 for n, d in names),
         str(names), F.loc(rb))
    cf = F.fn("compiler::Compiler::compile_filter_statement")
    if R.anchor("compile_filter_statement", cf):
        seq, _ = E.linear_events(H.body_of(cf))
        txt = H.render(H.body_of(cf))
        ok = seq[:1] == ["enter_scope"] and "leave_scope" in seq and "self.filters.push(filter)" in txt and "self.filter_end = v1::Some(filter)" in txt
        # nothing is emitted into the enclosing scope after leave_scope
        after = seq[seq.index("leave_scope") + 1:] if "leave_scope" in seq else ["?"]
        R.ob("filters-compiled-apart", "filter code is emitted between enter_scope and leave_scope and stored in filters / filter_end",
             ok and not [e for e in after if e.startswith(("emit", "p"))], "events %s" % seq, F.loc(cf))
    # ---- (a2) the filter's code: one result value; the pattern's value without an action, `false` after an action ----------
    from .lib import e5run
    from .lib.vmeffects import Lin
    res = e5run.analyse(F, R)
    if not res.get("ok"):
        R.ob("filter-template", "the emission verifier could interpret compile_filter_statement", False, "unsupported construct: %s" % res.get("unsupported"))
    else:
        seen = set()
        for v in res["viol"]:
            rule, key, detail, line, facts = v
            if "statement[Filter]" not in key or (rule, key) in seen:
                continue
            if rule == "filter-result" and facts.get("v:$:Filter.pattern") in ("None", "End") and facts.get("some:$:Filter.action") is False:
                continue   # excluded by the parser: a filter statement has a pattern or an action (C07 parser-contract rule)
            seen.add((rule, key))
            R.ob(rule, key, False, detail, "src/compiler/mod.rs:%s" % line if line else "")
        r = res["stmt"].get(("Filter", "main"))
        if R.anchor("Statement::Filter arm", r):
            got = {}
            for t, st in r["ends"]:
                if t != "ok":
                    continue
                pat, act = e5run.cfact(st, r["pname"], "v", "$:Filter.pattern"), e5run.cfact(st, r["pname"], "some", "$:Filter.action")
                if pat in ("None", "End") and act is False:
                    continue
                got.setdefault((pat, act), set()).add((tuple(o[1] for o in st.order), tuple(e[0] for e in st.emits)))
            want = {("Expr", False): {(("G",), ("JumpIfFalseNoPop",))},
                    ("Expr", True): {(("G", "block"), ("JumpIfFalseNoPop", "Pop", "False"))},
                    ("None", True): {(("block",), ("False",))},
                    ("End", True): {(("block",), ("False",))}}
            texts = {("Expr", False): "pattern without action: the pattern's value is the filter's result",
                     ("Expr", True): "pattern with action: a falsey pattern value is the result; otherwise it is popped, the action runs, the result is false",
                     ("None", True): "action without pattern: the action runs, the result is false (the caller writes nothing)",
                     ("End", True): "end filter: the action runs, the result is false"}
            for k, w in want.items():
                R.ob("filter-template", texts[k], got.get(k) == w, "compiled as %s" % sorted(got.get(k, [])), F.loc(cf) if cf else "")
            R.ob("filter-template", "no other pattern/action combination is compiled", set(got) == set(want), str(sorted(got, key=repr)))
    E.num_locals_rule(F, R, "compile_filter_statement", "a filter's frame reserves one slot per local of the filter's own scope")
    # ---- (b) per-packet typestate --------------------------------------------------------------------------------------------
    interesting = {"next_packet", "set_curr_pkt", "update_builtin_var", "push_filter_frame", "run", "pop_filter_frame", "write_all",
                   "assignop:count+=", "from_file", "new_with_header", "new_with_magic", "_print"}
    b = H.body_inl(F, rf, keep=interesting)
    ev = events(b, interesting)
    seq = [(n, d) for n, d, _ in ev]
    per_packet = [n for n, d in seq if d == 1]
    per_filter = [n for n, d in seq if d == 2]
    R.ob("packet-typestate", "per packet: next_packet → set_curr_pkt → NP update → filters → count += 1",
         per_packet == ["next_packet", "set_curr_pkt", "update_builtin_var", "assignop:count+="], str(per_packet), F.loc(rf))
    R.ob("packet-typestate", "per filter: push_filter_frame → run → pop_filter_frame → write_all",
         per_filter == ["push_filter_frame", "run", "pop_filter_frame", "write_all"], str(per_filter), F.loc(rf))
    # NP update passes `count`; count starts at 1
    np_calls = [n for nm, d, n in ev if nm == "update_builtin_var" and d == 1]
    ok = len(np_calls) == 1 and H.render(np_calls[0]["args"]) == "BuiltinVarType::NP, Rc::new(Object::Integer(count))"
    inits = [H.render(x.get("init")) for x in H.walk(b) if x.get("k") == "let" and x.get("pat", {}).get("name") == "count"]
    R.ob("packet-counter", "NP := count, count starts at 1 and is incremented by 1", ok and inits == ["1"] and
         [H.render(n["r"]) for nm, d, n in ev if nm == "assignop:count+="] == ["1"], "NP update %s; init %s" % (
             H.render(np_calls[0]["args"]) if np_calls else None, inits), F.loc(rf))
    # the filter loop iterates the filters vector in order
    loops = [x for x in H.walk(b) if x.get("k") == "match" and x.get("src", "").startswith("ForLoop")]
    its = [H.render(x["scrut"]) for x in loops]
    R.ob("filter-order", "filters are run in vector order", any("into_iter(&filters)" in t for t in its), str(its), F.loc(rf))
    # set_curr_pkt receives the packet just read
    sc = [n for nm, d, n in ev if nm == "set_curr_pkt"]
    R.ob("packet-typestate", "set_curr_pkt(pkt) is the packet returned by next_packet", len(sc) == 1 and H.render(sc[0]["args"]) == "pkt.clone()",
         H.render(sc[0]["args"]) if sc else "", F.loc(rf))
    # ---- (c) write iff Ok(true), only through pcap_out ---------------------------------------------------------------------------
    wr = [n for nm, d, n in ev if nm == "write_all"]
    ok = False
    det = ""
    for m in H.walk(b):
        if m.get("k") == "match" and not H.is_try(m) and H.strip(m["scrut"]).get("k") == "mcall" and H.strip(m["scrut"])["m"] == "pop_filter_frame" and any(
                x is wr[0] for a in m["arms"] for x in H.walk(a["body"])) if wr else False:
            arms = {H.render_pat(a["pat"]): a for a in m["arms"]}
            det = str(sorted(arms))
            t = arms.get("v1::Ok(true)")
            f_ = arms.get("v1::Ok(false)")
            # `if let Some(out) = <pcap_out, possibly borrowed> { out.write_all(pkt) }`
            through_out = False
            if t is not None:
                for y in H.walk(t["body"]):
                    c_ = y.get("c") if y.get("k") == "if" else None
                    if c_ is not None and c_.get("k") == "let" and H.render(H.strip(c_["init"])) == "pcap_out":
                        outs = [z["id"] for z in H.walk(c_["pat"]) if z.get("k") == "bind"]
                        through_out = H.local_id(H.strip(wr[0]["recv"])) in outs and any(x is wr[0] for x in H.walk(y["t"]))
            ok = t is not None and any(x is wr[0] for x in H.walk(t["body"])) and f_ is not None and H.render(f_["body"]) == "" and \
                through_out and H.render(H.strip(wr[0]["args"][0])) == "pkt"
    R.ob("write-iff-selected", "the packet is written exactly in the Ok(true) arm, through pcap_out", ok and len(wr) == 1, det, F.loc(rf))
    # ---- (d) -s ----------------------------------------------------------------------------------------------------------------------
    lets = [x for x in H.walk(b) if x.get("k") == "let" and x.get("pat", {}).get("name") == "pcap_out"]
    ok = len(lets) == 1 and H.render(lets[0]["init"]).startswith("if skip_pcap {v1::None} else {")
    R.ob("skip-pcap", "pcap_out is None exactly when skip_pcap", ok, H.render(lets[0]["init"])[:80] if lets else "", F.loc(rf))
    prints = [n for nm, d, n in ev if nm == "_print"]
    R.ob("skip-pcap", "run_filters itself prints nothing to stdout", not prints, "%d stdout prints" % len(prints), F.loc(rf))
    stdout_uses = [H.render(x) for x in H.walk(b) if x.get("k") == "path" and "Stdout" in H.render(x)]
    R.ob("skip-pcap", "FileHandle::Stdout is used only to create the output pcap", len(stdout_uses) == 1, str(stdout_uses), F.loc(rf))
    # ---- (g) output header provenance -------------------------------------------------------------------------------------------------
    nh = [n for nm, d, n in ev if nm in ("new_with_header", "new_with_magic")]
    hl = [H.render(x.get("init")) for x in H.walk(b) if x.get("k") == "let" and x.get("pat", {}).get("name") == "header_in"]
    ok = len(nh) == 1 and (nh[0].get("callee") or "").endswith("new_with_header") and H.render(nh[0]["args"][1]) == "header_in" and \
        hl == ["pcap_in.header.borrow().clone()"]
    R.ob("output-header-provenance", "the output global header is the input stream's header", ok,
         "created by %s(%s); header_in = %s" % (H.last(nh[0].get("callee") or "?") if nh else None, H.render(nh[0]["args"]) if nh else "", hl), F.loc(rf))
    nw = F.fn("builtins::pcap::Pcap::new_with_header")
    if R.anchor("Pcap::new_with_header", nw):
        nwb = H.body_inl(F, nw, keep=("write_all", "into", "new"))
        txt = H.render(nwb)
        wr_ = [c for c in H.walk(nwb) if c.get("k") == "mcall" and c["m"] == "write_all" and "Write" in (c.get("decl") or c.get("callee") or "")]
        bytes_lets = [x for x in H.walk(nwb) if x.get("k") == "let" and x.get("pat", {}).get("k") == "bind" and x.get("init") is not None and
                      H.render(H.strip(x["init"])) == "global_header" and
                      any(y.get("k") == "mcall" and y["m"] == "into" for y in H.walk(x["init"]))]
        ids = {x["pat"]["id"] for x in bytes_lets}
        # both handle kinds write the serialisation of the header that was passed in (through a shared helper or in place)
        ok = len(bytes_lets) == 1 and len(wr_) == 2 and all(H.local_id(H.strip(c["args"][0])) in ids for c in wr_) and "header: RefCell::new(global_header)" in txt
        R.ob("output-header-provenance", "new_with_header serialises exactly the header it was given", ok, txt[:160], F.loc(nw))
    # ---- (e) builtin variable wiring --------------------------------------------------------------------------------------------------------
    sp = F.fn("vm::interpreter::VM::set_curr_pkt")
    if R.anchor("VM::set_curr_pkt", sp):
        got = {}
        for c in H.walk(H.body_of(sp)):
            if c.get("k") == "mcall" and c["m"] == "update_builtin_var":
                got[H.last(H.ctor_of(H.strip(c["args"][0])) or "?")] = H.render(c["args"][1])
        want = {"PL": "pkt.get_caplen()", "WL": "pkt.get_wirelen()", "Tss": "pkt.get_ts_sec()", "Tsu": "pkt.get_ts_usec()"}
        for k, v in want.items():
            R.ob("builtin-var-wiring", k, got.get(k) == v, "%s := %s (want %s)" % (k, got.get(k), v), F.loc(sp))
    nm = F.fn("builtins::variables::<impl std::convert::From<builtins::variables::BuiltinVarType> for &'static str>::from")
    if R.anchor("BuiltinVarType names", nm):
        tab = {}
        for m in H.walk(H.body_of(nm)):
            if m.get("k") == "match" and not H.is_try(m):
                for a in m["arms"]:
                    for v in H.pat_variants(a["pat"]):
                        tab[H.last(v)] = H.render(H.strip(a["body"]))
        want = {"Argv": '"argv"', "NP": '"NP"', "PL": '"PL"', "WL": '"WL"', "Tss": '"TSS"', "Tsu": '"TSU"'}
        R.ob("builtin-var-names", "variable names", all(tab.get(k) == v for k, v in want.items()), str(tab), F.loc(nm))
    vs = F.enum_variants("builtins::variables::BuiltinVarType") or []
    fu = F.fn("<builtins::variables::BuiltinVarType as std::convert::From<usize>>::from")
    if R.anchor("From<usize> for BuiltinVarType", fu):
        tab = {}
        for m in H.walk(H.body_of(fu)):
            if m.get("k") == "match" and not H.is_try(m):
                for a in m["arms"]:
                    if a["pat"].get("k") == "plit":
                        tab[a["pat"]["lit"]["v"]] = H.last(H.ctor_of(H.strip(a["body"])) or "?")
        R.ob("builtin-var-names", "From<usize> is the inverse of the discriminant", all(tab.get(d) == n for n, d in vs if n != "Max"), str(tab), F.loc(fu))
    # ---- (f) end filter: once, after the loop ----------------------------------------------------------------------------------------------------
    after = [(n, d) for n, d in seq if d == 0]
    tail = [n for n, d in after if n in ("push_filter_frame", "run", "pop_filter_frame")]
    R.ob("end-filter-once", "end filter: push → run → pop, once, outside the packet loop", tail == ["push_filter_frame", "run", "pop_filter_frame"],
         str(after), F.loc(rf))
    ifs = [x for x in H.walk(b) if x.get("k") == "if" and H.render(x["c"]).startswith("let v1::Some(filter) = filter_end")]
    R.ob("end-filter-once", "end filter is taken from filter_end", len(ifs) == 1, "", F.loc(rf), nontrivial=False)
    # ---- (h) the emitted filter code leaves exactly one value: delegated to the emission verifier (C07) --------------------------------------------
    # ---- (i) "writes the packet, as modified so far": what is written is the packet's current state -------------------------------------
    # C15's rules on the output path (write_all serialises the packet when it is written, through From<&PcapPacket>, whose
    # shape is header ‖ cached layer | rawdata) and the rule that a packet object holds no derived copy of its own bytes are
    # necessary for this clause: a cached encoding survives a later assignment to a layer field.
    import importlib
    from .lib import core as _core
    try:
        R15 = _core.Report("C15")
        importlib.import_module("rules.c15").run(F, R15, tier)
        for o in R15.obls:
            if o.rule in ("output-routing", "packet-serialiser-shape", "packet-holds-no-derived-bytes"):
                R.ob("linked:C15:" + o.rule, o.key, o.ok, o.detail, o.loc, nontrivial=False)
    except Exception as e:  # fail closed
        R.ob("linked-check", "C15's output rules could be evaluated", False, "%s: %s" % (type(e).__name__, e))
