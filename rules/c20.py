"""C20 — filter mode emits exactly the selected packets with correct per-packet state.

Per-packet values over streams are not decided; the shape of the stream loop is."""
import re

from .lib import hir as H
from .lib import mir as M
from .lib import emit as E
from .lib import e5run

EXPL = ("Shape rules (E3/E2) on main::run_buf / run_filters: the main program runs once before and outside the packet "
        "loop and filters are compiled into Bytecode.filters, never into the main stream; per packet the typestate "
        "set_curr_pkt → NP update → for each filter (vector order) push_filter_frame → run → pop_filter_frame holds, with "
        "the packet counter initialised to 1 and incremented exactly once per packet; a packet is written iff "
        "pop_filter_frame returned Ok(true), once per filter, only through the output pcap; with -s no output pcap exists "
        "and run_filters writes nothing else to stdout; PL/WL/TSS/TSU are wired to caplen/wirelen/sec/usec of the "
        "current packet; the end filter runs once after the loop; the output global header is the input's header. "
        "Which packets are selected (values) is not decided.")


def events(body, interesting):
    """[(name, loop depth, node)] for calls/method calls whose name is in `interesting`, in evaluation order"""
    out = []

    def go(n, depth):
        if isinstance(n, list):
            for x in n:
                go(x, depth)
            return
        if not isinstance(n, dict):
            return
        k = n.get("k")
        if k == "closure":
            return
        if k == "loop":
            go(n["body"], depth + 1)
            return
        if k in ("call", "mcall"):
            if k == "mcall":
                go(n["recv"], depth)
            go(n.get("args", []), depth)
            nm = n.get("m") or H.last(n.get("callee") or "")
            if nm in interesting:
                out.append((nm, depth, n))
            return
        if k == "block":
            for s in n.get("stmts", []):
                go(s.get("init") if s["k"] == "let" else s.get("e"), depth)
                if s["k"] == "let" and "els" in s:
                    go(s["els"], depth)
            go(n.get("expr"), depth)
            return
        if k == "assignop":
            go(n["r"], depth)
            nm = "assignop:" + H.render(n["l"]) + n["op"]
            if nm in interesting:
                out.append((nm, depth, n))
            return
        for key in ("scrut", "c", "t", "e", "init", "l", "r", "body", "es", "i"):
            v = n.get(key)
            if isinstance(v, (dict, list)):
                go(v, depth)
        for a in n.get("arms", []) if k == "match" else []:
            go(a.get("guard"), depth)
            go(a["body"], depth)
        for fd in n.get("fields", []) if k == "struct" else []:
            go(fd["e"], depth)
    go(body, 0)
    return out


def run(F, R, tier):
    R.explanation = EXPL
    R.assumptions += ["'as modified so far' relies on C17; NP in the end filter equals the last assigned counter (read off the shape)"]
    rb, rf = F.fn("run_buf"), F.fn("run_filters")
    if not (R.anchor("main::run_buf", rb) and R.anchor("main::run_filters", rf)):
        return
    # ---- (a) main program runs once, outside any loop, before run_filters ------------------------------------------------
    KEEP_RB = {"run", "run_filters", "new_with_global_store", "compile", "parse_program", "last_popped"}
    ev = events(H.body_inl(F, rb, keep=KEEP_RB), KEEP_RB)
    names = [(n, d) for n, d, _ in ev]
    # the program is parsed, compiled and run once, outside any loop, and the filters start only after that run; printing
    # the last value in -c mode (last_popped) may come before or after the call of run_filters (they exclude each other)
    core_ = [n for n, d in names if n != "last_popped"]
    R.ob("main-runs-once", "run_buf: parse → compile → VM → run → run_filters, none inside a loop",
         core_ == ["parse_program", "compile", "new_with_global_store", "run", "run_filters"] and all(d == 0 for n, d in names),
         str(names), F.loc(rb))
    cf = F.fn("compiler::Compiler::compile_filter_statement")
    if R.anchor("compile_filter_statement", cf):
        seq, _ = E.linear_events(H.body_of(cf))
        txt = H.render(H.body_of(cf))
        ok = seq[:1] == ["enter_scope"] and "leave_scope" in seq and "self.filters.push(filter)" in txt and "self.filter_end = v1::Some(filter)" in txt
        # nothing is emitted into the enclosing scope after leave_scope
        after = seq[seq.index("leave_scope") + 1:] if "leave_scope" in seq else ["?"]
        R.ob("filters-compiled-apart", "filter code is emitted between enter_scope and leave_scope and stored in filters / filter_end",
             ok and not [e for e in after if e.startswith(("emit", "p"))], "events %s" % seq, F.loc(cf))
    # ---- (a2) the filter's code: one result value; the pattern's value without an action, `false` after an action ----------
    from .lib import e5run
    from .lib.vmeffects import Lin
    res = e5run.analyse(F, R)
    if not res.get("ok"):
        R.ob("filter-template", "the emission verifier could interpret compile_filter_statement", False, "unsupported construct: %s" % res.get("unsupported"))
    else:
        seen = set()
        for v in res["viol"]:
            rule, key, detail, line, facts = v
            if "statement[Filter]" not in key or (rule, key) in seen:
                continue
            if rule == "filter-result" and facts.get("v:$:Filter.pattern") in ("None", "End") and facts.get("some:$:Filter.action") is False:
                continue   # excluded by the parser: a filter statement has a pattern or an action (C07 parser-contract rule)
            seen.add((rule, key))
            R.ob(rule, key, False, detail, "src/compiler/mod.rs:%s" % line if line else "")
        r = res["stmt"].get(("Filter", "main"))
        if R.anchor("Statement::Filter arm", r):
            got = {}
            for t, st in r["ends"]:
                if t != "ok":
                    continue
                pat, act = e5run.cfact(st, r["pname"], "v", "$:Filter.pattern"), e5run.cfact(st, r["pname"], "some", "$:Filter.action")
                if pat in ("None", "End") and act is False:
                    continue
                got.setdefault((pat, act), set()).add((tuple(o[1] for o in st.order), tuple(e[0] for e in st.emits)))
            want = {("Expr", False): {(("G",), ("JumpIfFalseNoPop",))},
                    ("Expr", True): {(("G", "block"), ("JumpIfFalseNoPop", "Pop", "False"))},
                    ("None", True): {(("block",), ("False",))},
                    ("End", True): {(("block",), ("False",))}}
            texts = {("Expr", False): "pattern without action: the pattern's value is the filter's result",
                     ("Expr", True): "pattern with action: a falsey pattern value is the result; otherwise it is popped, the action runs, the result is false",
                     ("None", True): "action without pattern: the action runs, the result is false (the caller writes nothing)",
                     ("End", True): "end filter: the action runs, the result is false"}
            for k, w in want.items():
                R.ob("filter-template", texts[k], got.get(k) == w, "compiled as %s" % sorted(got.get(k, [])), F.loc(cf) if cf else "")
            R.ob("filter-template", "no other pattern/action combination is compiled", set(got) == set(want), str(sorted(got, key=repr)))
    E.num_locals_rule(F, R, "compile_filter_statement", "a filter's frame reserves one slot per local of the filter's own scope")
    # ---- (b) per-packet typestate --------------------------------------------------------------------------------------------
    interesting = {"next_packet", "set_curr_pkt", "update_builtin_var", "push_filter_frame", "run", "pop_filter_frame", "write_all",
                   "assignop:count+=", "from_file", "new_with_header", "new_with_magic", "_print"}
    # normal form: helpers of main.rs in place, closures handed to them applied, Result combinators written as matches
    b0 = H.body_inl(F, rf, keep=interesting)
    ev0 = events(b0, interesting)
    b = H.desugar_combinators(H.beta(H.unlet(H.split_tuple_lets(b0))))
    ev = events(b, interesting)
    seq = [(n, d) for n, d, _ in ev]
    per_packet = [n for n, d in seq if d == 1]
    R.ob("packet-typestate", "per packet: next_packet → set_curr_pkt → NP update → filters → count += 1",
         per_packet == ["next_packet", "set_curr_pkt", "update_builtin_var", "assignop:count+="], str(per_packet), F.loc(rf))
    lets_ = {x["pat"]["id"]: x["init"] for x in H.walk(b) if x.get("k") == "let" and x.get("pat", {}).get("k") == "bind" and x.get("init") is not None}
    # pattern variables: id -> (pattern constructor, scrutinee) for `Ok(x)` / `Some(x)` arms, if-let and let-else patterns
    payload = {}
    for x in H.walk(b):
        cands = []
        if x.get("k") == "match" and not H.is_try(x):
            cands = [(a_["pat"], x["scrut"]) for a_ in x["arms"]]
        elif x.get("k") == "let" and x.get("pat", {}).get("k") in ("ts", "struct") and x.get("init") is not None:
            cands = [(x["pat"], x["init"])]
        for pt, sc_ in cands:
            q = pt
            while q.get("k") in ("ref", "deref"):
                q = q["pat"]
            if q.get("k") in ("ts", "struct"):
                subs = q.get("pats") or [f_.get("pat") for f_ in q.get("fields", [])]
                if len(subs) == 1 and subs[0] and subs[0].get("k") == "bind":
                    payload[subs[0]["id"]] = (H.last(q["res"].get("path") or ""), sc_)

    def resolve(e, d=0):
        """the expression a value is a copy of: borrows, clones and named intermediates are looked through; the payload
        variable of an `Ok(x)` / `Some(x)` pattern resolves to ("payload", ctor, <resolved scrutinee>)"""
        e = H.strip(e)
        if d > 8:
            return e
        if H.is_local(e):
            i = H.local_id(e)
            if i in payload:
                return ("payload", payload[i][0], resolve(payload[i][1], d + 1))
            if i in lets_:
                init = lets_[i]
                leaves = [l_ for l_ in H.value_leaves(init)] if H.strip(init).get("k") in ("match", "if", "block") else None
                if leaves and len(leaves) == 1:
                    return resolve(leaves[0], d + 1)
                if leaves is None:
                    return resolve(init, d + 1)
        return e

    def is_call(r_, name):
        return isinstance(r_, dict) and r_.get("k") in ("call", "mcall") and (r_.get("m") or H.last(r_.get("callee") or "")) == name

    def is_param(r_, names):
        # a parameter of run_filters, or a field of one (`filter_set.per_packet`)
        while isinstance(r_, dict) and r_.get("k") == "field":
            r_ = H.strip(r_["e"])
        return isinstance(r_, dict) and H.is_local(r_) and r_["res"].get("id") in {pr.get("id") for pr in rf["hir"]["params"]}

    # NP update passes `count`; count starts at 1
    np_calls = [n for nm, d, n in ev if nm == "update_builtin_var" and d == 1]
    ok = len(np_calls) == 1 and H.render(np_calls[0]["args"]) == "BuiltinVarType::NP, Rc::new(Object::Integer(count))"
    inits = [H.render(x.get("init")) for x in H.walk(b) if x.get("k") == "let" and x.get("pat", {}).get("name") == "count"]
    R.ob("packet-counter", "NP := count, count starts at 1 and is incremented by 1", ok and inits == ["1"] and
         [H.render(n["r"]) for nm, d, n in ev if nm == "assignop:count+="] == ["1"], "NP update %s; init %s" % (
             H.render(np_calls[0]["args"]) if np_calls else None, inits), F.loc(rf))
    # the filter loop: the `for` whose body pushes the filter frame; it walks a vector handed to run_filters front to back
    loops = [x for x in H.walk(b) if x.get("k") == "match" and x.get("src", "").startswith("ForLoop") and "into_iter" in H.render(x["scrut"])[:60]
             and any(c_.get("k") == "mcall" and c_["m"] == "push_filter_frame" for c_ in H.walk(x))]
    its = [H.render(x["scrut"]) for x in loops]
    in_order = False
    fbody, fvar = None, None
    if len(loops) == 1:
        sc_ = H.strip(loops[0]["scrut"])
        it_ = (([sc_["recv"]] if sc_.get("k") == "mcall" else []) + sc_.get("args", []))[0] if sc_.get("k") in ("call", "mcall") else None
        while it_ is not None and it_.get("k") == "mcall" and it_["m"] in ("iter",) and not it_.get("args"):
            it_ = it_["recv"]
        in_order = it_ is not None and is_param(H.strip(it_), None)
        for x in H.walk(loops[0]):
            if x.get("k") == "match" and x is not loops[0]:
                for a_ in x["arms"]:
                    q = a_["pat"]
                    if q.get("k") in ("ts", "struct") and H.last(q["res"].get("path") or "") == "Some":
                        fbody = a_["body"]
                        fvar = [y["id"] for y in H.walk(q) if y.get("k") == "bind"]
                if fbody is not None:
                    break
    R.ob("filter-order", "filters are run in vector order", in_order, str(its), F.loc(rf))
    # set_curr_pkt receives the packet just read
    sc = [n for nm, d, n in ev if nm == "set_curr_pkt"]
    def is_read_packet(e):
        r_ = resolve(e)
        return isinstance(r_, tuple) and r_[0] == "payload" and r_[1] == "Ok" and is_call(r_[2], "next_packet")
    R.ob("packet-typestate", "set_curr_pkt(pkt) is the packet returned by next_packet", len(sc) == 1 and len(sc[0]["args"]) == 1 and is_read_packet(sc[0]["args"][0]),
         H.render(sc[0]["args"]) if sc else "", F.loc(rf))
    # ---- per filter, path by path: push_filter_frame → run → pop_filter_frame → write_all; (c) write iff Ok(true), through pcap_out
    wr = [n for nm, d, n in ev if nm == "write_all"]
    det, ok_seq, ok_write = "", False, False
    if fbody is not None:
        ORDER = ["push_filter_frame", "run", "pop_filter_frame", "write_all"]
        seqs = set()
        problems = []
        n_sel = n_written = 0
        for evs, ex in H.paths(fbody, lambda c: None, decisions=True, limit=4000):
            calls = [(e_[1] if isinstance(e_[1], str) else "", e_[2]) for e_ in evs if e_[0] == "call"]
            names = [H.last(c_[0]) for c_ in calls if H.last(c_[0]) in ORDER and (c_[1].get("k") == "mcall")]
            seqs.add(tuple(names))
            if names != ORDER[:len(names)]:
                problems.append("a path runs %s" % names)
            # what the match on the popped result decided on this path
            popped = None
            out_some = None
            for e_ in evs:
                if e_[0] == "arm":
                    m_, ai_ = e_[1], e_[2]
                    r_ = resolve(m_["scrut"])
                    pt = H.render_pat(m_["arms"][ai_]["pat"])
                    if is_call(r_, "pop_filter_frame"):
                        popped = pt
                    if H.is_local(H.strip(r_ if isinstance(r_, dict) else {})) and H.strip(r_)["res"].get("name") == "pcap_out":
                        out_some = "Some" in pt
                elif e_[0] == "if" and e_[1]["c"].get("k") == "let":
                    c_ = e_[1]["c"]
                    r_ = resolve(c_["init"])
                    pt = H.render_pat(c_["pat"])
                    if is_call(r_, "pop_filter_frame"):
                        popped = pt if e_[2] else "not " + pt
                    if isinstance(r_, dict) and H.is_local(H.strip(r_)) and H.strip(r_)["res"].get("name") == "pcap_out":
                        out_some = ("Some" in pt) == e_[2]
            wrote = names.count("write_all")
            if popped is not None and re.fullmatch(r"(v1::)?Ok\(true\)", popped):
                n_sel += 1
                if out_some is not False and wrote != 1:
                    problems.append("selected (Ok(true)) with an output stream, but %d writes" % wrote)
                if out_some is False and wrote:
                    problems.append("written without an output stream")
                n_written += wrote
            elif wrote:
                problems.append("written on a path where pop_filter_frame gave %s" % popped)
        ok_seq = not [p_ for p_ in problems if p_.startswith("a path runs")] and tuple(ORDER) in seqs and tuple(ORDER[:3]) in seqs
        ok_write = not problems and n_sel >= 1 and n_written >= 1 and len(wr) == 1
        if ok_write:
            # through pcap_out, and what is written is the packet just read
            recv = resolve(wr[0]["recv"])
            ok_write = isinstance(recv, tuple) and recv[0] == "payload" and recv[1] == "Some" and isinstance(recv[2], dict) and \
                H.is_local(H.strip(recv[2])) and H.strip(recv[2])["res"].get("name") == "pcap_out" and len(wr[0]["args"]) == 1 and is_read_packet(wr[0]["args"][0])
            if not ok_write:
                problems.append("write_all(%s) on %s" % (H.render(wr[0]["args"]), H.render(wr[0]["recv"])))
        det = "; ".join(sorted(set(problems)))[:300] or "call sequences over the paths of one filter: %s" % sorted(seqs)
    R.ob("packet-typestate", "per filter: push_filter_frame → run → pop_filter_frame → write_all", ok_seq, det, F.loc(rf))
    R.ob("write-iff-selected", "the packet is written exactly in the Ok(true) arm, through pcap_out", ok_write, det, F.loc(rf))
    seq_n, ev_n, b_n = seq, ev, b
    b, ev = b0, ev0
    seq = [(n, d) for n, d, _ in ev]
    # ---- (d) -s ----------------------------------------------------------------------------------------------------------------------
    lets = [x for x in H.walk(b) if x.get("k") == "let" and x.get("pat", {}).get("name") == "pcap_out"]
    ok = len(lets) == 1 and H.render(lets[0]["init"]).startswith("if skip_pcap {v1::None} else {")
    R.ob("skip-pcap", "pcap_out is None exactly when skip_pcap", ok, H.render(lets[0]["init"])[:80] if lets else "", F.loc(rf))
    prints = [n for nm, d, n in ev if nm == "_print"]
    R.ob("skip-pcap", "run_filters itself prints nothing to stdout", not prints, "%d stdout prints" % len(prints), F.loc(rf))
    stdout_uses = [H.render(x) for x in H.walk(b) if x.get("k") == "path" and "Stdout" in H.render(x)]
    R.ob("skip-pcap", "FileHandle::Stdout is used only to create the output pcap", len(stdout_uses) == 1, str(stdout_uses), F.loc(rf))
    # ---- (g) output header provenance -------------------------------------------------------------------------------------------------
    nh = [n for nm, d, n in ev if nm in ("new_with_header", "new_with_magic")]
    hl = [H.render(x.get("init")) for x in H.walk(b) if x.get("k") == "let" and x.get("pat", {}).get("name") == "header_in"]
    ok = len(nh) == 1 and (nh[0].get("callee") or "").endswith("new_with_header") and H.render(nh[0]["args"][1]) == "header_in" and \
        hl == ["pcap_in.header.borrow().clone()"]
    R.ob("output-header-provenance", "the output global header is the input stream's header", ok,
         "created by %s(%s); header_in = %s" % (H.last(nh[0].get("callee") or "?") if nh else None, H.render(nh[0]["args"]) if nh else "", hl), F.loc(rf))
    nw = F.fn("builtins::pcap::Pcap::new_with_header")
    if R.anchor("Pcap::new_with_header", nw):
        nwb = H.body_inl(F, nw, keep=("write_all", "into", "new"))
        txt = H.render(nwb)
        wr_ = [c for c in H.walk(nwb) if c.get("k") == "mcall" and c["m"] == "write_all" and "Write" in (c.get("decl") or c.get("callee") or "")]
        bytes_lets = [x for x in H.walk(nwb) if x.get("k") == "let" and x.get("pat", {}).get("k") == "bind" and x.get("init") is not None and
                      H.render(H.strip(x["init"])) == "global_header" and
                      any(y.get("k") == "mcall" and y["m"] == "into" for y in H.walk(x["init"]))]
        ids = {x["pat"]["id"] for x in bytes_lets}
        # both handle kinds write the serialisation of the header that was passed in (through a shared helper or in place)
        ok = len(bytes_lets) == 1 and len(wr_) == 2 and all(H.local_id(H.strip(c["args"][0])) in ids for c in wr_) and "header: RefCell::new(global_header)" in txt
        R.ob("output-header-provenance", "new_with_header serialises exactly the header it was given", ok, txt[:160], F.loc(nw))
    # ---- (e) builtin variable wiring --------------------------------------------------------------------------------------------------------
    sp = F.fn("vm::interpreter::VM::set_curr_pkt")
    if R.anchor("VM::set_curr_pkt", sp):
        got = {}
        for c in H.walk(H.body_of(sp)):
            if c.get("k") == "mcall" and c["m"] == "update_builtin_var":
                got[H.last(H.ctor_of(H.strip(c["args"][0])) or "?")] = H.render(c["args"][1])
        want = {"PL": "pkt.get_caplen()", "WL": "pkt.get_wirelen()", "Tss": "pkt.get_ts_sec()", "Tsu": "pkt.get_ts_usec()"}
        for k, v in want.items():
            R.ob("builtin-var-wiring", k, got.get(k) == v, "%s := %s (want %s)" % (k, got.get(k), v), F.loc(sp))
    nm = F.fn("builtins::variables::<impl std::convert::From<builtins::variables::BuiltinVarType> for &'static str>::from")
    if R.anchor("BuiltinVarType names", nm):
        tab = {}
        for m in H.walk(H.body_of(nm)):
            if m.get("k") == "match" and not H.is_try(m):
                for a in m["arms"]:
                    for v in H.pat_variants(a["pat"]):
                        tab[H.last(v)] = H.render(H.strip(a["body"]))
        want = {"Argv": '"argv"', "NP": '"NP"', "PL": '"PL"', "WL": '"WL"', "Tss": '"TSS"', "Tsu": '"TSU"'}
        R.ob("builtin-var-names", "variable names", all(tab.get(k) == v for k, v in want.items()), str(tab), F.loc(nm))
    vs = F.enum_variants("builtins::variables::BuiltinVarType") or []
    fu = F.fn("<builtins::variables::BuiltinVarType as std::convert::From<usize>>::from")
    if R.anchor("From<usize> for BuiltinVarType", fu):
        tab = {}
        for m in H.walk(H.body_of(fu)):
            if m.get("k") == "match" and not H.is_try(m):
                for a in m["arms"]:
                    if a["pat"].get("k") == "plit":
                        tab[a["pat"]["lit"]["v"]] = H.last(H.ctor_of(H.strip(a["body"])) or "?")
        R.ob("builtin-var-names", "From<usize> is the inverse of the discriminant", all(tab.get(d) == n for n, d in vs if n != "Max"), str(tab), F.loc(fu))
    # ---- (f) end filter: once, after the loop ----------------------------------------------------------------------------------------------------
    after = [(n, d) for n, d in seq_n if d == 0]
    ev = ev_n
    tail = [n for n, d in after if n in ("push_filter_frame", "run", "pop_filter_frame")]
    R.ob("end-filter-once", "end filter: push → run → pop, once, outside the packet loop", tail == ["push_filter_frame", "run", "pop_filter_frame"],
         str(after), F.loc(rf))
    pushes0 = [n for nm, d, n in ev if nm == "push_filter_frame" and d == 0]
    src_ = resolve(pushes0[0]["args"][0]) if len(pushes0) == 1 and pushes0[0].get("args") else None
    from_end = isinstance(src_, tuple) and src_[0] == "payload" and src_[1] == "Some" and isinstance(src_[2], dict) and is_param(H.strip(src_[2]), None)
    R.ob("end-filter-once", "end filter is taken from filter_end", from_end, "", F.loc(rf), nontrivial=False)
    # ---- (h) the emitted filter code leaves exactly one value: delegated to the emission verifier (C07) --------------------------------------------
    # ---- (i) "writes the packet, as modified so far": what is written is the packet's current state -------------------------------------
    # C15's rules on the output path (write_all serialises the packet when it is written, through From<&PcapPacket>, whose
    # shape is header ‖ cached layer | rawdata) and the rule that a packet object holds no derived copy of its own bytes are
    # necessary for this clause: a cached encoding survives a later assignment to a layer field.
    import importlib
    from .lib import core as _core
    try:
        R15 = _core.Report("C15")
        importlib.import_module("rules.c15").run(F, R15, tier)
        for o in R15.obls:
            if o.rule in ("output-routing", "packet-serialiser-shape", "packet-holds-no-derived-bytes"):
                R.ob("linked:C15:" + o.rule, o.key, o.ok, o.detail, o.loc, nontrivial=False)
    except Exception as e:  # fail closed
        R.ob("linked-check", "C15's output rules could be evaluated", False, "%s: %s" % (type(e).__name__, e))
